#!/bin/bash
# MANIFEST.setup_cmd: full clean .vo build of the Coq development, grep audit, coqchk -o.
set -e
cd "$(dirname "$0")"
export PYTHONHASHSEED=0 PYTHONDONTWRITEBYTECODE=1
unset PYTHONPATH
mkdir -p coq/cases evidence replays
/venv/bin/python - <<'PY'
import sys
sys.path.insert(0, ".")
from harness import coqeval
import subprocess, os
coqeval.gen_coqproject()
subprocess.run(["coq_makefile", "-f", "_CoqProject", "-o", "Makefile"], cwd=coqeval.COQ, check=True, stdout=subprocess.DEVNULL)
subprocess.run(["make", "clean"], cwd=coqeval.COQ, stdout=subprocess.DEVNULL, stderr=subprocess.DEVNULL)
ok, log, dt = coqeval.coq_make()
print(log[-3000:])
print(f"[setup] coq build ok={ok} in {dt:.0f}s")
bad = coqeval.audit()
print("[setup] audit:", bad or "clean")
sys.exit(0 if ok and not bad else 1)
PY
if [ "${WHVERIF_SKIP_COQCHK:-0}" != "1" ]; then
  mods=$(cd coq/props && ls *.v | sed 's/\.v$//; s/^/WH.Props./' | tr '\n' ' ')
  ( cd coq && timeout 3000 coqchk -silent -o -Q model WH.Model -Q proofs WH.Proofs -Q props WH.Props $mods > coqchk.txt 2>&1 ) \
     && echo "[setup] coqchk ok (coq/coqchk.txt)" || { echo "[setup] coqchk FAILED"; tail -20 coq/coqchk.txt; exit 1; }
fi
# warm the scratch build of /repo so the first check does not pay for it
/venv/bin/python harness/build.py > /dev/null && echo "[setup] scratch build ready"
