#!/bin/bash
# MANIFEST.setup_cmd: full clean .vo build of the Coq development, grep audit, coqchk -o, scratch build of /repo.
# Everything under coq/ is built (make -k); the build, the audit and coqchk must succeed for every file in the
# dependency closure of a property claimed in MANIFEST.json (files of properties still under construction may fail).
set -e
cd "$(dirname "$0")"
export PYTHONHASHSEED=0 PYTHONDONTWRITEBYTECODE=1
unset PYTHONPATH
mkdir -p coq/cases evidence replays
/venv/bin/python - <<'PY'
import sys, json, subprocess, os
sys.path.insert(0, ".")
from harness import coqeval
claimed = [c["property_id"] for c in json.load(open("MANIFEST.json"))["checks"]]
coqeval.gen_coqproject()
subprocess.run(["coq_makefile", "-f", "_CoqProject", "-o", "Makefile"], cwd=coqeval.COQ, check=True, stdout=subprocess.DEVNULL)
subprocess.run(["make", "clean"], cwd=coqeval.COQ, stdout=subprocess.DEVNULL, stderr=subprocess.DEVNULL)
ok, log, dt = coqeval.coq_make()
print(log[-1500:])
print(f"[setup] full coq build ok={ok} in {dt:.0f}s")
bad_props = []
closure = set()
for pid in claimed:
    ok1, log1, _ = coqeval.coq_make(target=f"props/{pid}.v")
    if not ok1:
        bad_props.append(pid)
        print(log1[-1500:])
    closure |= coqeval.dep_closure(f"props/{pid}.v")
bad = coqeval.audit(only=closure)
print("[setup] audit over the closure of claimed properties:", bad or "clean")
if bad_props:
    print("[setup] claimed properties whose theorem file does not build:", bad_props)
open("coq/claimed_modules.txt", "w").write(" ".join(f"WH.Props.{p}" for p in claimed))
sys.exit(0 if not bad and not bad_props else 1)
PY
if [ "${WHVERIF_SKIP_COQCHK:-0}" != "1" ]; then
  mods=$(cat coq/claimed_modules.txt)
  ( cd coq && timeout 3000 coqchk -silent -o -Q model WH.Model -Q proofs WH.Proofs -Q props WH.Props $mods > coqchk.txt 2>&1 ) \
     && echo "[setup] coqchk ok (coq/coqchk.txt)" || { echo "[setup] coqchk FAILED"; tail -20 coq/coqchk.txt; exit 1; }
fi
# warm the scratch build of /repo so the first check does not pay for it
/venv/bin/python harness/build.py > /dev/null && echo "[setup] scratch build ready"
