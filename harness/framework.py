"""Check protocol shared by all properties (DESIGN.md section 3)."""
import hashlib
import importlib
import json
import os
import random
import sys
import time
import traceback

from . import build, coqeval

VERIF = coqeval.VERIF
KNOWN_FILE = os.path.join(VERIF, "known_findings.json")

BASE_TRUSTED = [
    "Coq 8.16.1 kernel (coqc) incl. vm_compute; no native_compute; coqchk re-check at setup (coq/coqchk.txt)",
    "hand-written Gallina model (coq/model) of the anchored code; tied to /repo's working tree only by the correspondence run of this check",
    "correspondence harness: python generators/drivers/canonicalisers in /verif/harness, the cases.v printer, scratch build of /repo via setup.py build_ext",
    "no extraction (no Extract Constant/Inductive directives); no axioms declared by this development",
]


class Ctx:
    def __init__(self, pid, tier, seed):
        self.pid, self.tier, self.seed = pid, tier, seed
        self.rng = random.Random((seed, pid).__repr__())
        self.t0 = time.time()
        self.evaluations = 0
        self.nontrivial_keys = set()
        self.samples = []
        self.rule = ""
        self.violations = []      # dicts: signature, what, replay(data), found_input
        self.l2 = []              # dicts: name, cases
        self.known_hits = []
        self.extra = {}
        self.dist = {}
        self.trusted = list(BASE_TRUSTED)
        self.assumptions = []
        self.obl = None
        self.impl = None
        self.exhaustive = False
        self.disagreements_checked = 0

    @property
    def quick(self):
        return self.tier == "quick"

    def n(self, quick, thorough):
        return quick if self.quick else thorough

    # ---- coverage bookkeeping
    def count(self, case_key=None, nontrivial=True, k=1):
        self.evaluations += k
        if nontrivial and case_key is not None:
            self.nontrivial_keys.add(hashlib.blake2b(repr(case_key).encode(), digest_size=8).digest())

    def sample(self, x, limit=6):
        if len(self.samples) < limit:
            self.samples.append(x)

    def tally(self, key, k=1):
        self.dist[key] = self.dist.get(key, 0) + k

    # ---- outcomes
    def violation(self, signature, what, replay, found_input=True):
        self.violations.append(dict(signature=signature, what=what, replay=replay, found_input=found_input))

    def l2_disagreement(self, name, cases):
        """The model no longer describes the code on these cases (theorem does not speak about it)."""
        self.l2.append(dict(name=name, cases=cases[:20], n=len(cases)))

    def log(self, *a):
        print(f"[{self.pid}]", *a, flush=True)


def load_known():
    try:
        return json.load(open(KNOWN_FILE))
    except FileNotFoundError:
        return {"findings": []}


def write_evidence(ctx, nviol):
    obl = ctx.obl or {"theorems": [], "ok": False}
    n_obl = max(1, len(obl.get("declared", []) or obl.get("theorems", [])))
    n_dis = len([t for t in obl.get("theorems", [])]) if obl.get("ok") else 0
    cov = {
        "obligations": n_obl,
        "discharged": n_dis if obl.get("ok") else 0,
        "checker_cmd": f"make -C coq (full .vo) && coqc -Q coq/model WH.Model -Q coq/proofs WH.Proofs -Q coq/props WH.Props coq/props/{ctx.pid}.v  # Print Assumptions per theorem; coqchk -o at setup",
        "trusted_base": ctx.trusted,
        "theorems": obl.get("theorems", []),
        "audit_clean": obl.get("audit_clean", False),
        "evaluations": ctx.evaluations,
        "distinct_nontrivial": len(ctx.nontrivial_keys),
        "rule": ctx.rule,
        "samples": ctx.samples,
        "disagreements_checked": ctx.disagreements_checked,
        "model_disagreements": [dict(name=d["name"], n=d["n"]) for d in ctx.l2],
        "input_distribution": ctx.dist,
        "exhaustive": ctx.exhaustive,
        "known_findings_hit": ctx.known_hits,
    }
    cov.update(ctx.extra)
    ev = {
        "property_id": ctx.pid,
        "tier": ctx.tier,
        "seed": ctx.seed,
        "level": "proof",
        "coverage": cov,
        "assumptions": ctx.assumptions,
        "wall_s": round(time.time() - ctx.t0, 2),
        "violations": nviol,
    }
    os.makedirs(os.path.join(VERIF, "evidence"), exist_ok=True)
    p = os.path.join(VERIF, "evidence", f"{ctx.pid}.json")
    with open(p + ".tmp", "w") as f:
        json.dump(ev, f, indent=1, default=str)
    os.replace(p + ".tmp", p)


def write_replay(ctx, v, idx):
    os.makedirs(os.path.join(VERIF, "replays"), exist_ok=True)
    blob = json.dumps(v["replay"], sort_keys=True, default=str)
    h = hashlib.sha1(blob.encode()).hexdigest()[:10]
    p = os.path.join("replays", f"{ctx.pid}-{h}.json")
    with open(os.path.join(VERIF, p), "w") as f:
        json.dump(dict(property=ctx.pid, signature=v["signature"], what=v["what"],
                       found_input=v["found_input"], seed=ctx.seed, tier=ctx.tier, replay=v["replay"]),
                  f, indent=1, default=str)
    return p


CTX_FIELDS = ("evaluations", "nontrivial_keys", "samples", "rule", "violations", "l2", "extra", "dist", "trusted",
              "assumptions", "exhaustive", "disagreements_checked")


def run_isolated(ctx, mod, replay_data):
    """Run the property-specific part in a forked child so that a hard crash of the implementation (segfault, abort
    from a C++ assertion) inside an in-process driver cannot take the check down without a verdict. The child's
    bookkeeping is handed back through a pickle file; a child that dies is reported as a broken correspondence."""
    import pickle
    import tempfile
    if os.environ.get("WHVERIF_NO_FORK"):
        (mod.replay(ctx, replay_data) if replay_data is not None else mod.run(ctx))
        return
    fd, path = tempfile.mkstemp(prefix="whverif-ctx-", dir="/var/tmp")
    os.close(fd)
    sys.stdout.flush()
    pid = os.fork()
    if pid == 0:
        code = 0
        try:
            try:
                (mod.replay(ctx, replay_data) if replay_data is not None else mod.run(ctx))
                err = None
            except BaseException:
                err = traceback.format_exc()
            with open(path, "wb") as f:
                pickle.dump(({k: getattr(ctx, k) for k in CTX_FIELDS}, err), f)
        except BaseException:
            code = 3
        finally:
            sys.stdout.flush()
            os._exit(code)
    _, status = os.waitpid(pid, 0)
    try:
        state, err = pickle.load(open(path, "rb"))
        for k, v in state.items():
            setattr(ctx, k, v)
    except Exception:
        state, err = None, None
    finally:
        try:
            os.unlink(path)
        except OSError:
            pass
    if state is None:
        why = (f"killed by signal {os.WTERMSIG(status)}" if os.WIFSIGNALED(status) else f"exit status {os.WEXITSTATUS(status)}")
        ctx.l2_disagreement("the check process died while driving the implementation (" + why + ")",
                            [{"status": why}])
    elif err:
        raise RuntimeError("check crashed in its worker process:\n" + err)


def run_check(pid, tier, seed, replay=None):
    ctx = Ctx(pid, tier, seed)
    mod = importlib.import_module(f"harness.props.{pid}")
    ctx.trusted += getattr(mod, "TRUSTED", [])
    ctx.assumptions += getattr(mod, "ASSUMPTIONS", [])
    ctx.rule = getattr(mod, "RULE", "")
    fatal = None
    try:
        # 1. proof obligations
        ok, log, dt = coqeval.coq_make(target=f"props/{pid}.v")
        if not ok:
            ctx.obl = {"ok": False, "theorems": [], "log": log[-3000:]}
            ctx.violation("obligation:make", "coq development does not build: " + log[-800:],
                          {"broken": "make -C coq", "log": log[-3000:]}, found_input=False)
        else:
            ctx.obl = coqeval.obligations(pid)
            bad = coqeval.audit(only=coqeval.dep_closure(f"props/{pid}.v"))
            ctx.obl["audit_clean"] = not bad
            if bad:
                ctx.obl["ok"] = False
                ctx.violation("obligation:audit", f"forbidden construct in coq sources: {bad[:5]}",
                              {"broken": "audit", "hits": bad}, found_input=False)
            elif not ctx.obl["ok"]:
                ctx.violation("obligation:props", f"props/{pid}.v does not check or uses a non-allowed axiom",
                              {"broken": f"coq/props/{pid}.v", "log": ctx.obl.get("log", "")[-3000:],
                               "theorems": ctx.obl.get("theorems")}, found_input=False)
            for t in ctx.obl.get("theorems", []):
                for a in t["assumptions"]:
                    line = f"axiom used by {t['name']}: {a}"
                    if line not in ctx.trusted:
                        ctx.trusted.append(line)
        ctx.log(f"obligations: {len(ctx.obl.get('theorems', []))} theorems, ok={ctx.obl.get('ok')} ({dt:.0f}s make)")
        # 2. scratch build
        ctx.impl = build.build_impl()
        build.activate(ctx.impl)
        # 3-5. property specific
        data = json.load(open(replay))["replay"] if replay else None
        run_isolated(ctx, mod, data)
    except Exception as e:
        # The check does not crash on the tree it was developed against; if it crashes now, the correspondence
        # between model and code can no longer be evaluated (typically: the implementation raised or produced output
        # the driver cannot interpret). Reported as a broken correspondence unless a concrete violation was recorded.
        fatal = traceback.format_exc()
        print(fatal, flush=True)
        if ctx.impl is not None:
            ctx.l2_disagreement("check crashed while evaluating the correspondence: " + repr(e)[:200],
                                [{"traceback": fatal[-3000:]}])

    known = load_known()["findings"]

    def split_known(vs):
        unl = []
        for v in vs:
            hit = None
            for k in known:
                if k.get("status") == "known" and k["property"] == pid and k["signature"] == v["signature"]:
                    hit = k
            if hit:
                if hit["signature"] not in [h["signature"] for h in ctx.known_hits]:
                    ctx.known_hits.append(dict(signature=hit["signature"], what=hit["what"]))
            else:
                unl.append(v)
        return unl

    unlisted = split_known(ctx.violations)
    # L2-only breakage: the theorem no longer speaks about this code. Reported unless a violation with a concrete
    # failing input (that is not a listed known finding) is already being reported.
    if ctx.l2 and not any(v["found_input"] for v in unlisted):
        names = ", ".join(d["name"] for d in ctx.l2)
        v = dict(signature="correspondence:" + names,
                 what=f"model correspondence no longer checks ({names}); search found no input violating the property text",
                 replay={"broken_correspondence": [d["name"] for d in ctx.l2],
                         "theorems": [t["name"] for t in (ctx.obl or {}).get("theorems", [])],
                         "disagreeing_cases": ctx.l2}, found_input=False)
        ctx.violations.append(v)
        unlisted.append(v)
    for h in ctx.known_hits:
        print(f"KNOWN-FINDING: property={pid} {h['what']}", flush=True)
    write_evidence(ctx, len(unlisted))
    if fatal and not unlisted:
        print(f"[{pid}] check crashed before the implementation was built (see traceback); this is a broken check, not a verdict", flush=True)
        return 2
    if fatal:
        print(f"[{pid}] check crashed (see traceback); reporting what was found up to that point", flush=True)
    per_sig = {}
    unlisted_sorted = sorted(unlisted, key=lambda v: len(json.dumps(v["replay"], default=str)))
    for i, v in enumerate(unlisted_sorted):
        per_sig[v["signature"]] = per_sig.get(v["signature"], 0) + 1
        if per_sig[v["signature"]] > 3:
            continue
        p = write_replay(ctx, v, i)
        tail = "" if v["found_input"] else " no-failing-input-found"
        print(f"[{pid}] ({v['signature']}) {v['what'][:700]}")
        print(f"VIOLATION property={pid} replay={p}{tail}", flush=True)
    ctx.log(f"done: {ctx.evaluations} evaluations, {len(ctx.nontrivial_keys)} distinct non-trivial, "
            f"{len(unlisted)} violations, {len(ctx.known_hits)} known findings, {time.time()-ctx.t0:.0f}s")
    return 1 if unlisted else 0


def main(argv):
    import argparse
    ap = argparse.ArgumentParser()
    ap.add_argument("pid", nargs="?")
    ap.add_argument("--tier", default=os.environ.get("VERIF_TIER") or "quick", choices=["quick", "thorough"])
    ap.add_argument("--replay")
    ap.add_argument("--clean", action="store_true")
    a = ap.parse_args(argv)
    if a.clean:
        build.clean()
        return 0
    seed = int(os.environ.get("VERIF_SEED") or 1)
    return run_check(a.pid, a.tier, seed, a.replay)
