"""C14 helpers: generation of `whatshap split` cases (reads + haplotag list + options), file writers,
the driver of the real CLI and the parsers of its output files.  A case is a json-able dict:

  fmt    "fastq" | "fastq.gz" | "bam"
  reads  fastq: [[name, comment|None, seq, qual], ...]
         bam:   [{"name","flag","ref","pos","mapq","cigar","seq","qual","tags":[[tag,type,value],...]}, ...]
  sq     bam only: [[refname, length], ...]  ([] = unmapped BAM without @SQ)
  list   {"header": bool, "ncols": 2..5, "gz": bool, "lines": [[name, hapname, phaseset, chrom], ...],
          "eol": "\\n" | "\\r\\n", "final_newline": bool}
  hashseed  PYTHONHASHSEED of the CLI process;  final_newline (fastq): last line of the reads file ends in \\n;
  ext    optional file name extension of a FASTQ reads file (fq, fq.gz, fastq.gzip, ...)
  opts   {"mode": "h"|"o", "h1": bool, "h2": bool, "k": int, "untagged": bool, "add": bool,
          "largest": bool, "discard": bool, "hist": bool, "gzout": bool}
"""
import gzip
import os
import re
from concurrent.futures import ThreadPoolExecutor

from .util import run_cli

NAME_CHARS = "abcxyzR019/_:-."
CIGAR_QUERY = "MIS=X"


# ------------------------------------------------------------------------------------ generation
SPECIAL_NAMES = ["none", "H1", "H2", "readname", "chr1", "1", "7", "a", "a/1", "a/2", "ab", "abc", "x", "X", "r1", "r10"]
PS_POOL = ["1", "7", "500", "90210", "10", "2", "0", "PSa", "none", "chr1"]
CHROM_POOL = ["chr1", "chr2", "chr10", "1", "X", "ref"]


FIRST_CHARS = "#@+;:>!*=~$%&.,-/<?[]^_`{|}'\"\\()"
ANY_CHARS = "".join(chr(i) for i in range(33, 127))       # every printable non-blank ASCII character
HEADERS = [["#readname", "haplotype", "phaseset", "chromosome", "extra"],      # what haplotag writes
           ["#read", "hap", "ps", "chr", "x"],
           ["# readname", "haplotype", "phaseset", "chromosome", "extra"],
           ["#", "h", "p", "c", "x"],
           ["##readname", "haplotype", "phaseset", "chromosome", "extra"]]


def gen_wild_name(rng, first=None):
    """a name over the whole legal character set (SAM: [!-?A-~]{1,254}; FASTQ: anything but blanks after the '@'),
    starting with a punctuation character -- '#', '@', '+', ';', ':' ... -- unless `first` is given"""
    c0 = first or rng.choice("#####@@++;:" + FIRST_CHARS)
    n = c0 + "".join(rng.choice(ANY_CHARS) for _ in range(rng.choice([0, 1, 2, 4, 9])))
    return n + "x" if n == "*" else n


def gen_name(rng):
    if rng.random() < 0.12:
        return gen_wild_name(rng)
    if rng.random() < 0.2:
        return rng.choice(SPECIAL_NAMES)      # names sharing prefixes / looking like haplotype, phase set, chromosome names
    n = rng.choice([1, 1, 2, 3, 6])
    s = "".join(rng.choice(NAME_CHARS) for _ in range(n))
    return ("r" + s) if s[0] in "/_:-." else s


def gen_seq(rng, n):
    return "".join(rng.choice("ACGTN") for _ in range(n))


def gen_qual(rng, n):
    return "".join(chr(rng.choice([33, 35, 40, 64, 62, 73, 126])) for _ in range(n))


def gen_fastq_read(rng, name, allow_empty):
    if allow_empty and rng.random() < 0.12:
        n = 0
    else:
        n = rng.choice([1, 1, 2, 3, 3, 4, 5, 8])
    comment = rng.choice([None, None, None, "c", "1:N:0 x", "len=3"])
    return [name, comment, gen_seq(rng, n), gen_qual(rng, n)]


def gen_cigar(rng, qlen):
    """a cigar consuming exactly qlen query bases (qlen >= 1), with D/N/H sprinkled in"""
    ops = []
    left = qlen
    if rng.random() < 0.2:
        ops.append("2H")
    first = True
    while left > 0:
        k = rng.randint(1, left)
        op = rng.choice("MMMMIS=X") if not first or rng.random() < 0.5 else "M"
        if op == "S" and not (first or k == left):
            op = "M"
        ops.append(f"{k}{op}")
        left -= k
        first = False
        if left > 0 and rng.random() < 0.3:
            ops.append(f"{rng.randint(1, 3)}{rng.choice('DN')}")
    return "".join(ops)


def cigar_qlen(cigar):
    return sum(int(n) for n, op in re.findall(r"(\d+)([MIDNSHP=X])", cigar or "") if op in CIGAR_QUERY)


def gen_tags(rng):
    tags = []
    if rng.random() < 0.5:
        tags.append(["RG", "Z", rng.choice(["g1", "g2"])])
    if rng.random() < 0.3:
        tags.append(["NM", "i", rng.randint(0, 5)])
    if rng.random() < 0.3:
        tags.append(["HP", "i", rng.randint(1, 4)])
    if rng.random() < 0.2:
        tags.append(["PS", "i", rng.choice([1, 100, 70000, 3000000000])])
    if rng.random() < 0.15:
        tags.append(["ZB", "B", [rng.randint(0, 200) for _ in range(rng.randint(1, 4))]])
    if rng.random() < 0.1:
        tags.append(["ZF", "f", rng.choice([0.5, -2.0, 0.25])])
    if rng.random() < 0.1:
        tags.append(["ZA", "A", rng.choice("xyZ")])
    return tags


def gen_bam_read(rng, name, sq):
    mapped = bool(sq) and rng.random() < 0.75
    kind = rng.random()
    qlen = rng.choice([1, 2, 3, 3, 4, 5, 8])
    r = {"name": name, "flag": 4, "ref": None, "pos": 0, "mapq": 0, "cigar": None, "seq": None, "qual": None,
         "tags": gen_tags(rng)}
    if mapped:
        ref = rng.randrange(len(sq))
        r["ref"] = ref
        r["pos"] = rng.randint(0, sq[ref][1] - 50)
        r["mapq"] = rng.choice([0, 20, 60])
        r["flag"] = rng.choice([0, 16, 0, 16, 256, 2048, 2064, 99, 147, 65, 129])
        r["cigar"] = gen_cigar(rng, qlen)
        if kind < 0.25:
            pass                       # mapped record without sequence (issue 215): length from the cigar
        else:
            r["seq"] = gen_seq(rng, qlen)
            if rng.random() < 0.8:
                r["qual"] = gen_qual(rng, qlen)
    else:
        r["flag"] = rng.choice([4, 4, 77, 141])
        if kind < 0.15:
            pass                       # no sequence, no cigar: length 0
        else:
            r["seq"] = gen_seq(rng, qlen)
            if rng.random() < 0.8:
                r["qual"] = gen_qual(rng, qlen)
    return r


def gen_opts(rng, combo=None):
    if combo is None:
        combo = rng.randrange(192)
    outmode = combo % 6
    bits = combo // 6
    o = {"untagged": bool(bits & 1), "add": bool(bits & 2), "largest": bool(bits & 4), "discard": bool(bits & 8),
         "hist": bool(bits & 16), "gzout": rng.random() < 0.3, "mode": "h", "h1": False, "h2": False, "k": 2}
    if outmode == 0:
        o["h1"] = True
    elif outmode == 1:
        o["h2"] = True
    elif outmode == 2:
        o["h1"] = o["h2"] = True
    else:
        o["mode"] = "o"
        o["k"] = outmode - 1          # 2, 3, 4
    # which of the given outputs are the null device (index 0 = untagged, i = Hi); /dev/null is a path like any
    # other for split: the reads are written (to nowhere) and counted in the histogram
    p = 2 if o["mode"] == "h" else o["k"]
    given = [o["untagged"]] + ([o["h1"], o["h2"]] if o["mode"] == "h" else [True] * p)
    x = rng.random()
    if x < 0.7:
        null = [False] * (p + 1)
    elif x < 0.9:
        null = [g and rng.random() < 0.5 for g in given]
    else:
        null = list(given)            # every given output: histogram only
    o["null"] = null
    return o


def opts_null(o):
    return o.get("null") or [False] * (opts_ploidy(o) + 1)


def opts_ploidy(o):
    return 2 if o["mode"] == "h" else o["k"]


def gen_tie_lines(rng, names, p, chroms):
    """list lines for --only-largest-block in which, on every chromosome, at least two phase sets share the
    maximal number of tagged lines; the lines of all blocks are interleaved, so which block comes first in the
    file is independent of its name; sometimes a name is repeated inside a block (line count != read count)"""
    fresh = list(names)
    rng.shuffle(fresh)
    lines = []
    for ch in chroms:
        k = rng.choice([2, 2, 3])
        m = rng.choice([1, 1, 2, 3])
        for j, ps in enumerate(rng.sample(PS_POOL, k)):
            size = m if j < 2 or rng.random() < 0.4 else rng.randint(1, m)
            blk = []
            for i in range(size):
                if blk and rng.random() < 0.15:
                    n = rng.choice(blk)[0]                    # same read twice in the block (mates)
                elif fresh:
                    n = fresh.pop()
                else:
                    n = gen_name(rng) + str(len(lines) + i)
                blk.append([n, f"H{rng.randint(1, p)}", ps, ch])
            lines += blk
    for _ in range(rng.choice([0, 0, 1, 2])):
        lines.append([rng.choice(names) if names and rng.random() < 0.5 else gen_name(rng), "none",
                      rng.choice(PS_POOL), rng.choice(chroms)])
    rng.shuffle(lines)
    return lines


def largest_block_features(lines):
    """(for tallies only) tie situations among the phase sets of a 4-column list"""
    feats = set()
    per = {}
    for n, h, ps, ch in lines:
        if h == "none":
            continue
        per.setdefault(ch, {}).setdefault(ps, []).append(n)
    seen_ps = {}
    for ch, blocks in per.items():
        for ps in blocks:
            seen_ps.setdefault(ps, set()).add(ch)
        if len(blocks) >= 2:
            feats.add("several_blocks_on_a_chromosome")
        top = max(len(v) for v in blocks.values())
        tops = [ps for ps, v in blocks.items() if len(v) == top]      # insertion order = file order
        if len(tops) >= 2:
            feats.add("tie_at_top")
            if tops[0] != min(tops):
                feats.add("tie_first_in_file_is_not_smallest_name")
            if tops[0] != max(tops):
                feats.add("tie_first_in_file_is_not_largest_name")
        ntop = max(len(set(v)) for v in blocks.values())
        ntops = [ps for ps, v in blocks.items() if len(set(v)) == ntop]
        if ntops[0] != tops[0] or len(ntops) != len(tops):
            feats.add("line_count_and_read_count_disagree")
    if any(len(c) >= 2 for c in seen_ps.values()):
        feats.add("same_phaseset_name_on_two_chromosomes")
    if len(per) >= 2:
        feats.add("two_or_more_chromosomes")
    return feats


def gen_case(rng, combo=None, fmt=None, allow_empty_fastq=False, dup_list_names=None, invalid=None, ext=None,
             hash_names=False):
    """invalid: None | 'badhap' | 'emptyfile' | 'largest2col' | 'noknown'; hash_names: at least one read name
    starts with '#' and is listed (tagged), on the first or on a later line"""
    o = gen_opts(rng, combo)
    p = opts_ploidy(o)
    fmt = fmt or rng.choice(["fastq", "fastq.gz", "bam", "bam"])
    npool = rng.choice([1, 2, 3, 4, 6])
    pool = []
    if hash_names:
        npool = max(npool, 2)
        pool = [gen_wild_name(rng, "#") for _ in range(rng.choice([1, 1, 2]))]
        pool = list(dict.fromkeys(pool))
    while len(pool) < npool:
        n = gen_name(rng)
        if n not in pool:
            pool.append(n)
    nreads = rng.choice([0, 1, 2, 3, 4, 5, 6, 8, 10])
    sq = []
    if fmt == "bam" and rng.random() < 0.6:
        sq = [["chrA", 1000], ["chrB", 500]][:rng.choice([1, 2])]
    reads = []
    for _ in range(nreads):
        name = rng.choice(pool)
        reads.append(gen_bam_read(rng, name, sq) if fmt == "bam" else gen_fastq_read(rng, name, allow_empty_fastq))
    if fmt == "bam" and rng.random() < 0.45:
        # both mates of a pair (one name, two records), adjacent or separated; sometimes plus a supplementary
        # or secondary record of the same name
        name = rng.choice(pool)
        r1, r2 = gen_bam_read(rng, name, sq), gen_bam_read(rng, name, sq)
        for r, (fm, fu) in ((r1, (rng.choice([99, 83, 65]), 77)), (r2, (rng.choice([147, 163, 129]), 141))):
            r["flag"] = fm if r["ref"] is not None else fu
        i = rng.randrange(len(reads) + 1)
        reads.insert(i, r1)
        reads.insert(i + 1 if rng.random() < 0.6 else rng.randrange(len(reads) + 1), r2)
        if sq and rng.random() < 0.5:
            r3 = gen_bam_read(rng, name, sq)
            if r3["ref"] is not None:
                r3["flag"] = rng.choice([2048, 2064, 256, 272])
                reads.insert(rng.randrange(len(reads) + 1), r3)
    if fmt != "bam" and rng.random() < 0.25 and reads:
        # exact duplicate records (same name and content)
        reads.insert(rng.randrange(len(reads) + 1), list(rng.choice(reads)))
    # ---- list
    extra = []
    nextra = rng.choice([0, 0, 1, 2])
    while len(extra) < nextra:
        n = gen_name(rng)
        if n not in pool and n not in extra:
            extra.append(n)
    listed = [n for n in pool if rng.random() < 0.75] + extra
    rng.shuffle(listed)
    if dup_list_names is None:
        dup_list_names = rng.random() < (0.1 if o["discard"] else 0.3)
    if dup_list_names and listed:
        for _ in range(rng.choice([1, 1, 2])):
            listed.insert(rng.randrange(len(listed) + 1), rng.choice(listed))
    ncols = rng.choice([2, 2, 3, 4, 4, 4, 5])
    if o["largest"]:
        ncols = rng.choice([4, 4, 5])
    chroms = rng.sample(CHROM_POOL, rng.choice([1, 1, 2, 3]))
    pss = rng.sample(PS_POOL, rng.choice([1, 2, 3, 4]))
    haps = ["none"] + [f"H{i}" for i in range(1, p + 1)]
    lines = []
    for n in listed:
        h = rng.choice(haps + haps[1:])
        lines.append([n, h, rng.choice(pss) if h != "none" or rng.random() < 0.5 else "none", rng.choice(chroms)])
    if o["largest"] and invalid is None and rng.random() < 0.5:
        lines = gen_tie_lines(rng, pool + extra, p, chroms)
    lst = {"header": rng.random() < 0.6, "ncols": ncols, "gz": rng.random() < 0.2, "lines": lines,
           "eol": rng.choice(["\n", "\n", "\n", "\r\n"]), "final_newline": rng.random() < 0.8,
           "header_style": rng.choice([0, 0, 0, 1, 2, 3, 4])}
    if invalid == "badhap":
        if not lines:
            lines.append([gen_name(rng), "H1", pss[0], chroms[0]])
        bad = rng.choice([f"H{p + 1}", "h1", "H0", "H01", "unknown", "None", "1"])
        lines[rng.randrange(len(lines))][1] = bad
    elif invalid == "emptyfile":
        lst["header"] = False
        lst["lines"] = []
    elif invalid == "largest2col":
        o["largest"] = True
        lst["ncols"] = rng.choice([2, 3])
        if not lines and not lst["header"]:
            lst["header"] = True
    elif invalid == "noknown":
        o["discard"] = True
        lst["header"] = True
        lst["lines"] = []
    elif not lst["header"] and not lines:
        lst["header"] = True
    if hash_names and invalid is None:
        hn = [n for n in pool if n.startswith("#")]
        if not any(r[0] in hn if fmt != "bam" else r["name"] in hn for r in reads):
            n = rng.choice(hn)
            reads.insert(rng.randrange(len(reads) + 1),
                         gen_bam_read(rng, n, sq) if fmt == "bam" else gen_fastq_read(rng, n, False))
        for n in hn:
            if not any(x[0] == n and x[1] != "none" for x in lst["lines"]):
                lst["lines"].append([n, rng.choice(haps[1:]), rng.choice(pss), rng.choice(chroms)])
        rng.shuffle(lst["lines"])
        if rng.random() < 0.35:                      # a '#' name on the very first line
            i = next(i for i, x in enumerate(lst["lines"]) if x[0] in hn)
            lst["lines"].insert(0, lst["lines"].pop(i))
    case = {"fmt": fmt, "reads": reads, "list": lst, "opts": o, "hashseed": rng.choice(["0", "0", "1", "7", "42"])}
    if fmt == "bam":
        case["sq"] = sq
    else:
        case["final_newline"] = rng.random() < 0.85
        if ext:
            case["ext"] = ext
    return case


# ------------------------------------------------------------------------------------ file writers
def fastq_record_text(r):
    name, comment, seq, qual = r
    head = "@" + name + ((" " + comment) if comment else "")
    return f"{head}\n{seq}\n+\n{qual}\n"


def write_reads(case, d):
    import pysam
    fmt = case["fmt"]
    if fmt == "bam":
        path = os.path.join(d, "reads.bam")
        hd = {"HD": {"VN": "1.6", "SO": "unsorted"}}
        if case.get("sq"):
            hd["SQ"] = [{"SN": n, "LN": ln} for n, ln in case["sq"]]
        hd["RG"] = [{"ID": "g1", "SM": "s"}, {"ID": "g2", "SM": "s"}]
        header = pysam.AlignmentHeader.from_dict(hd)
        with pysam.AlignmentFile(path, "wb", header=header) as f:
            for r in case["reads"]:
                a = pysam.AlignedSegment(header)
                a.query_name = r["name"]
                a.flag = r["flag"]
                if r["ref"] is not None:
                    a.reference_id = r["ref"]
                    a.reference_start = r["pos"]
                    a.mapping_quality = r["mapq"]
                if r["cigar"]:
                    a.cigarstring = r["cigar"]
                if r["seq"]:
                    a.query_sequence = r["seq"]
                    if r["qual"]:
                        a.query_qualities = pysam.qualitystring_to_array(r["qual"])
                for tag, typ, val in r["tags"]:
                    a.set_tag(tag, val, value_type=typ if typ in "fAZ" else None)
                f.write(a)
        return path
    text = "".join(fastq_record_text(r) for r in case["reads"])
    if not case.get("final_newline", True) and case["reads"] and case["reads"][-1][2]:
        text = text[:-1]                                   # last line without newline
    ext = case.get("ext") or fmt                           # file name extension (fastq, fastq.gz, fq, fq.gz, fastq.gzip)
    path = os.path.join(d, "reads." + ext)
    if fmt == "fastq.gz":
        with gzip.open(path, "wt") as f:
            f.write(text)
    else:
        with open(path, "w") as f:
            f.write(text)
    return path


def list_text(lst):
    nc = lst["ncols"]
    out = []
    if lst["header"]:
        out.append("\t".join(HEADERS[lst.get("header_style", 0)][:nc]))
    for name, hap, ps, chrom in lst["lines"]:
        out.append("\t".join([name, hap, ps, chrom, "x"][:nc]))
    eol = lst.get("eol", "\n")
    text = "".join(x + eol for x in out)
    if not lst.get("final_newline", True) and out:
        text = text[:-len(eol)]
    return text


def write_list(case, d):
    lst = case["list"]
    if lst["gz"]:
        path = os.path.join(d, "list.tsv.gz")
        with gzip.open(path, "wt", newline="") as f:
            f.write(list_text(lst))
    else:
        path = os.path.join(d, "list.tsv")
        with open(path, "w", newline="") as f:
            f.write(list_text(lst))
    return path


# ------------------------------------------------------------------------------------ observation
def enc(b):
    """injective encoding of a byte string as a non-negative integer"""
    if isinstance(b, str):
        b = b.encode("utf-8", "surrogateescape")
    return int.from_bytes(b"\x01" + b, "big")


def input_reads(case, reads_path):
    """[(name, length, payload, libstr)] of the input, as strings/ints.  The length is the read
    length in the sense of the property (bases of the read; for a record without sequence the
    length its CIGAR implies, else 0).  libstr is what pysam's FastxRecord.__str__ makes of the
    record (external behaviour, observed here on the very input file)."""
    import pysam
    out = []
    if case["fmt"] == "bam":
        with pysam.AlignmentFile(reads_path, check_sq=False) as f:
            recs = [r.to_string() for r in f]
        assert len(recs) == len(case["reads"])
        for r, s in zip(case["reads"], recs):
            assert s.split("\t")[0] == r["name"]
            ln = len(r["seq"]) if r["seq"] else cigar_qlen(r["cigar"])
            out.append((r["name"], ln, s, s))
        return out
    with pysam.FastxFile(reads_path) as f:
        lib = [(rec.name, str(rec) + "\n") for rec in f]
    assert len(lib) == len(case["reads"]), (len(lib), len(case["reads"]))
    for r, (lname, lstr) in zip(case["reads"], lib):
        assert lname == r[0], (lname, r)
        out.append((r[0], len(r[2]), fastq_record_text(r), lstr))
    return out


def parse_fastx(text):
    """tolerant record splitter: '@' records take 4 lines, '>' records 2 lines, anything else is one
    chunk up to the end; the payload is the raw text of the lines"""
    lines = text.splitlines(keepends=True)
    recs = []
    i = 0
    while i < len(lines):
        k = 4 if lines[i].startswith("@") else 2 if lines[i].startswith(">") else len(lines) - i
        recs.append("".join(lines[i:i + k]))
        i += k
    return recs


def read_output(case, path):
    import pysam
    if case["fmt"] == "bam":
        with pysam.AlignmentFile(path, check_sq=False) as f:
            hdr = str(f.header)
            return [r.to_string() for r in f], hdr
    op = gzip.open if path.endswith(".gz") else open
    with op(path, "rt", newline="") as f:
        return parse_fastx(f.read()), None


def parse_hist(path):
    rows = []
    with open(path) as f:
        lines = f.read().split("\n")
    head = lines[0]
    for ln in lines[1:]:
        if ln == "":
            continue
        rows.append([int(x) for x in ln.split("\t")])
    return head, rows


ERR_CLASSES = [
    ("EAssertDup", re.compile(r"AssertionError: Total number of reads is not equal to number of known reads")),
    ("EAssertNoKnown", re.compile(r"AssertionError: No known reads in input set")),
    ("EKey", re.compile(r"^KeyError: ", re.M)),
    ("EValue", re.compile(r"^ValueError: ", re.M)),
]


def classify_error(stderr):
    tail = stderr[-3000:]
    for name, rx in ERR_CLASSES:
        if rx.search(tail):
            return name
    m = re.findall(r"^(\w+(?:Error|Exception))\b", tail, re.M)
    return "other:" + (m[-1] if m else "unknown")


def prepare_case(case, d):
    """write the input files of the case into directory d; returns the CLI arguments and output paths"""
    os.makedirs(d, exist_ok=True)
    reads_path = write_reads(case, d)
    list_path = write_list(case, d)
    o = case["opts"]
    ext = "bam" if case["fmt"] == "bam" else ("fastq.gz" if o["gzout"] else "fastq")
    p = opts_ploidy(o)
    paths = [None] * (p + 1)
    null = opts_null(o)
    args = ["split"]
    if o["mode"] == "h":
        for i, key in ((1, "h1"), (2, "h2")):
            if o[key]:
                paths[i] = os.devnull if null[i] else os.path.join(d, f"out.h{i}.{ext}")
                args += [f"--output-h{i}", paths[i]]
    else:
        for i in range(1, p + 1):
            paths[i] = os.devnull if null[i] else os.path.join(d, f"out.h{i}.{ext}")
            args += ["-o", paths[i]]
    if o["untagged"]:
        paths[0] = os.devnull if null[0] else os.path.join(d, f"out.untagged.{ext}")
        args += ["--output-untagged", paths[0]]
    if o["add"]:
        args.append("--add-untagged")
    if o["largest"]:
        args.append("--only-largest-block")
    if o["discard"]:
        args.append("--discard-unknown-reads")
    hist_path = None
    if o["hist"]:
        hist_path = os.path.join(d, "hist.tsv")
        args += ["--read-lengths-histogram", hist_path]
    args += [reads_path, list_path]
    return {"args": args, "paths": paths, "hist_path": hist_path, "reads_path": reads_path, "dir": d}


def collect(case, prep, rc, se):
    """the observation dict of one finished run; unreadable / missing output files are an observation
    (error class other:output-unreadable), never a harness error"""
    try:
        return _collect(case, prep, rc, se)
    except Exception as e:  # noqa: BLE001
        return {"rc": rc if rc != 0 else 1, "inputs": input_reads(case, prep["reads_path"]),
                "requested": [x is not None for x in prep["paths"]],
                "error": "other:output-unreadable", "stderr": (se[-300:] + " | " + repr(e))[-600:]}


def _collect(case, prep, rc, se):
    paths, hist_path, reads_path = prep["paths"], prep["hist_path"], prep["reads_path"]
    p = opts_ploidy(case["opts"])
    obs = {"rc": rc, "inputs": input_reads(case, reads_path), "requested": [x is not None for x in paths]}
    if rc != 0:
        obs["error"] = classify_error(se)
        obs["stderr"] = se[-600:]
        return obs
    outs, hdrs = [], []
    for x in paths:
        if x is None or x == os.devnull:
            outs.append(None)             # not given, or given as the null device: nothing to read back
        else:
            recs, hdr = read_output(case, x)
            outs.append(recs)
            hdrs.append(hdr)
    obs["outs"] = outs
    if case["fmt"] == "bam":
        import pysam
        with pysam.AlignmentFile(reads_path, check_sq=False) as f:
            obs["header_ok"] = all(h == str(f.header) for h in hdrs)
    if hist_path:
        head, rows = parse_hist(hist_path)
        want = "\t".join(["#length", "count-untagged"] + [f"count-h{i}" for i in range(1, p + 1)])
        obs["hist_head_ok"] = head == want
        obs["hist"] = rows
    return obs


def run_case(ctx, case, d):
    """run the real CLI (one `python -m whatshap split ...` process) on the case in directory d"""
    prep = prepare_case(case, d)
    rc, so, se = run_cli(ctx, prep["args"], cwd=d, timeout=120, hashseed=case.get("hashseed", "0"))
    return collect(case, prep, rc, se)


def run_cases(ctx, cases, root, jobs=16):
    def one(ic):
        i, case = ic
        return run_case(ctx, case, os.path.join(root, f"c{i}"))
    with ThreadPoolExecutor(max_workers=jobs) as ex:
        return list(ex.map(one, enumerate(cases)))


BATCH_DRIVER = r"""
import io, json, os, sys, traceback, logging
from whatshap.__main__ import main
jobs = json.load(sys.stdin)
res = []
for job in jobs:
    os.chdir(job["dir"])
    root = logging.getLogger()
    for h in list(root.handlers):
        root.removeHandler(h)
    err = io.StringIO()
    old = sys.stderr
    sys.stderr = err
    rc = 0
    try:
        try:
            main(job["args"])
        except SystemExit as e:
            rc = e.code if isinstance(e.code, int) else (0 if e.code is None else 1)
        except BaseException:
            traceback.print_exc(file=err)
            rc = 1
    finally:
        sys.stderr = old
    res.append({"rc": rc, "stderr": err.getvalue()[-3000:]})
print("RESULTS " + json.dumps(res))
"""


def run_cases_batch(ctx, cases, root, jobs=16):
    """the same CLI entry point (whatshap.__main__.main(argv), argument parser and validate included),
    but many cases per interpreter process -- used for the large exhaustive stream"""
    import json
    from .util import run_py
    preps = [prepare_case(case, os.path.join(root, f"c{i}")) for i, case in enumerate(cases)]
    chunks = [list(range(k, len(cases), jobs)) for k in range(jobs)]
    chunks = [c for c in chunks if c]

    def one(idx):
        payload = json.dumps([{"args": preps[i]["args"], "dir": preps[i]["dir"]} for i in idx])
        for attempt in range(4):
            rc, so, se = run_py(ctx, BATCH_DRIVER, cwd=root, stdin=payload, timeout=3000)
            line = [x for x in so.splitlines() if x.startswith("RESULTS ")]
            if rc == 0 and line:
                return json.loads(line[-1][len("RESULTS "):])
            # the shared scratch build may be mid-rebuild (import error at driver start): wait and retry
            import time
            time.sleep(20 * (attempt + 1))
        raise RuntimeError("batch driver failed: " + se[-2000:])
    with ThreadPoolExecutor(max_workers=jobs) as ex:
        results = list(ex.map(one, chunks))
    obs = [None] * len(cases)
    for idx, res in zip(chunks, results):
        for i, r in zip(idx, res):
            obs[i] = collect(cases[i], preps[i], r["rc"], r["stderr"])
    return obs


# ------------------------------------------------------------------------------------ Coq terms
def hexz(n):
    return f"0x{n:x}%Z"


def hap_code(h):
    if h == "none":
        return 0
    m = re.match(r"^H([1-9][0-9]*)$", h)
    return int(m.group(1)) if m else -1


def b(x):
    return "true" if x else "false"


def cfg_term(case):
    o = case["opts"]
    p = opts_ploidy(o)
    reqh = [o["h1"], o["h2"]] if o["mode"] == "h" else [True] * p
    return (f"(mkCfg {b(o['untagged'])} [{'; '.join(b(x) for x in reqh)}] "
            f"[{'; '.join(b(x) for x in opts_null(o))}] {b(o['add'])} {b(o['largest'])} "
            f"{b(o['discard'])} {b(o['hist'])})")


def effective_list(lst):
    """(has_header, entries) as the list FORMAT defines them: a first line that starts with '#' is the header
    line -- also when it was meant as the entry of a read whose name starts with '#' (the format cannot tell
    the two apart; split.py peeks at the first line only). '#' at the start of any later line is part of a name."""
    if lst["header"]:
        return True, lst["lines"]
    if lst["lines"] and lst["lines"][0][0].startswith("#"):
        return True, lst["lines"][1:]
    return False, lst["lines"]


def list_term(case):
    lst = case["list"]
    nc = lst["ncols"]
    ents = []
    has_header, entries = effective_list(lst)
    for name, hap, ps, chrom in entries:
        if nc >= 4:
            ents.append(f"({hexz(enc(name))}, {hap_code(hap)}%Z, {hexz(enc(ps))}, {hexz(enc(chrom))})")
        else:
            ents.append(f"({hexz(enc(name))}, {hap_code(hap)}%Z, 0%Z, 0%Z)")
    ents = [e.replace("-1%Z", "(-1)%Z") for e in ents]
    return f"(mkList {b(has_header)} {b(nc >= 4)} [{'; '.join(ents)}])"


def reads_term(obs):
    return "[" + "; ".join(f"({hexz(enc(n))}, {ln}%Z, {hexz(enc(p))}, {hexz(enc(s))})"
                           for n, ln, p, s in obs["inputs"]) + "]"


def outcome_term(obs):
    if obs["rc"] != 0:
        return f"(Fail {obs['error']})"
    outs = "; ".join("None" if x is None else "Some [" + "; ".join(hexz(enc(r)) for r in x) + "]"
                     for x in obs["outs"])
    if "hist" in obs:
        rows = "; ".join("[" + "; ".join(f"{v}%Z" if v >= 0 else f"({v})%Z" for v in row) + "]" for row in obs["hist"])
        hist = f"(Some [{rows}])"
    else:
        hist = "None"
    return f"(Done [{outs}] {hist})"


def case_term(case, obs):
    return f"({cfg_term(case)}, {list_term(case)}, {reads_term(obs)}, {outcome_term(obs)})"
