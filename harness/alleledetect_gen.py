"""Generator for C06: a reference, a list of (listed) variants handed to whatshap, one haplotype that carries some of
them plus unlisted differences (the "unrelated" indels / mismatches), and error-free alignments of that haplotype
with the indels placed exactly where the variant representation puts them.

A haplotype is a list of *columns* of its global alignment to the reference:
    (kind, rpos, base, tag)   kind in '=', 'X' (mismatch), 'I' (inserted base, rpos = next reference position),
                              'D' (deleted reference base, base = None);   tag = index of the carried listed variant
                              the column belongs to, or None.
An alignment keeps a set of columns (a contiguous run, optionally minus a reference skip) and adds clips.
"""
import array

BASES = "ACGT"
OPCODE = {"M": 0, "I": 1, "D": 2, "N": 3, "S": 4, "H": 5, "P": 6, "=": 7, "X": 8}


def rand_seq(rng, n, homopolymers=False):
    out = []
    for _ in range(n):
        c = rng.choice(BASES)
        while not homopolymers and out and out[-1] == c:
            c = rng.choice(BASES)
        out.append(c)
    return "".join(out)


def normalize(pos, ref, alt):
    """python mirror of BiallelicVcfVariant.normalized (used only to build data, never as a verdict)"""
    while ref and alt and ref[-1] == alt[-1]:
        ref, alt = ref[:-1], alt[:-1]
    while ref and alt and ref[0] == alt[0]:
        ref, alt = ref[1:], alt[1:]
        pos += 1
    return pos, ref, alt


def variant_columns(pos, ref, alt, tag):
    """columns of the ALT allele of (pos, ref, alt), indels placed at the normalised position:
    shared prefix, then min(|r|,|a|) aligned bases, then the inserted / deleted remainder, then the shared suffix."""
    npos, r, a = normalize(pos, ref, alt)
    cols = []
    for k in range(npos - pos):
        cols.append(("=", pos + k, ref[k], tag))
    m = min(len(r), len(a))
    for k in range(m):
        cols.append(("=" if r[k] == a[k] else "X", npos + k, a[k], tag))
    for k in range(m, len(a)):
        cols.append(("I", npos + len(r), a[k], tag))
    for k in range(m, len(r)):
        cols.append(("D", npos + k, None, tag))
    suffix_start = npos + len(r)
    for k in range(suffix_start, pos + len(ref)):
        cols.append(("=", k, ref[k - pos], tag))
    return cols


def build_hap(ref, events):
    """events: sorted, footprint-disjoint list of (pos, ref, alt, tag) carried by the haplotype."""
    cols = []
    p = 0
    for pos, r, a, tag in events:
        assert pos >= p and ref[pos:pos + len(r)] == r, (pos, r, a, ref[pos:pos + len(r)])
        for k in range(p, pos):
            cols.append(("=", k, ref[k], None))
        cols += variant_columns(pos, r, a, tag)
        p = pos + len(r)
    for k in range(p, len(ref)):
        cols.append(("=", k, ref[k], None))
    return cols


def make_variant(rng, ref, pos, kind, max_len=4, shiftable_ok=False):
    """a VCF-style variant record at pos (left anchor for indels) or None if it does not fit.
    Unless shiftable_ok, indels cannot be shifted (inserted/deleted sequence differs in its first base from the base
    following it and in its last base from the anchor)."""
    L = len(ref)
    if kind == "snv":
        return (pos, ref[pos], rng.choice([b for b in BASES if b != ref[pos]]))
    if kind == "mnp":
        k = rng.randint(2, max(2, max_len))
        if pos + k > L:
            return None
        r = ref[pos:pos + k]
        a = "".join(rng.choice([b for b in BASES if b != c]) if (i in (0, k - 1) or rng.random() < 0.7) else c
                    for i, c in enumerate(r))
        return (pos, r, a)
    if kind == "ins":
        k = rng.randint(1, max_len)
        if pos + 1 >= L:
            return None
        for _ in range(30):
            ins = rand_seq(rng, k, homopolymers=True)
            if shiftable_ok or (ins[0] != ref[pos + 1] and ins[-1] != ref[pos]):
                extra = rng.choice([0, 0, 0, 1, 2]) if pos + 3 < L else 0      # trailing context in the record
                ctx = ref[pos + 1:pos + 1 + extra]
                return (pos, ref[pos] + ctx, ref[pos] + ins + ctx)
        return None
    if kind == "del":
        k = rng.randint(1, max_len)
        if pos + 1 + k >= L:
            return None
        dele = ref[pos + 1:pos + 1 + k]
        if not shiftable_ok and (dele[0] == ref[pos + 1 + k] or dele[-1] == ref[pos]):
            return None
        return (pos, ref[pos] + dele, ref[pos])
    if kind == "insR":      # right-anchored record: the inserted bases stand before the reference base at pos
        k = rng.randint(1, max_len)
        if pos < 1:
            return None
        for _ in range(30):
            ins = rand_seq(rng, k, homopolymers=True)
            if shiftable_ok or (ins[0] != ref[pos] and ins[-1] != ref[pos - 1]):
                return (pos, ref[pos], ins + ref[pos])
        return None
    if kind == "delR":      # right-anchored deletion of ref[pos : pos+k]
        k = rng.randint(1, max_len)
        if pos < 1 or pos + k >= L:
            return None
        dele = ref[pos:pos + k]
        if not shiftable_ok and (dele[0] == ref[pos + k] or dele[-1] == ref[pos - 1]):
            return None
        return (pos, dele + ref[pos + k], ref[pos + k])
    if kind == "cpx":       # replacement of k bases by m != k bases, nothing to strip by normalisation
        k = rng.randint(1, 3)
        if pos + k >= L:
            return None
        r = ref[pos:pos + k]
        for _ in range(30):
            m = rng.choice([x for x in (1, 2, 3, 4) if x != k])
            a = rand_seq(rng, m, homopolymers=True)
            if a[0] != r[0] and a[-1] != r[-1]:
                return (pos, r, a)
        return None
    raise ValueError(kind)


def kind_of(v):
    pos, r, a = v
    if a.startswith("<"):
        return "sym"                # symbolic ALT (<DEL>, <DUP>, ...): never re-aligned, no ground truth
    if len(r) == len(a):
        return "snv" if len(r) == 1 else "mnp"
    _, nr, na = normalize(pos, r, a)
    if nr and na:
        return "cpx"
    return "ins" if len(a) > len(r) else "del"


def is_right_anchored(v):
    return kind_of(v) != "sym" and len(v[1]) != len(v[2]) and kind_of(v) != "cpx" and normalize(*v)[0] == v[0]


def shiftable(ref, v):
    """True if the indel (after normalisation a pure insertion or deletion) can be moved along the reference."""
    npos, r, a = normalize(*v)
    if r and a:
        return False
    if a:       # insertion of a before npos
        left = ref[npos - 1] if npos > 0 else None
        right = ref[npos] if npos < len(ref) else None
        return a[-1] == left or a[0] == right
    left = ref[npos - 1] if npos > 0 else None
    right = ref[npos + len(r)] if npos + len(r) < len(ref) else None
    return r[-1] == left or r[0] == right


def trim_range(cols, c0, c1, kinds="ID"):
    while c0 < c1 and cols[c0][0] in kinds:
        c0 += 1
    while c1 > c0 and cols[c1 - 1][0] in kinds:
        c1 -= 1
    return c0, c1


def rle(kinds):
    out = []
    for k in kinds:
        if out and out[-1][0] == k:
            out[-1][1] += 1
        else:
            out.append([k, 1])
    return [(k, n) for k, n in out]


def make_alignment(rng, cols, c0, c1, style="M", skip=None, soft=(0, 0), hard=(0, 0), split_prob=0.0, trim=True,
                   ins_after_skip=False):
    """alignment of hap columns [c0, c1) minus the reference skip `skip` = (a, b) (reference interval).
    With trim=False the alignment (and each block next to the skip) may begin / end with insertion or deletion columns:
    the inserted bases are then the first / last aligned bases, followed by the read end, a clip or the skip.
    Returns dict(start, cigar [(letter, n)], seq, kept = set of column indices) or None if impossible."""
    # a block never begins or ends with a deletion (no aligned base would bound it); with trim also not with an insertion
    c0, c1 = trim_range(cols, c0, c1, "ID" if trim else "D")
    if c1 - c0 < 1 or not any(cols[i][0] in "=X" for i in range(c0, c1)):
        return None
    keep = list(range(c0, c1))
    segs = [keep]
    if skip:
        a, b = skip

        def removed(i):
            kind, rpos = cols[i][0], cols[i][1]
            # inserted bases standing directly in front of the first base after the skip: skipped along, or (with
            # ins_after_skip) kept as an insertion operation that follows the N directly
            return (a < rpos <= b and not (ins_after_skip and rpos == b)) if kind == "I" else (a <= rpos < b)
        left = [i for i in keep if not removed(i) and cols[i][1] < a + (1 if cols[i][0] == "I" else 0)]
        right = [i for i in keep if not removed(i) and i not in set(left)]
        if not left or not right:
            return None
        if cols[left[-1]][0] in ("ID" if trim else "D") or cols[right[0]][0] in ("ID" if trim else "D"):
            return None
        last_ref = [i for i in left if cols[i][0] != "I"]
        if not last_ref or cols[last_ref[-1]][1] != a - 1 or cols[right[0]][1] != b:
            return None
        if not any(cols[i][0] in "=X" for i in left) or not any(cols[i][0] in "=X" for i in right):
            return None
        segs = [left, right]
    kinds = []
    for si, seg in enumerate(segs):
        if si:
            kinds += ["N"] * (skip[1] - skip[0])
        for i in seg:
            k = cols[i][0]
            if k in "=X":
                k = "M" if style == "M" else k if style == "EQX" else rng.choice(["M", k])
            kinds.append(k)
    cig = rle(kinds)
    if split_prob:
        out = []
        for k, n in cig:
            while n > 1 and rng.random() < split_prob:
                m = rng.randint(1, n - 1)
                out.append((k, m))
                n -= m
            out.append((k, n))
        cig = out
    kept = [i for seg in segs for i in seg]
    seq = "".join(cols[i][2] for i in kept if cols[i][2] is not None)
    s0, s1 = soft
    seq = rand_seq(rng, s0, True) + seq + rand_seq(rng, s1, True)
    cig = ([("H", hard[0])] if hard[0] else []) + ([("S", s0)] if s0 else []) + cig \
        + ([("S", s1)] if s1 else []) + ([("H", hard[1])] if hard[1] else [])
    return dict(start=cols[kept[0]][1], cigar=cig, seq=seq, kept=set(kept))


def truth_of(ref, cols, listed, carried, aln, overhang=10, real=None):
    """Ground truth of one alignment.  Returns dict idx -> (allele, window) for every listed variant the alignment
    fully covers and whose allele on this haplotype is defined, and the set of listed variants it touches.
      fully covered: every haplotype column of the variant's footprint is kept by the alignment;
      allele defined: carried -> 1; not carried -> 0 provided the haplotype equals the reference across the footprint
        and the junction after it (otherwise the site does not exist on this haplotype: no truth);
      window: 'clean' if the `overhang` reference bases left of the record position and right of the footprint that
        re-alignment looks at (as far as the read reaches) show no other difference to the reference; 'skip' if they are
        clean except that a reference skip (N) lies within reach; 'dirty' otherwise."""
    kept = aln["kept"]
    by_rpos = {}
    for i, c in enumerate(cols):
        by_rpos.setdefault(c[1], []).append(i)
    lo_kept, hi_kept = min(kept), max(kept)
    rlo, rhi = cols[lo_kept][1], cols[hi_kept][1]
    out, touch = {}, set()
    real = real or {}
    for idx, (pos, r, a) in enumerate(listed):
        if a.startswith("<"):
            # a symbolic record has a ground truth only where the haplotype carries the real event behind it
            # (real[idx] = the carried event, e.g. the deletion behind a <DEL> record): then allele 1
            if idx not in real or idx not in carried:
                continue
            pos, r, a = real[idx]
        if rlo - 1 <= pos + len(r) and pos - 1 <= rhi:
            touch.add(idx)
        if idx in carried:
            mine = [i for i, c in enumerate(cols) if c[3] == idx]
            allele = 1
        else:
            mine = [i for p in range(pos, pos + len(r)) for i in by_rpos.get(p, [])]
            nxt = by_rpos.get(pos + len(r), [])
            clean = all(cols[i][0] == "=" for i in mine) and all(cols[i][0] != "I" for i in nxt)
            if not clean:
                continue
            allele = 0
        if not mine or not all(i in kept for i in mine):
            continue
        # the variant's own insertion / deletion columns must be flanked by aligned bases: an adjacent insertion or
        # deletion of ANOTHER carried event merges into one CIGAR operation, and the indel is then not shown at the
        # variant's normalised position any more (two events at one junction: no truth)
        indel = [i for i in mine if cols[i][0] in "ID"]
        if indel:
            b0, b1 = min(indel) - 1, max(indel) + 1
            if (b0 >= 0 and b0 in kept and cols[b0][0] in "ID") or (b1 < len(cols) and b1 in kept and cols[b1][0] in "ID"):
                continue
        lo, hi = min(mine), max(mine)
        window = "clean"
        for step, first in ((-1, lo - 1), (1, hi + 1)):
            i, need = first, overhang
            while 0 <= i < len(cols) and need > 0:
                if i not in kept:
                    if lo_kept < i < hi_kept and window == "clean":
                        window = "skip"
                    break
                if cols[i][0] != "=":
                    window = "dirty"
                    break
                need -= 1
                i += step
        out[idx] = (allele, window, neighbour(cols, aln, min(mine), -1), neighbour(cols, aln, max(mine), 1))
    return out, touch


def neighbour(cols, aln, i, step):
    """what stands directly before (step -1) / after (step +1) hap column i in the alignment: M, I, D, N (reference skip),
    S / H (clip) or end (nothing)"""
    kept = aln["kept"]
    j = i + step
    if j in kept:
        return "M" if cols[j][0] in "=X" else cols[j][0]
    if min(kept) < j < max(kept):
        return "N"
    ops = [op for op, _ in aln["cigar"]]
    edge = ops[:ops.index(next(o for o in ops if o not in "SH"))] if step < 0 else \
        ops[len(ops) - [o not in "SH" for o in reversed(ops)].index(True):]
    if not edge:
        return "end"
    return edge[-1] if step < 0 else edge[0]


def quals_array(rng, n, mode):
    if mode == "const":
        return array.array("B", [30] * n)
    return array.array("B", [rng.randint(2, 60) for _ in range(n)])
