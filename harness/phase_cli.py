"""Shared CLI driver for C03 / C07: build a synthetic scenario (harness.synth), run `whatshap phase` from the scratch
build with the WHATSHAP_VERIF_TRACE hook, and parse what the run produced (trace records, output VCF calls,
read list).  Every random choice is derived from the integer `seed` stored in the case spec, so a spec replays exactly.
"""
import json
import os
import random

from . import synth
from .util import run_cli

TRIO = ["father", "mother", "child"]


def make_spec(rng, **kw):
    """Draw a CLI case: all parameters are plain json-able values."""
    trio = kw.get("trio", rng.random() < 0.4)
    spec = {
        "seed": rng.randrange(1 << 40),
        "trio": trio,
        "k": kw.get("k", rng.randint(3 if trio else 2, 8)),
        "nvars": kw.get("nvars", rng.randint(6, 16)),
        "depth_reads": kw.get("depth_reads", rng.randint(80, 220)),   # reads per sample
        "paired_fraction": kw.get("paired_fraction", rng.choice([0.0, 0.3, 0.7])),
        "het_fraction": kw.get("het_fraction", rng.choice([0.6, 0.8, 1.0])),
        "tag": kw.get("tag", rng.choice(["PS", "HP"])),
        "genetic": kw.get("genetic", rng.random() < 0.6),              # only meaningful with trio
        "distrust": kw.get("distrust", False),
        "phased_input": kw.get("phased_input", rng.random() < 0.25),  # extra phased VCF as PHASEINPUT (preferred source)
        "nchrom": kw.get("nchrom", rng.choice([1, 1, 2])),
        "low_cov_gaps": kw.get("low_cov_gaps", rng.random() < 0.5),    # thin out reads so that several components arise
        "min_gap": kw.get("min_gap", rng.choice([25, 25, 60])),
    }
    g = spec["min_gap"]
    spec["len_range"] = kw.get("len_range", rng.choice([[2 * g, 8 * g], [4 * g, 12 * g], [3 * g, 5 * g]]))
    return spec


QUARTET = ["father", "mother", "child", "child2"]


def make_stacked_spec(rng, k, counts, family="trio", many=0, nstack=None):
    """Few reads per member, all stacked on the same 2-3 adjacent variants (coverage there = number of reads).
    counts: reads per family member (list, one entry per member; family 'single' has one member);
    many: members whose entry in counts is None get `many` ordinary reads spread over the chromosome instead."""
    spec = make_spec(rng, trio=(family != "single"), k=k, nvars=rng.randint(5, 8), depth_reads=many, paired_fraction=0.0,
                     het_fraction=1.0, tag="PS", genetic=rng.random() < 0.5, phased_input=False, nchrom=1,
                     low_cov_gaps=False, min_gap=25, len_range=[60, 200])
    spec["family"] = family
    spec["kinds"] = ["snv"]
    spec["stacked"] = {"counts": list(counts), "nstack": nstack or rng.choice([2, 3])}
    return spec


def stacked_reads(rng, sc, sample, chrom, n, first, nstack, prefix):
    """n error-free reads of `sample`, each covering exactly the variants first..first+nstack-1 of `chrom`."""
    vs = sc.variants[chrom]
    ref = sc.ref[chrom]
    lo = vs[first].pos
    hi = vs[first + nstack - 1].pos + len(vs[first + nstack - 1].ref)
    reads = []
    for i in range(n):
        h = rng.randint(0, 1)
        alleles = [x[h] for x in sc.haps[sample][chrom]]
        s = max(0, lo - rng.randint(6, 12))
        e = min(len(ref) - 1, hi + rng.randint(6, 12))
        seq, cig = synth.hap_walk(ref, vs, alleles, s, e)
        reads.append(dict(name=f"{prefix}{i}", sample=sample, chrom=chrom, start=s, cigar=cig, seq=seq, qual=30, hap=h, flag=0))
    return reads


def family_samples(spec):
    fam = spec.get("family")
    if fam == "quartet":
        return QUARTET
    if fam == "single":
        return ["S1"]
    return TRIO if spec["trio"] else ["S1"]


def build_inputs(spec, wd):
    rng = random.Random(spec["seed"])
    samples = family_samples(spec)
    sc = synth.make_scenario(rng, nchrom=spec["nchrom"], nsamples=len(samples), nvars=spec["nvars"],
                             sample_names=samples, het_fraction=spec["het_fraction"], min_gap=spec["min_gap"],
                             kinds=tuple(spec.get("kinds") or ("snv", "snv", "ins", "del", "mnp")))
    if spec["trio"]:
        for c in sc.chroms:
            child, _ = synth.inherit(rng, sc.haps["father"][c], sc.haps["mother"][c], recomb_prob=0.0)
            sc.haps["child"][c] = child
            if "child2" in samples:
                child2, _ = synth.inherit(rng, sc.haps["father"][c], sc.haps["mother"][c], recomb_prob=0.0)
                sc.haps["child2"][c] = child2
    ref = synth.write_fasta(sc, os.path.join(wd, "ref.fa"))
    vcf = synth.write_vcf(sc, os.path.join(wd, "in.vcf"))
    reads = []
    stacked = spec.get("stacked")
    for si, s in enumerate(samples):
        for c in sc.chroms:
            if stacked and stacked["counts"][si] is not None:
                nv = len(sc.variants[c])
                nst = min(stacked["nstack"], nv)
                first = max(0, (nv - nst) // 2)
                reads += stacked_reads(rng, sc, s, c, stacked["counts"][si], first, nst, f"{s}_{c}_st")
                continue
            rs = synth.simulate_reads(rng, sc, s, c, spec["depth_reads"], len_range=tuple(spec["len_range"]),
                                      paired_fraction=spec["paired_fraction"])
            if spec["low_cov_gaps"]:
                # remove every read overlapping one or two random windows: splits the read graph
                L = len(sc.ref[c])
                for _ in range(rng.randint(1, 2)):
                    w = rng.randint(0, L - 1)
                    rs = [r for r in rs if not (r["start"] <= w <= r["start"] + len(r["seq"]) + 10)]
            reads += rs
    bam = synth.write_bam(sc, reads, os.path.join(wd, "reads.bam"))
    extra_inputs = []
    if spec["phased_input"]:
        # a phased VCF (true haplotypes, two blocks per chromosome) for the first sample as additional phase input
        s0 = samples[-1]
        phased = {s0: {}}
        for c in sc.chroms:
            nv = len(sc.variants[c])
            cut = nv // 2
            d = {}
            for i in range(nv):
                if sc.genotype(s0, c, i) == (0, 1):
                    d[i] = sc.variants[c][0].pos + 1 if i < cut else sc.variants[c][cut].pos + 1
            phased[s0][c] = d
        extra_inputs.append(synth.write_vcf(sc, os.path.join(wd, "phased.vcf"), phased=phased))
    ped = None
    if spec["trio"]:
        trios = [("child", "father", "mother")]
        if "child2" in samples:
            trios.append(("child2", "father", "mother"))
        ped = synth.write_ped(os.path.join(wd, "trio.ped"), trios)
    return sc, ref, vcf, bam, extra_inputs, ped


def run_phase(ctx, spec, wd, timeout=600):
    """Returns dict(rc, stderr, args, trace=[records], calls, readlist, sc)."""
    os.makedirs(wd, exist_ok=True)
    sc, ref, vcf, bam, extra_inputs, ped = build_inputs(spec, wd)
    out = os.path.join(wd, "out.vcf")
    trace = os.path.join(wd, "trace.jsonl")
    rl = os.path.join(wd, "readlist.tsv")
    for p in (out, trace, rl):
        if os.path.exists(p):
            os.unlink(p)
    args = ["phase", "--reference", ref, "-o", out, "--internal-downsampling", spec["k"], "--tag", spec["tag"],
            "--output-read-list", rl]
    if ped:
        args += ["--ped", ped]
        if not spec["genetic"]:
            args += ["--no-genetic-haplotyping"]
    if spec["distrust"]:
        args += ["--distrust-genotypes"]
    args += [vcf, bam] + extra_inputs
    rc, so, se = run_cli(ctx, args, cwd=wd, env_extra={"WHATSHAP_VERIF_TRACE": trace}, timeout=timeout)
    res = {"rc": rc, "stderr": se, "args": [str(a) for a in args], "trace": [], "calls": {}, "readlist": [], "sc": sc}
    if rc != 0:
        return res
    if os.path.exists(trace):
        with open(trace) as f:
            res["trace"] = [json.loads(line) for line in f if line.strip()]
    res["calls"] = parse_vcf_calls(out)
    if os.path.exists(rl):
        res["readlist"] = parse_readlist(rl)
    return res


def parse_vcf_calls(path):
    """{(chrom, pos0, sample): dict(gt=str, phased=bool, PS=int|None, HP=[(block, hap)]|None)}"""
    calls = {}
    samples = []
    with open(path) as f:
        for line in f:
            if line.startswith("##"):
                continue
            cols = line.rstrip("\n").split("\t")
            if line.startswith("#"):
                samples = cols[9:]
                continue
            chrom, pos1, fmt = cols[0], int(cols[1]), cols[8].split(":")
            for s, txt in zip(samples, cols[9:]):
                vals = dict(zip(fmt, txt.split(":")))
                gt = vals.get("GT", ".")
                ps = vals.get("PS")
                hp = vals.get("HP")
                d = {"gt": gt, "phased": "|" in gt,
                     "PS": int(ps) if ps not in (None, ".", "") else None, "HP": None}
                if hp not in (None, ".", ""):
                    d["HP"] = [tuple(int(x) for x in e.split("-")) for e in hp.split(",")]
                calls[(chrom, pos1 - 1, s)] = d
    return calls


def parse_readlist(path):
    out = []
    with open(path) as f:
        for line in f:
            if line.startswith("#"):
                continue
            name, source_id, sample, phaseset, hap, ncov, first1, last1 = line.rstrip("\n").split("\t")
            out.append(dict(name=name, source_id=int(source_id), sample=sample, phaseset=int(phaseset),
                            first0=int(first1) - 1, last0=int(last1) - 1, n=int(ncov)))
    return out
