"""Shared CLI driver for C03 / C07: build a synthetic scenario (harness.synth), run `whatshap phase` from the scratch
build with the WHATSHAP_VERIF_TRACE hook, and parse what the run produced (trace records, output VCF calls,
read list).  Every random choice is derived from the integer `seed` stored in the case spec, so a spec replays exactly.

Note on --merge-reads: it is part of the drawn option space again (ReadMerger.merge was repaired in /repo commit 3ab1948;
before that it dropped name/mapq/source_id/sample_id of merged reads, so multi-sample runs crashed).  The oracles of both
properties are stated on the reads handed to the solver (the trace), i.e. on the merged reads, so no model support is
needed; only the stacked few-reads stream of C07 keeps it off, because its maximality expectation counts input reads.
"""
import json
import os
import random

from . import synth
from .util import run_cli

TRIO = ["father", "mother", "child"]


def make_spec(rng, **kw):
    """Draw a CLI case: all parameters are plain json-able values."""
    trio = kw.get("trio", rng.random() < 0.4)
    spec = {
        "seed": rng.randrange(1 << 40),
        "trio": trio,
        "k": kw.get("k", rng.randint(3 if trio else 2, 8)),
        "nvars": kw.get("nvars", rng.randint(6, 16)),
        "depth_reads": kw.get("depth_reads", rng.randint(80, 220)),   # reads per sample
        "paired_fraction": kw.get("paired_fraction", rng.choice([0.0, 0.3, 0.7])),
        "het_fraction": kw.get("het_fraction", rng.choice([0.6, 0.8, 1.0])),
        "tag": kw.get("tag", rng.choice(["PS", "HP"])),
        "genetic": kw.get("genetic", rng.random() < 0.6),              # only meaningful with trio
        "distrust": kw.get("distrust", False),
        "phased_input": kw.get("phased_input", rng.random() < 0.25),  # extra phased VCF as PHASEINPUT (preferred source)
        "nchrom": kw.get("nchrom", rng.choice([1, 1, 2])),
        "low_cov_gaps": kw.get("low_cov_gaps", rng.random() < 0.5),    # thin out reads so that several components arise
        "min_gap": kw.get("min_gap", rng.choice([25, 25, 60])),
    }
    g = spec["min_gap"]
    spec["len_range"] = kw.get("len_range", rng.choice([[2 * g, 8 * g], [4 * g, 12 * g], [3 * g, 5 * g]]))
    spec["family"] = kw.get("family", ("trio" if rng.random() < 0.75 else "quartet") if trio
                            else ("single" if rng.random() < 0.7 else "unrelated"))
    spec["var"] = draw_variation(rng, spec, kw.get("var", {}))
    return spec


NAME_POOL = ["a", "A10", "A2", "sample", "sample_1", "sample_10", "Zoe", "NA12878", "NA12878-2", "child", "mother", "father",
             "x.1", "S1", "S2", "s1", "00", "17", "proband", "HG002", "HG003", "HG004", "B-b", "B_b", "zz", "Aa", "aA"]


def draw_variation(rng, spec, fixed=None):
    """Dimensions every CLI stream draws freely: sample names (random, sorting against their role, role names swapped,
    shared prefixes), VCF column order, read groups per sample (ids unrelated to / colliding with sample names), number
    of BAM files, an extra unrelated sample next to a pedigree family, and options that do not change what the property
    demands (--merge-reads, --only-snvs, --no-reference, --sample, --chromosome, --ignore-read-groups, an input VCF that
    already carries phasing, omitting --internal-downsampling)."""
    fixed = fixed or {}
    roles = list(base_roles(spec))
    ped = spec["trio"]
    if ped and rng.random() < 0.3:
        roles.append("extra1")
    names = rng.sample(NAME_POOL, len(roles)) if rng.random() < 0.7 else list(roles)
    order = list(range(len(roles)))
    if rng.random() < 0.6:
        rng.shuffle(order)
    single_vcf_sample = len(roles) == 1
    var = {
        "roles": roles,
        "names": names,
        "column_order": order,
        "rg_per_sample": [rng.choice([1, 1, 2, 3]) for _ in roles],
        "rg_style": rng.choice(["sample", "opaque", "opaque", "collide"]),
        "nbam": rng.choice([1, 1, 2]),
        "merge_reads": rng.random() < 0.15,
        "only_snvs": rng.random() < 0.1,
        "no_reference": rng.random() < 0.12,
        "sample_subset": (not ped and len(roles) > 1 and rng.random() < 0.35),
        "chrom_subset": spec["nchrom"] > 1 and rng.random() < 0.25,
        "ignore_rg": single_vcf_sample and not ped and rng.random() < 0.15,
        "prephased": rng.random() < 0.15,
        "default_k": False,
        "include_homozygous": False,
    }
    var.update(fixed)
    return var


def classify_crash(spec, res, default_sig):
    """(signature, description) of a failed `whatshap phase` run; specific classes first."""
    se = res["stderr"]
    var = spec.get("var") or {}
    if "GrayCodes" in se or res["rc"] < 0 or res["rc"] == 124:
        return ("phase:solver-abort-over-cap", "the solver aborted / was killed / timed out (GrayCodes assertion, signal or "
                "timeout: more reads span a column than the exponential table supports)")
    return (default_sig, "whatshap phase failed")


def tally_variation(ctx, spec, prefix):
    """input-distribution counters for the freely drawn dimensions (one call per CLI run)"""
    var = spec.get("var") or {}
    t = lambda key, k=1: ctx.tally(f"{prefix}.{key}", k)
    t("runs")
    t(f"family={spec.get('family')}")
    roles, names = var.get("roles", []), var.get("names", [])
    if roles != names:
        t("random_sample_names")
        if set(names) & {"father", "mother", "child"} and any(n in ("father", "mother", "child") and n != r for r, n in zip(roles, names)):
            t("role_names_swapped")
        if len(names) > 1 and sorted(names) != [n for _, n in sorted(zip(roles, names))]:
            t("names_sort_against_roles")
    if var.get("column_order") != sorted(var.get("column_order", [])):
        t("vcf_columns_permuted")
    if "extra1" in roles:
        t("extra_unrelated_sample_next_to_family")
    if any(n > 1 for n in var.get("rg_per_sample", [])):
        t("several_read_groups_per_sample")
    t(f"rg_style={var.get('rg_style')}")
    t(f"nbam={var.get('nbam')}")
    for flag in ("merge_reads", "only_snvs", "no_reference", "sample_subset", "chrom_subset", "ignore_rg", "prephased",
                 "default_k", "include_homozygous"):
        if var.get(flag):
            t(flag)
    if spec.get("distrust"):
        t("distrust_genotypes")
    if spec.get("phased_input"):
        t("phased_vcf_as_phase_input")
    t(f"nchrom={spec['nchrom']}")
    if spec.get("readless") is not None:
        t("family_member_without_reads")
    if spec.get("large"):
        t("large_many_variants_long_inserts")
        for thr in (64, 128, 256):
            if spec["nvars"] > thr:
                t(f"nvars>{thr}")
    nfam = len(base_roles(spec))
    if spec["trio"]:
        t("k_not_divisible_by_family" if spec["k"] % nfam else "k_divisible_by_family")
        if nfam > spec["k"]:
            t("family_larger_than_k")


def base_roles(spec):
    fam = spec.get("family")
    if fam == "unrelated":
        return ["S1", "S2"]
    if fam == "quartet":
        return QUARTET
    if fam == "single":
        return ["S1"]
    return TRIO if spec["trio"] else ["S1"]


def role_names(spec):
    """{role: sample name}"""
    var = spec.get("var")
    if not var:
        return {r: r for r in base_roles(spec)}
    return dict(zip(var["roles"], var["names"]))


QUARTET = ["father", "mother", "child", "child2"]


def make_large_spec(rng, nvars, **kw):
    """many variants per chromosome (beyond 64 / 128 / 256 variant indices) and mate pairs with long inserts, so that reads
    span dozens to hundreds of variant indices while covering few variants"""
    kw.setdefault("depth_reads", nvars * 10)
    kw.setdefault("paired_fraction", 0.5)
    kw.setdefault("nchrom", 1)
    kw.setdefault("min_gap", 25)
    spec = make_spec(rng, nvars=nvars, **kw)
    spec["insert_range"] = rng.choice([[1500, 6000], [4000, 12000], [200, 20000]])
    spec["large"] = True
    return spec


def make_readless_spec(rng):
    """pedigree + --distrust-genotypes with a genotyped family member that has NO reads and is homozygous at many variants
    where the members with reads are heterozygous: its homozygous positions alone bridge read components (master block)."""
    fam = rng.choice(["trio", "trio", "quartet"])
    nroles = 3 if fam == "trio" else 4
    spec = make_spec(rng, trio=True, family=fam, k=rng.choice([4, 6, 8]), nvars=rng.randint(8, 16), depth_reads=rng.randint(12, 50),
                     het_fraction=1.0, genetic=rng.random() < 0.85, distrust=rng.random() < 0.8, phased_input=False,
                     low_cov_gaps=True, nchrom=1, var={"prephased": False, "only_snvs": False})
    spec["kinds"] = ["snv"]
    readless = rng.choice([0, 0, 1, 1, 2])
    spec["readless"] = [readless] + ([rng.choice([r for r in range(nroles) if r != readless])] if rng.random() < 0.15 else [])
    spec["hom_role"] = {"role": readless if readless < 2 else rng.choice([0, 1]), "fraction": rng.choice([0.3, 0.5, 0.8])}
    return spec


def make_stacked_spec(rng, k, counts, family="trio", many=0, nstack=None):
    """Few reads per member, all stacked on the same 2-3 adjacent variants (coverage there = number of reads).
    counts: reads per family member (list, one entry per member; family 'single' has one member);
    many: members whose entry in counts is None get `many` ordinary reads spread over the chromosome instead."""
    spec = make_spec(rng, trio=(family != "single"), k=k, nvars=rng.randint(5, 8), depth_reads=many, paired_fraction=0.0,
                     het_fraction=1.0, tag="PS", genetic=rng.random() < 0.5, phased_input=False, nchrom=1,
                     low_cov_gaps=False, min_gap=25, len_range=[60, 200], family=family,
                     var={"merge_reads": False})       # merging changes the number of reads per member (expectation counts them)
    spec["kinds"] = ["snv"]
    spec["stacked"] = {"counts": list(counts), "nstack": nstack or rng.choice([2, 3])}
    return spec


def stacked_reads(rng, sc, sample, chrom, n, first, nstack, prefix):
    """n error-free reads of `sample`, each covering exactly the variants first..first+nstack-1 of `chrom`."""
    vs = sc.variants[chrom]
    ref = sc.ref[chrom]
    lo = vs[first].pos
    hi = vs[first + nstack - 1].pos + len(vs[first + nstack - 1].ref)
    reads = []
    for i in range(n):
        h = rng.randint(0, 1)
        alleles = [x[h] for x in sc.haps[sample][chrom]]
        s = max(0, lo - rng.randint(6, 12))
        e = min(len(ref) - 1, hi + rng.randint(6, 12))
        seq, cig = synth.hap_walk(ref, vs, alleles, s, e)
        reads.append(dict(name=f"{prefix}{i}", sample=sample, chrom=chrom, start=s, cigar=cig, seq=seq, qual=30, hap=h, flag=0))
    return reads


def make_junction_spec(rng, k, junctions, family="single", tag="PS", dup=0):
    """Reads engineered so that the only read linking two groups of variants exceeds the coverage cap k and is dropped
    by read selection.  One junction = an 'onion': a centre block C covered by one read M, wrapped by `layers` nested
    paired-end reads (layer j covers block L_j left and block R_j right of the centre and spans everything in between), and
    link reads of two variants (last variant of the inner left block + first variant of C, and/or last of C + first of the
    inner right block).  With layers = k-1 the coverage on C is k and every link read is rejected; with fewer layers
    (control junctions) the link read is taken by the bridging step.  For k = 1 a plain neighbour block takes the place
    of the innermost layer.  junctions: list of dicts(layers, bs, links=['L','R'])."""
    bs_total = sum((2 * max(j["layers"], 1) + 1) * j["bs"] for j in junctions)
    spec = make_spec(rng, trio=False, k=k, nvars=bs_total, depth_reads=0, paired_fraction=0.0, het_fraction=1.0, tag=tag,
                     genetic=True, phased_input=False, nchrom=rng.choice([1, 2]), low_cov_gaps=False, min_gap=25,
                     len_range=[60, 200], family=family)
    spec["kinds"] = ["snv"]
    spec["junctions"] = junctions
    spec["dup"] = dup
    return spec


def _segment(sc, chrom, alleles, i, j, rng):
    vs, ref = sc.variants[chrom], sc.ref[chrom]
    s = max(0, vs[i].pos - rng.randint(5, 10))
    e = min(len(ref) - 1, vs[j].pos + len(vs[j].ref) + rng.randint(5, 10))
    seq, cig = synth.hap_walk(ref, vs, alleles, s, e)
    return s, seq, cig


def junction_reads(rng, sc, sample, chrom, junctions, dup):
    """returns (reads, link_read_names)"""
    reads, links = [], []
    haps = sc.haps[sample][chrom]
    nv = len(sc.variants[chrom])
    base = 0
    cnt = 0

    def single(i, j, tagname):
        nonlocal cnt
        h = rng.randint(0, 1)
        s, seq, cig = _segment(sc, chrom, [x[h] for x in haps], i, j, rng)
        name = f"{sample}_{chrom}_{tagname}{cnt}"
        cnt += 1
        reads.append(dict(name=name, sample=sample, chrom=chrom, start=s, cigar=cig, seq=seq, qual=30, hap=h, flag=0))
        return name

    def paired(i1, j1, i2, j2, tagname):
        nonlocal cnt
        h = rng.randint(0, 1)
        al = [x[h] for x in haps]
        s1, seq1, cig1 = _segment(sc, chrom, al, i1, j1, rng)
        s2, seq2, cig2 = _segment(sc, chrom, al, i2, j2, rng)
        name = f"{sample}_{chrom}_{tagname}{cnt}"
        cnt += 1
        reads.append(dict(name=name, sample=sample, chrom=chrom, start=s1, cigar=cig1, seq=seq1, qual=30, hap=h,
                          flag=0x1 | 0x2 | 0x40 | 0x20, mate_start=s2))
        reads.append(dict(name=name, sample=sample, chrom=chrom, start=s2, cigar=cig2, seq=seq2, qual=30, hap=h,
                          flag=0x1 | 0x2 | 0x80 | 0x10, mate_start=s1))
        return name

    for jn in junctions:
        layers, bs = jn["layers"], jn["bs"]
        nl = max(layers, 1)                      # blocks on each side of the centre
        width = (2 * nl + 1) * bs
        if base + width > nv:
            break
        left = lambda j: base + (nl - j) * bs    # first variant of L_j (j = 1 innermost)
        centre = base + nl * bs
        right = lambda j: centre + j * bs        # first variant of R_j
        for _ in range(1 + dup):
            single(centre, centre + bs - 1, "M")
        if layers == 0:
            # plain neighbour blocks on both sides
            single(left(1), left(1) + bs - 1, "N")
            single(right(1), right(1) + bs - 1, "N")
        for j in range(1, layers + 1):
            for _ in range(1 + (dup if j == 1 else 0)):
                paired(left(j), left(j) + bs - 1, right(j), right(j) + bs - 1, f"P{j}_")
        if "L" in jn["links"]:
            links.append(single(centre - 1, centre, "X"))
        if "R" in jn["links"]:
            links.append(single(centre + bs - 1, centre + bs, "X"))
        base += width
    return reads, links


def family_samples(spec):
    """sample names of the (first) family, in role order (father, mother, child[, child2] / S1[, S2])"""
    m = role_names(spec)
    return [m[r] for r in base_roles(spec)]


def all_samples(spec):
    m = role_names(spec)
    var = spec.get("var")
    return [m[r] for r in (var["roles"] if var else base_roles(spec))]


def write_bams(sc, reads, wd, spec, rng):
    """BAM writer with several read groups per sample (ids need not be the sample name) and optionally two files."""
    import pysam
    var = spec.get("var") or {}
    samples = all_samples(spec)
    nrg = var.get("rg_per_sample") or [1] * len(samples)
    style = var.get("rg_style", "sample")
    rgs = {}
    k = 0
    for i, smp in enumerate(samples):
        ids = []
        for j in range(nrg[i]):
            if style == "sample" and j == 0:
                ids.append(smp)
            elif style == "collide" and j == 0 and len(samples) > 1:
                ids.append(samples[(i + 1) % len(samples)] + ".rg")      # looks like another sample
            else:
                ids.append(f"rg{k}")
            k += 1
        rgs[smp] = ids
    header = {"HD": {"VN": "1.6", "SO": "coordinate"},
              "SQ": [{"SN": c, "LN": len(sc.ref[c])} for c in sc.chroms],
              "RG": [{"ID": i, "SM": smp} for smp in samples for i in rgs[smp]]}
    opmap = {"M": 0, "I": 1, "D": 2}
    tid = {c: i for i, c in enumerate(sc.chroms)}
    nbam = var.get("nbam", 1)
    names = sorted({r["name"] for r in reads})
    if len(names) < nbam:
        nbam = 1
    file_of = {n: rng.randrange(nbam) for n in names}
    for b in range(nbam):                       # no empty BAM (whatshap refuses a file without reads)
        if b not in file_of.values():
            file_of[names[b]] = b
    if len(set(file_of.values())) < nbam:
        nbam = 1
        file_of = {n: 0 for n in names}
    rg_of = {n: rng.randrange(8) for n in names}
    paths = []
    for b in range(nbam):
        path = os.path.join(wd, f"reads{b}.bam")
        rs = sorted((r for r in reads if file_of[r["name"]] == b), key=lambda r: (tid[r["chrom"]], r["start"]))
        with pysam.AlignmentFile(path, "wb", header=header) as out:
            for r in rs:
                a = pysam.AlignedSegment(out.header)
                a.query_name = r["name"]
                a.query_sequence = r["seq"]
                a.flag = r.get("flag", 0)
                a.reference_id = tid[r["chrom"]]
                a.reference_start = r["start"]
                a.mapping_quality = 60
                a.cigartuples = [(opmap[o], n) for o, n in r["cigar"]]
                a.query_qualities = pysam.qualitystring_to_array(chr(33 + r.get("qual", 30)) * len(r["seq"]))
                if "mate_start" in r:
                    a.next_reference_id = tid[r["chrom"]]
                    a.next_reference_start = r["mate_start"]
                ids = rgs[r["sample"]]
                a.set_tags([("RG", ids[rg_of[r["name"]] % len(ids)])])
                out.write(a)
        pysam.index(path)
        paths.append(path)
    return paths


def build_inputs(spec, wd):
    rng = random.Random(spec["seed"])
    var = spec.get("var") or {}
    roles = list(var.get("roles") or base_roles(spec))
    sc = synth.make_scenario(rng, nchrom=spec["nchrom"], nsamples=len(roles), nvars=spec["nvars"],
                             sample_names=roles, het_fraction=spec["het_fraction"], min_gap=spec["min_gap"],
                             kinds=tuple(spec.get("kinds") or ("snv", "snv", "ins", "del", "mnp")))
    if spec.get("hom_role"):
        # one parent homozygous at a random subset of the variants (everybody else heterozygous there, children by inheritance)
        r = roles[spec["hom_role"]["role"]]
        for c in sc.chroms:
            sc.haps[r][c] = [rng.choice([(0, 0), (1, 1)]) if rng.random() < spec["hom_role"]["fraction"] else h
                             for h in sc.haps[r][c]]
    if spec["trio"]:
        for c in sc.chroms:
            child, _ = synth.inherit(rng, sc.haps["father"][c], sc.haps["mother"][c], recomb_prob=0.0)
            sc.haps["child"][c] = child
            if "child2" in roles:
                child2, _ = synth.inherit(rng, sc.haps["father"][c], sc.haps["mother"][c], recomb_prob=0.0)
                sc.haps["child2"][c] = child2
    # rename the samples (roles -> names) and permute the VCF columns
    m = role_names(spec)
    sc.haps = {m[r]: h for r, h in sc.haps.items()}
    samples = [m[r] for r in roles]
    order = var.get("column_order") or list(range(len(roles)))
    sc.samples = [samples[i] for i in order]
    ref = synth.write_fasta(sc, os.path.join(wd, "ref.fa"))
    prephased = None
    if var.get("prephased"):
        # the input already carries (stale) phasing: one block per chromosome named after its first variant, for one sample
        s0 = samples[0]
        prephased = {s0: {c: {i: sc.variants[c][0].pos + 1 for i in range(len(sc.variants[c]))
                              if sc.genotype(s0, c, i) == (0, 1)} for c in sc.chroms}}
    vcf = synth.write_vcf(sc, os.path.join(wd, "in.vcf"), phased=prephased)
    reads = []
    stacked = spec.get("stacked")
    for si, s in enumerate(samples):
        for c in sc.chroms:
            if si in (spec.get("readless") or []):
                continue                       # genotyped family member without any read
            if si >= len(base_roles(spec)):
                # an extra unrelated sample next to the family: ordinary reads
                reads += synth.simulate_reads(rng, sc, s, c, max(spec["depth_reads"], 30), len_range=tuple(spec["len_range"]),
                                              paired_fraction=spec["paired_fraction"])
                continue
            if spec.get("junctions"):
                rs, _ = junction_reads(rng, sc, s, c, spec["junctions"], spec.get("dup", 0))
                reads += rs
                continue
            if stacked and stacked["counts"][si] is not None:
                nv = len(sc.variants[c])
                nst = min(stacked["nstack"], nv)
                first = max(0, (nv - nst) // 2)
                reads += stacked_reads(rng, sc, s, c, stacked["counts"][si], first, nst, f"{s}_{c}_st")
                continue
            rs = synth.simulate_reads(rng, sc, s, c, spec["depth_reads"], len_range=tuple(spec["len_range"]),
                                      paired_fraction=spec["paired_fraction"],
                                      insert_range=tuple(spec.get("insert_range") or (30, 120)))
            if spec["low_cov_gaps"]:
                # remove every read overlapping one or two random windows: splits the read graph
                L = len(sc.ref[c])
                for _ in range(rng.randint(1, 2)):
                    w = rng.randint(0, L - 1)
                    rs = [r for r in rs if not (r["start"] <= w <= r["start"] + len(r["seq"]) + 10)]
            reads += rs
    bam = write_bams(sc, reads, wd, spec, rng)
    extra_inputs = []
    if spec["phased_input"]:
        # a phased VCF (true haplotypes, two blocks per chromosome) for the first sample as additional phase input
        s0 = samples[len(base_roles(spec)) - 1]
        phased = {s0: {}}
        for c in sc.chroms:
            nv = len(sc.variants[c])
            cut = nv // 2
            d = {}
            for i in range(nv):
                if sc.genotype(s0, c, i) == (0, 1):
                    d[i] = sc.variants[c][0].pos + 1 if i < cut else sc.variants[c][cut].pos + 1
            phased[s0][c] = d
        extra_inputs.append(synth.write_vcf(sc, os.path.join(wd, "phased.vcf"), phased=phased))
    ped = None
    if spec["trio"]:
        trios = [(m["child"], m["father"], m["mother"])]
        if "child2" in roles:
            trios.append((m["child2"], m["father"], m["mother"]))
        ped = synth.write_ped(os.path.join(wd, "trio.ped"), trios)
    return sc, ref, vcf, bam, extra_inputs, ped


def run_phase(ctx, spec, wd, timeout=600):
    """Returns dict(rc, stderr, args, trace=[records], calls, readlist, sc)."""
    os.makedirs(wd, exist_ok=True)
    sc, ref, vcf, bam, extra_inputs, ped = build_inputs(spec, wd)
    out = os.path.join(wd, "out.vcf")
    trace = os.path.join(wd, "trace.jsonl")
    rl = os.path.join(wd, "readlist.tsv")
    for p in (out, trace, rl):
        if os.path.exists(p):
            os.unlink(p)
    var = spec.get("var") or {}
    args = ["phase", "-o", out, "--tag", spec["tag"], "--output-read-list", rl]
    args += ["--no-reference"] if var.get("no_reference") else ["--reference", ref]
    if not var.get("default_k"):
        args += ["--internal-downsampling", spec["k"]]
    if var.get("merge_reads"):
        args += ["--merge-reads"]
    if var.get("only_snvs"):
        args += ["--only-snvs"]
    if var.get("ignore_rg"):
        args += ["--ignore-read-groups"]
    if var.get("sample_subset"):
        args += ["--sample", all_samples(spec)[0]]
    if var.get("chrom_subset"):
        args += ["--chromosome", sc.chroms[-1]]
    if ped:
        args += ["--ped", ped]
        if not spec["genetic"]:
            args += ["--no-genetic-haplotyping"]
    if spec["distrust"]:
        args += ["--distrust-genotypes"]
        if var.get("include_homozygous"):
            args += ["--include-homozygous"]
    args += [vcf] + list(bam) + extra_inputs
    rc, so, se = run_cli(ctx, args, cwd=wd, env_extra={"WHATSHAP_VERIF_TRACE": trace}, timeout=timeout)
    res = {"rc": rc, "stderr": se, "args": [str(a) for a in args], "trace": [], "calls": {}, "readlist": [], "sc": sc}
    if rc != 0:
        return res
    if os.path.exists(trace):
        with open(trace) as f:
            res["trace"] = [json.loads(line) for line in f if line.strip()]
    res["calls"] = parse_vcf_calls(out)
    if os.path.exists(rl):
        res["readlist"] = parse_readlist(rl)
    return res


def parse_vcf_calls(path):
    """{(chrom, pos0, sample): dict(gt=str, phased=bool, PS=int|None, HP=[(block, hap)]|None)}"""
    calls = {}
    samples = []
    with open(path) as f:
        for line in f:
            if line.startswith("##"):
                continue
            cols = line.rstrip("\n").split("\t")
            if line.startswith("#"):
                samples = cols[9:]
                continue
            chrom, pos1, fmt = cols[0], int(cols[1]), cols[8].split(":")
            for s, txt in zip(samples, cols[9:]):
                vals = dict(zip(fmt, txt.split(":")))
                gt = vals.get("GT", ".")
                ps = vals.get("PS")
                hp = vals.get("HP")
                d = {"gt": gt, "phased": "|" in gt,
                     "PS": int(ps) if ps not in (None, ".", "") else None, "HP": None}
                if hp not in (None, ".", ""):
                    d["HP"] = [tuple(int(x) for x in e.split("-")) for e in hp.split(",")]
                calls[(chrom, pos1 - 1, s)] = d
    return calls


def parse_readlist(path):
    out = []
    with open(path) as f:
        for line in f:
            if line.startswith("#"):
                continue
            name, source_id, sample, phaseset, hap, ncov, first1, last1 = line.rstrip("\n").split("\t")
            out.append(dict(name=name, source_id=int(source_id), sample=sample, phaseset=int(phaseset),
                            first0=int(first1) - 1, last0=int(last1) - 1, n=int(ncov)))
    return out
