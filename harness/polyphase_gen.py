"""C15 helpers: generators of direct-call inputs for the polyphase steps, matrix-level polyploid instances,
tracing wrappers around the real step functions, and drivers of the real code.

Everything random comes from the rng handed in. The real implementation is imported lazily from the scratch
build (first on sys.path once the framework activated it)."""
import copy
import itertools
import math


# ------------------------------------------------------------------------------------------- small utils
def transpose(rows, n=None):
    """k rows of n entries -> n columns of k entries"""
    if not rows:
        return []
    n = len(rows[0]) if n is None else n
    return [[r[p] for r in rows] for p in range(n)]


def geno_vector(g):
    """dict allele -> multiplicity  ->  sorted allele vector"""
    out = []
    for a in sorted(g):
        out += [a] * g[a]
    return out


def geno_dict(vec):
    d = {}
    for a in vec:
        d[a] = d.get(a, 0) + 1
    return d


def same_mset(a, b):
    return sorted(a) == sorted(b)


def conforms(g, col):
    return -1 in col or same_mset(g, col)


# ------------------------------------------------------------------------- stream A: force_genotypes inputs
def gen_force_case(rng, deep=False):
    """random threads/haplotypes/genotypes/cluster depths for threading.force_genotypes.
    Genotypes always have ploidy many alleles (the precondition). deep=True adds clusters with hundreds to
    thousands of reads (uneven coverage)."""
    k = rng.choice([2, 3, 3, 4, 4, 5, 6])
    n = rng.randint(1, 5)
    nall = rng.choice([2, 2, 3, 4])
    nclust = rng.randint(1, k + 2)
    path, haps, genos, cov, depths = [], [[] for _ in range(k)], [], [], []
    for pos in range(n):
        used = [rng.randrange(nclust) for _ in range(k)]
        if rng.random() < 0.4:
            used = sorted(used)
        path.append(used)
        mode = rng.random()
        truth = [rng.randrange(nall) for _ in range(k)]
        if mode < 0.25:
            g = list(truth)                                        # already conforming
            col = list(truth)
            rng.shuffle(col)
        elif mode < 0.85:
            g = [rng.randrange(nall) for _ in range(k)]            # unrelated genotype: forcing needed
            col = list(truth)
        else:
            g = [rng.randrange(nall) for _ in range(k)]
            col = list(truth)
            col[rng.randrange(k)] = -1                             # undetermined allele: position skipped
        if rng.random() < 0.1:
            g = [rng.randrange(nall + 2) for _ in range(k)]        # allele never seen in the reads
        for h in range(k):
            haps[h].append(col[h])
        genos.append(geno_dict(g))
        clusters = sorted(set(used) | ({rng.randrange(nclust)} if rng.random() < 0.3 else set()))
        cov.append(clusters)
        d = {}
        for c in clusters:
            if rng.random() < 0.1:
                d[c] = {}                                          # re-added cluster without reads
                continue
            dd = {}
            for a in range(nall):
                if rng.random() < 0.7:
                    if deep and rng.random() < 0.6:
                        dd[a] = rng.choice([60, 250, 300, 600, 1100, 2500])
                    else:
                        dd[a] = rng.randint(1, 30)
            if deep and rng.random() < 0.5:
                # what the threaded alleles of this cluster look like in the reads: only them, deep
                mine = {col[h] for h in range(k) if used[h] == c and col[h] >= 0}
                dd = {a: rng.choice([250, 400, 1100, 2400]) for a in mine} or dd
            d[c] = dd
        depths.append(d)
    return dict(k=k, path=path, haps=haps, genos=genos, cov=cov, depths=depths, err=0.05)


def gen_force_exhaustive(kmax):
    """every (sorted genotype vector over alleles 0..2, configuration over -1..2) for ploidy 2..kmax at one position,
    haplotype i threaded through cluster i % 2, fixed shallow cluster depths"""
    for k in range(2, kmax + 1):
        genos = [g for g in itertools.combinations_with_replacement(range(3), k)]
        for g in genos:
            for cfg in itertools.product([-1, 0, 1, 2], repeat=k):
                yield dict(k=k, path=[[i % 2 for i in range(k)]], haps=[[a] for a in cfg], genos=[geno_dict(g)],
                           cov=[[0, 1]], depths=[{0: {0: 5, 1: 3}, 1: {1: 4, 2: 2}}], err=0.05)


def run_force(case):
    """call the real force_genotypes; returns resulting haplotypes (rows) or ('error', class)"""
    from whatshap.polyphase.threading import force_genotypes
    path = copy.deepcopy(case["path"])
    haps = copy.deepcopy(case["haps"])
    genos = [dict((int(a), m) for a, m in g.items()) for g in case["genos"]]
    depths = [{int(c): {int(a): m for a, m in d.items()} for c, d in dd.items()} for dd in case["depths"]]
    try:
        out = force_genotypes(path, haps, genos, copy.deepcopy(case["cov"]), depths, case["err"])
    except Exception as e:  # noqa
        return ("error", type(e).__name__)
    return [list(map(int, h)) for h in out]


def force_all_candidates_zero(case, pos):
    """classification only: True if every candidate configuration at `pos` has log-likelihood -inf under the
    code's own formula (scipy binom.pmf underflow) - the situation in which the code keeps the given alleles."""
    from scipy.stats import binom
    path, haps = case["path"], case["haps"]
    g = {int(a): m for a, m in case["genos"][pos].items()}
    given = [haps[h][pos] for h in range(len(haps))]
    if -1 in given:
        return False
    alleles = set(g) | set(given)
    present = {a: given.count(a) for a in alleles}
    ins, aff = [], []
    for a in alleles:
        diff = present[a] - g.get(a, 0)
        if diff > 0:
            ins += [a] * g.get(a, 0)
            aff += [p for p in range(len(given)) if given[p] == a]
        elif diff < 0:
            ins += [a] * (-diff)
    aff.sort()
    if not aff:
        return False
    depths = {int(c): {int(a): m for a, m in d.items()} for c, d in case["depths"][pos].items()}
    for perm in set(itertools.permutations(sorted(ins))):
        cfg = given[:]
        for i, a in enumerate(perm):
            cfg[aff[i]] = a
        ll = 0.0
        for clust in case["cov"][pos]:
            slots = [s for s in range(len(given)) if path[pos][s] == clust]
            if not slots:
                continue
            total = sum(depths[clust].values())
            for a in alleles:
                m = sum(1 for s in slots if cfg[s] == a) / len(slots)
                m = m * (1 - case["err"]) + (1 - m) * case["err"]
                pr = binom.pmf(depths[clust].get(a, 0), total, m)
                ll += math.log(pr) if pr > 0 else -float("inf")
        if ll > -float("inf"):
            return False
    return True


# -------------------------------------------------------- stream B/C: assignments and permute_blocks inputs
def gen_breakpoints(rng, k, n, maxb=5):
    """sorted distinct positions in 1..n-1 with >= 2 affected haplotypes each"""
    if n < 2:
        return []
    nb = rng.randint(0, min(maxb, n - 1))
    pos = sorted(rng.sample(range(1, n), nb))
    return [(p, sorted(rng.sample(range(k), rng.randint(2, k)))) for p in pos]


def gen_lllh(rng, bps, ties=False):
    out = []
    for _, aff in bps:
        d = {}
        for perm in itertools.permutations(aff):
            d[perm] = float(-rng.randint(0, 3)) if ties else -rng.random() * 20
        out.append(d)
    return out


def gen_assign_case(rng):
    k = rng.choice([2, 3, 3, 4, 4, 5, 6])
    n = rng.randint(2, 12)
    bps = gen_breakpoints(rng, k, n)
    ll = gen_lllh(rng, bps, ties=rng.random() < 0.3)
    return dict(k=k, n=n, bps=bps, lllh=[[(list(p), v) for p, v in d.items()] for d in ll])


def _mk_bps(bps):
    from whatshap.polyphase import PhaseBreakpoint
    return [PhaseBreakpoint(p, list(h), 0.0) for p, h in bps]


def _mk_lllh(l):
    return [{tuple(p): v for p, v in d} for d in l]


def run_assign(case, aff=None):
    from whatshap.polyphase.reorder import get_optimal_assignments
    try:
        return [list(map(int, a)) for a in get_optimal_assignments(_mk_bps(case["bps"]), _mk_lllh(case["lllh"]),
                                                                  case["k"], aff)]
    except Exception as e:  # noqa
        return ("error", type(e).__name__)


def gen_affiliations(rng, k, nblocks):
    return [[[-rng.random() * 10 for _ in range(k)] for _ in range(k)] for _ in range(nblocks)]


def gen_permute_case(rng):
    c = gen_assign_case(rng)
    k, n = c["k"], c["n"]
    nall = rng.choice([2, 3, 4])
    c["haps"] = [[rng.choice([-1] + list(range(nall)) * 3) for _ in range(n)] for _ in range(k)]
    c["threads"] = [[rng.randrange(k + 2) for _ in range(k)] for _ in range(n)]
    perms = []
    for _ in range(len(c["bps"]) + 1):
        p = list(range(k))
        if rng.random() < 0.8:
            rng.shuffle(p)
        perms.append(p)
    c["perms"] = perms
    return c


def run_permute(case):
    from whatshap.polyphase.reorder import permute_blocks
    threads = copy.deepcopy(case["threads"])
    haps = copy.deepcopy(case["haps"])
    try:
        permute_blocks(threads, haps, _mk_bps(case["bps"]), _mk_lllh(case["lllh"]), copy.deepcopy(case["perms"]))
    except Exception as e:  # noqa
        return ("error", type(e).__name__)
    return haps


# ------------------------------------------------- stream D: aggregate_results and compute_cut_positions
def gen_aggregate_case(rng):
    k = rng.choice([2, 3, 4, 5, 6])
    nb = rng.randint(1, 5)
    nall = rng.choice([2, 3])
    blocks = []
    off = 0
    starts = []
    for _ in range(nb):
        n = rng.choice([1, 1, 2, 3, 5, 8])
        haps = [[rng.choice([-1] + list(range(nall)) * 4) for _ in range(n)] for _ in range(k)]
        # block-internal breakpoints: sorted distinct local positions (0 possible: a sub-instance starting at
        # the first variant), confidence 0.0 or in (0, 1]
        pos = sorted(rng.sample(range(0, n), rng.randint(0, min(n, 3)))) if n > 1 else []
        bps = [(p, sorted(rng.sample(range(k), rng.randint(2, k))),
                0.0 if rng.random() < 0.3 else rng.choice([1.0, 0.999, 0.9901, 0.99, 0.9899, 0.9, 0.6, 0.5001, 0.5, 0.4999, 0.3, 0.01, 1e-9, rng.random()]))
               for p in pos]
        blocks.append(dict(haps=haps, bps=bps))
        starts.append(off)
        off += n
    borders = None
    if rng.random() < 0.35:
        borders = sorted(s for s in starts if rng.random() < 0.5)
    return dict(k=k, blocks=blocks, borders=borders, sens=rng.randrange(6))


def run_aggregate(case):
    from whatshap.polyphase import PolyphaseBlockResult, PhaseBreakpoint
    from whatshap.polyphase.algorithm import aggregate_results, compute_cut_positions
    k = case["k"]
    rs = []
    for i, b in enumerate(case["blocks"]):
        rs.append(PolyphaseBlockResult(i, [], [], copy.deepcopy(b["haps"]),
                                       [PhaseBreakpoint(p, list(h), c) for p, h, c in b["bps"]]))
    borders = set(case["borders"]) if case["borders"] is not None else []
    res = aggregate_results(rs, k, borders)
    bps = [(int(b.position), list(b.haplotypes), float(b.confidence)) for b in res.breakpoints]
    cuts, hap_cuts = compute_cut_positions(res.breakpoints, k, case["sens"])
    return dict(haps=[list(h) for h in res.haplotypes], bps=bps, cuts=list(cuts))


def gen_cuts_case(rng):
    """free-standing breakpoint lists (also unsorted / not starting at 0: the model must agree, the spec is only
    demanded under the theorem's hypotheses)"""
    k = rng.choice([2, 3, 4, 5, 6])
    n = rng.randint(1, 12)
    m = rng.randint(0, 8)
    pos = sorted(rng.randrange(n) for _ in range(m))
    wellformed = rng.random() < 0.8
    if wellformed:
        pos = [0] + pos
    elif rng.random() < 0.5:
        rng.shuffle(pos)
    bps = []
    for i, p in enumerate(pos):
        conf = 0.0 if (i == 0 and wellformed) or rng.random() < 0.3 else \
            rng.choice([1.0, 0.999, 0.9901, 0.99, 0.9899, 0.95, 0.7, 0.5001, 0.5, 0.4999, 0.4, 0.1, 1e-5, 1e-300, rng.random()])
        bps.append((p, sorted(rng.sample(range(k), rng.randint(2, k))), conf))
    return dict(k=k, bps=bps, sens=rng.randrange(6), wellformed=wellformed)


def run_cuts(case):
    from whatshap.polyphase import PhaseBreakpoint
    from whatshap.polyphase.algorithm import compute_cut_positions
    cuts, _ = compute_cut_positions([PhaseBreakpoint(p, list(h), c) for p, h, c in case["bps"]], case["k"], case["sens"])
    return list(cuts)


# ------------------------------------------------------------------------ matrix-level polyploid instances
def gen_matrix_instance(rng, k=None, nvars=None, nreads=None, deep=False, adjacent_split=False):
    """A single-sample instance at the level of phase_single_individual: variant positions, true haplotypes (with
    collapsed regions), VCF genotypes (truth, sometimes with a wrong dosage or a wrong allele), and reads as lists
    of (position, allele) with uneven haplotype coverage, cold regions and allele errors."""
    k = k or rng.choice([2, 3, 3, 4, 4, 5, 6])
    nvars = nvars or rng.randint(2, 14)
    if adjacent_split:
        nvars = max(nvars, 4)
    nreads = nreads or rng.randint(3, 12) * k
    # adjacent_split: two variants on directly neighbouring positions p, p+1 (indices junction-1, junction) and no
    # read that covers both sides of the junction: the solver must start a new block exactly between them
    junction = rng.randint(2, nvars - 2) if adjacent_split else None
    positions = []
    p = rng.randint(5, 50)
    for i in range(nvars):
        positions.append(p)
        if junction is not None and i + 1 == junction:
            p += 1
        else:
            p += 1 if rng.random() < 0.15 else rng.randint(2, 60)  # adjacent positions occur
    nall = [rng.choice([2, 2, 2, 3, 4]) for _ in range(nvars)]
    cols = []
    for i in range(nvars):
        while True:
            col = [rng.randrange(nall[i]) for _ in range(k)]
            if len(set(col)) > 1:
                break
        cols.append(col)
    if rng.random() < 0.5:                                         # collapsed haplotypes
        for _ in range(rng.choice([1, 1, 2])):
            i, j = rng.sample(range(k), 2)
            a = 0 if rng.random() < 0.4 else rng.randrange(nvars)
            b = nvars if rng.random() < 0.4 else rng.randint(a + 1, nvars)
            for q in range(a, b):
                cols[q][j] = cols[q][i]
    genos = []
    for i in range(nvars):
        g = sorted(cols[i])
        r = rng.random()
        if r < 0.2:                                                # wrong dosage
            g[rng.randrange(k)] = rng.randrange(nall[i])
        elif r < 0.27:                                             # allele the reads never show
            g[rng.randrange(k)] = nall[i]
            nall[i] += 1
        if len(set(g)) < 2:                                        # must stay heterozygous (phasable table)
            g[0] = (g[1] + 1) % max(2, nall[i])
            if g[0] == g[1]:
                g[0] = 1 - g[1]
        genos.append(sorted(g))
    weights = [rng.choice([1, 1, 2, 4]) for _ in range(k)] if rng.random() < 0.6 else [1] * k
    err = rng.choice([0.0, 0.0, 0.02, 0.08])
    cold = None
    if nvars > 4 and rng.random() < 0.4:
        a = rng.randrange(1, nvars - 1)
        cold = (a, a + 1)                                          # reads rarely span this junction
    if junction is not None:
        cold = (junction - 1, junction)
        err = 0.0
    reads = []
    tries = 0
    while len(reads) < nreads and tries < 20 * nreads:
        tries += 1
        h = rng.choices(range(k), weights=weights)[0]
        a = rng.randrange(nvars)
        b = min(nvars, a + rng.randint(2, max(2, min(nvars, 6))))
        if cold and a < cold[1] <= b - 1 and (junction is not None or rng.random() < 0.9):
            continue
        idx = [q for q in range(a, b) if rng.random() < 0.92]
        if len(idx) < 2:
            continue
        rd = []
        for q in idx:
            al = cols[q][h]
            if rng.random() < err:
                al = rng.randrange(max(2, nall[q]))
            rd.append((positions[q], al))
        reads.append(rd)
    if junction is not None:
        for h in range(k):                                         # both neighbours are covered on their side
            reads.append([(positions[junction - 2], cols[junction - 2][h]), (positions[junction - 1], cols[junction - 1][h])])
            reads.append([(positions[junction], cols[junction][h]), (positions[junction + 1], cols[junction + 1][h])])
    if deep:
        # one deep pile-up: many copies of reads covering a site whose VCF genotype misses the alleles they show
        q = rng.randrange(nvars - 1)
        absent = nall[q]
        genos[q] = sorted([absent] * (k - 1) + [absent + 1])
        for n in range(k * rng.choice([270, 300])):
            h = n % k
            reads.append([(positions[q], cols[q][h]), (positions[q + 1], cols[q + 1][h])])
    nalt = [max([nall[i] - 1, 1] + list(genos[i])) for i in range(nvars)]      # ALT alleles the VCF record must list
    return dict(k=k, positions=positions, cols=cols, genos=genos, reads=reads, nalt=nalt,
                sens=rng.randint(1, 5) if junction is not None else rng.randrange(6), prephase=None, junction=junction)


def add_prephasing(rng, inst):
    """phase blocks over index intervals of the variants: the true haplotype order (sometimes permuted / with an
    error), as VariantCallPhase data of the variant table"""
    n = len(inst["positions"])
    k = inst["k"]
    blocks = []
    i = 0
    while i < n:
        ln = rng.randint(2, max(2, n))
        j = min(n, i + ln)
        if j - i >= 2 and rng.random() < 0.8:
            order = list(range(k))
            rng.shuffle(order)
            blocks.append((i, j, order))
        i = j + (1 if rng.random() < 0.3 else 0)
    ph = [None] * n
    for a, b, order in blocks:
        for q in range(a, b):
            if rng.random() < 0.15:
                continue
            col = list(inst["genos"][q])
            truth = inst["cols"][q]
            # use the true order if the VCF genotype equals the truth, else some order of the VCF genotype
            if sorted(truth) == sorted(col):
                col = [truth[o] for o in order]
            else:
                rng.shuffle(col)
            ph[q] = (inst["positions"][a] + 1, col)
    inst["prephase"] = ph
    return inst


def build_inputs(inst, sample="S"):
    """real ReadSet and VariantTable (phasable table: all variants heterozygous) for the instance"""
    from whatshap.core import Read, ReadSet, Genotype
    from whatshap.vcf import VariantTable, MultiallelicVcfVariant, VariantCallPhase
    rs = ReadSet()
    for i, rd in enumerate(inst["reads"]):
        r = Read(f"r{i}", 60, 0, 0)
        for pos, al in rd:
            r.add_variant(pos, al, 30)
        rs.add(r)
    rs.sort()
    vt = VariantTable("chrA", [sample])
    for q, pos in enumerate(inst["positions"]):
        na = inst["nalt"][q]
        var = MultiallelicVcfVariant(pos, "A", ["C", "G", "T", "AA", "AC", "AG", "AT", "CA", "CC"][:na])
        ph = None
        if inst.get("prephase") and inst["prephase"][q] is not None:
            ph = VariantCallPhase(inst["prephase"][q][0], tuple(inst["prephase"][q][1]), None)
        vt.add_variant(var, [Genotype(list(inst["genos"][q]))], [ph], [None], [None])
    return rs, vt


class Tracer:
    """records inputs/outputs of the real step functions while the real pipeline runs (module attributes are
    wrapped in this process only; /repo is untouched)"""

    def __init__(self):
        self.ev = []
        self._saved = []

    def _wrap(self, mod, name, before, after):
        orig = getattr(mod, name)
        tr = self

        def wrapper(*a, **kw):
            st = before(*a, **kw)
            out = orig(*a, **kw)
            tr.ev.append(after(st, out, *a, **kw))
            return out
        self._saved.append((mod, name, orig))
        setattr(mod, name, wrapper)

    def __enter__(self):
        import whatshap.polyphase.threading as T
        import whatshap.polyphase.reorder as R
        import whatshap.polyphase.algorithm as A
        import whatshap.cli.polyphase as C

        def f_before(path, haplotypes, genotypes, cov_map, allele_depths, error_rate):
            return dict(path=copy.deepcopy(path), haps=copy.deepcopy(haplotypes),
                        genos=[dict(g) for g in genotypes], cov=copy.deepcopy(cov_map),
                        depths=copy.deepcopy(allele_depths), err=error_rate, k=len(haplotypes))

        def f_after(st, out, *a, **kw):
            st["kind"] = "force"
            st["out"] = copy.deepcopy(out)
            return st
        self._wrap(T, "force_genotypes", f_before, f_after)

        def a_before(breakpoints, lllh, ploidy, affiliations):
            return dict(k=ploidy, bps=[(b.position, list(b.haplotypes)) for b in breakpoints],
                        ilp=bool(affiliations))

        def a_after(st, out, *a, **kw):
            st["kind"] = "assign"
            st["out"] = [list(map(int, x)) for x in out]
            return st
        self._wrap(R, "get_optimal_assignments", a_before, a_after)

        def p_before(threads, haplotypes, breakpoints, lllh, perms):
            return dict(k=len(haplotypes), haps=copy.deepcopy(haplotypes), bps=[b.position for b in breakpoints],
                        perms=[list(map(int, p)) for p in perms])

        def p_after(st, out, threads, haplotypes, *a, **kw):
            st["kind"] = "permute"
            st["out"] = copy.deepcopy(haplotypes)
            return st
        self._wrap(R, "permute_blocks", p_before, p_after)

        def i_before(allele_matrix, sub_instances, sub_results, threads, haplotypes):
            subs = []
            for (cid, thread_set, subm), res in zip(sub_instances, sub_results):
                snps = [allele_matrix.globalToLocal(g) for g in subm.getPositions()]
                subs.append(dict(threads=list(thread_set), snps=snps,
                                 cols=transpose([list(h) for h in res.haplotypes], len(snps))))
            return dict(k=len(haplotypes), n=allele_matrix.getNumPositions(), haps=copy.deepcopy(haplotypes), subs=subs)

        def i_after(st, out, allele_matrix, sub_instances, sub_results, threads, haplotypes):
            st["kind"] = "integrate"
            st["out"] = copy.deepcopy(haplotypes)
            st["bps"] = [(b.position, list(b.haplotypes), b.confidence) for b in out]
            return st
        self._wrap(A, "integrate_sub_results", i_before, i_after)

        def g_before(results, ploidy, borders):
            return dict(k=ploidy, borders=(sorted(borders) if borders else None),
                        blocks=[dict(haps=copy.deepcopy(r.haplotypes),
                                     bps=[(b.position, list(b.haplotypes), b.confidence) for b in r.breakpoints])
                                for r in results])

        def g_after(st, out, *a, **kw):
            st["kind"] = "aggregate"
            st["out_haps"] = copy.deepcopy(out.haplotypes)
            st["out_bps"] = [(b.position, list(b.haplotypes), b.confidence) for b in out.breakpoints]
            return st
        self._wrap(A, "aggregate_results", g_before, g_after)

        def c_before(breakpoints, ploidy, sens):
            return dict(k=ploidy, sens=sens, bps=[(b.position, list(b.haplotypes), b.confidence) for b in breakpoints])

        def c_after(st, out, *a, **kw):
            st["kind"] = "cuts"
            st["cuts"] = list(out[0])
            return st
        self._wrap(C, "compute_cut_positions", c_before, c_after)

        def s_before(allele_matrix, genotype_list, param, timers, prephasing=None, quiet=False):
            return dict(genos=[dict(g) for g in genotype_list], k=param.ploidy)

        def s_after(st, out, *a, **kw):
            st["kind"] = "solve_top"
            st["haps"] = copy.deepcopy(out.haplotypes)
            return st
        self._wrap(C, "solve_polyphase_instance", s_before, s_after)
        return self

    def __exit__(self, *exc):
        for mod, name, orig in reversed(self._saved):
            setattr(mod, name, orig)
        self._saved = []
        return False


def run_individual(inst, stub=None):
    """run the real phase_single_individual on the instance under the tracer. stub = (haplotype rows, breakpoints
    [(pos, haps, conf)]) replaces the solver by generated output (drives the component construction with
    generated breakpoints). Returns (events, components dict, superreads {pos: column}, accessible positions)."""
    from whatshap.polyphase import PolyphaseParameter, PolyphaseResult, PhaseBreakpoint
    from whatshap.timer import StageTimer
    import whatshap.cli.polyphase as C
    rs, vt = build_inputs(inst)
    vt.subset_rows_by_position(rs.get_positions())
    k = inst["k"]
    param = PolyphaseParameter(ploidy=k, ce_bundle_edges=False, distrust_genotypes=False, min_overlap=2,
                               block_cut_sensitivity=inst["sens"], plot_clusters=False, plot_threading=False,
                               threads=1, use_prephasing=inst.get("prephase") is not None)
    saved = C.solve_polyphase_instance
    if stub is not None:
        rows, bps = stub

        def fake(allele_matrix, genotype_list, param, timers, prephasing=None, quiet=False):
            return PolyphaseResult([], [], copy.deepcopy(rows), [PhaseBreakpoint(p, list(h), c) for p, h, c in bps])
        C.solve_polyphase_instance = fake
    try:
        with Tracer() as tr:
            comps, hcomps, superreads = C.phase_single_individual(rs, vt, "S", param, None, StageTimer())
    finally:
        C.solve_polyphase_instance = saved
    acc = sorted(rs.get_positions())
    sr = {}
    for variants in zip(*superreads):
        sr[variants[0].position] = [v.allele for v in variants]
    return tr.ev, dict(comps), sr, acc, superreads


def adjacent_pairs(acc):
    """indices i with acc[i] + 1 == acc[i+1]"""
    return [i for i in range(len(acc) - 1) if acc[i] + 1 == acc[i + 1]]


def gen_stub_result(rng, inst, plant_adjacent_cut=False):
    """generated solver output for the instance's accessible positions: columns (conforming, some with -1) and a
    sorted breakpoint list starting with (0, all, 0.0)"""
    k = inst["k"]
    acc = sorted({p for rd in inst["reads"] for p, _ in rd})
    gmap = dict(zip(inst["positions"], inst["genos"]))
    n = len(acc)
    cols = []
    for p in acc:
        col = list(gmap[p])
        rng.shuffle(col)
        if rng.random() < 0.15:
            col[rng.randrange(k)] = -1
        cols.append(col)
    pos = sorted(rng.randrange(n) for _ in range(rng.randint(0, 6)))
    sure = set()
    if plant_adjacent_cut:
        # a certain cut (confidence 0.0) exactly between two variants on neighbouring positions, both of them phased
        for i in adjacent_pairs(acc):
            if rng.random() < 0.8:
                sure.add(i + 1)
                for q in (i, i + 1):
                    col = list(gmap[acc[q]])
                    rng.shuffle(col)
                    cols[q] = col
        pos = sorted(set(pos) | sure)
    rows = [[cols[p][h] for p in range(n)] for h in range(k)]
    bps = [(0, list(range(k)), 0.0)]
    for p in pos:
        conf = 0.0 if (p in sure or rng.random() < 0.35) else rng.choice([1.0, 0.9901, 0.99, 0.9899, 0.8, 0.5001, 0.5, 0.4999, 0.45, 0.1, 1e-6])
        bps.append((p, sorted(rng.sample(range(k), rng.randint(2, k))), conf))
    return rows, bps


def write_instance_vcf(inst, path, extra_hom=True):
    """VCF text for the instance (sample S): the heterozygous variants plus, between them, homozygous and
    uncovered records, so that the writer has something to skip. Returns list of (pos0, in_gt list, in_ps)."""
    k = inst["k"]
    lines = ["##fileformat=VCFv4.2", "##contig=<ID=chrA,length=100000>",
             '##FORMAT=<ID=GT,Number=1,Type=String,Description="Genotype">',
             '##FORMAT=<ID=PS,Number=1,Type=Integer,Description="Phase set">',
             "#CHROM\tPOS\tID\tREF\tALT\tQUAL\tFILTER\tINFO\tFORMAT\tS"]
    recs = []
    used = set(inst["positions"])
    allpos = list(inst["positions"])
    if extra_hom:
        for p in list(inst["positions"]):
            q = p + 1
            if q not in used and (q + 1) not in used and p % 3 != 1:
                allpos.append(q)
                used.add(q)
    allpos.sort()
    gmap = dict(zip(inst["positions"], inst["genos"]))
    amap = dict(zip(inst["positions"], inst["nalt"]))
    pmap = dict(zip(inst["positions"], inst.get("prephase") or [None] * len(inst["positions"])))
    for p in allpos:
        alts = ["C", "G", "T", "AA", "AC", "AG", "AT", "CA", "CC"]
        if p in gmap:
            g = gmap[p]
            na = amap[p]
            if pmap.get(p):
                call = "|".join(map(str, pmap[p][1])) + f":{pmap[p][0]}"
            else:
                call = "/".join(map(str, g)) + ":."
        else:
            # records between the phasable variants: homozygous, missing, or partially missing (listed unsorted)
            kind = p % 4
            if kind <= 1:
                g = [p % 2] * k
            elif kind == 2:
                g = [-1] * k
            else:
                g = [1, -1] + [0] * (k - 2)
            na = 1
            call = "/".join("." if a < 0 else str(a) for a in g) + ":."
        lines.append(f"chrA\t{p + 1}\t.\tA\t{','.join(alts[:na])}\t.\tPASS\t.\tGT:PS\t{call}")
        recs.append((p, list(g), pmap[p][0] if (p in gmap and pmap.get(p)) else None))
    with open(path, "w") as f:
        f.write("\n".join(lines) + "\n")
    return recs


def run_writer(in_path, out_path, superreads, comps, k):
    from whatshap.vcf import PhasedVcfWriter
    with PhasedVcfWriter(command_line=None, in_path=in_path, out_file=out_path, tag="PS", ploidy=k, mav=True) as w:
        w.write("chrA", {"S": superreads}, {"S": comps})
