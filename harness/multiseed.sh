#!/bin/bash
# usage: harness/multiseed.sh "<seeds>" [tier] [jobs] -- runs every check once per seed
tier=${2:-quick}; jobs=${3:-4}
cd "$(dirname "$0")/.."
for seed in $1; do bash harness/sweep.sh "$tier" "$seed" "$jobs"; done
