"""Abstract VCF records (DESIGN.md 5.5 / coq/model/VcfRecord.v): parse real VCF files into them with
pysam (the trusted parser), render them as Coq terms, and write small VCF text files.

The abstraction keeps exactly what the models of the phased-VCF writer and of the phase decoders look
at, and keeps everything else as *opaque tokens* = the raw column / field text of the file, so that an
equality of abstract records evaluated in Coq is a raw-text equality of all untouched columns.

    f = parse_vcf(path)                 # AbsVcf: .header (AbsHeader), .samples, .records [AbsRecord],
                                        #         .nul_bytes (count of NUL bytes found -- and replaced -- in the file)
    it = Interner()                     # text -> integer tokens (shared by everything put in one Coq case)
    rec_term(r, it)                     # Coq term of type VcfRecord.vrec
    recs_term(f.records, it)            # Coq list
    header_term(f.header, it)           # Coq term of type VcfRecord.header
    body_use(f)                         # what missing_headers() sees in the body (contigs, FORMATs, INFOs)
    end_declared(f); cfg_term(tag, only_snvs, mav, end_decl); target_term(i, superreads, components)
    VcfText(samples, header_lines).add(...).write(path)   # small writer for generated inputs

Per-sample call (AbsCall):
    gt      None if FORMAT has no GT key, else tuple of allele numbers / None for '.'   (pysam call["GT"])
    phased  pysam's call.phased
    ps      int, or ("text", raw) for a non-integral value of a PS not declared Integer (rendered as a negative
            sentinel token), or None ('.' or no PS key)                                   (call.get("PS"))
    pq      raw text of the PQ field or None
    hp      None if FORMAT has no HP key, else tuple of items ("num", b, h) | "dot" | "none" | "bad",
            mirroring what pysam returns: 'b-h' strings, '.', python None
    other   [(key, raw value text)] for all other FORMAT keys whose value is not missing, in FORMAT order
A missing value is '.', the empty string, or a field cut off at the end of the sample column.
"""
import re

RESERVED = {"END": 0, "phasing": 1, "commandline": 2, "PASS": 3, "PS": 4, "HP": 5, "GT": 6, "PQ": 7}
PHASE_KEYS = ("GT", "PS", "HP", "PQ")


class Interner:
    """Maps strings to small integers (Coq `token`s). Reserved words get the fixed numbers the Coq
    model refers to (K_END = 0, K_phasing = 1, K_commandline = 2, F_PASS = 3, F_PS = 4, F_HP = 5)."""

    def __init__(self):
        self.ids = dict(RESERVED)
        self.names = {v: k for k, v in RESERVED.items()}

    def __call__(self, s):
        s = str(s)
        t = self.ids.get(s)
        if t is None:
            t = len(self.ids) + 10
            self.ids[s] = t
            self.names[t] = s
        return t


class AbsCall:
    __slots__ = ("gt", "phased", "ps", "pq", "hp", "other")

    def __init__(self, gt, phased, ps, pq, hp, other):
        self.gt, self.phased, self.ps, self.pq, self.hp, self.other = gt, phased, ps, pq, hp, other

    def key(self):
        return (self.gt, self.phased, self.ps, self.pq, self.hp, tuple(self.other))

    def __repr__(self):
        return f"AbsCall(gt={self.gt}, phased={self.phased}, ps={self.ps}, pq={self.pq}, hp={self.hp}, other={self.other})"

    def to_json(self):
        return {"gt": self.gt, "phased": self.phased, "ps": self.ps, "pq": self.pq, "hp": self.hp, "other": self.other}


class AbsRecord:
    __slots__ = ("chrom", "pos", "id", "ref", "alts", "qual", "filter", "info", "fmt", "calls", "raw")

    def __init__(self, chrom, pos, id, ref, alts, qual, filter, info, fmt, calls, raw):
        self.chrom, self.pos, self.id, self.ref, self.alts = chrom, pos, id, ref, alts
        self.qual, self.filter, self.info, self.fmt, self.calls, self.raw = qual, filter, info, fmt, calls, raw

    @property
    def ps_key(self):
        return "PS" in self.fmt

    @property
    def symbolic(self):
        return any(a.startswith("<") and a.endswith(">") for a in self.alts)

    def __repr__(self):
        return f"AbsRecord({self.chrom}:{self.pos + 1} {self.ref}>{','.join(self.alts) or '.'} {self.calls})"


class AbsHeader:
    """ids defined per category; `generic`: the ##key=value lines and the structured lines other than
    contig/INFO/FILTER/FORMAT (as (key + "=<>", ID)) in header order; `structured`: the latter alone; the
    sample names."""
    __slots__ = ("contigs", "infos", "filters", "formats", "generic", "structured", "samples")

    def __init__(self, contigs, infos, filters, formats, generic, structured, samples):
        self.contigs, self.infos, self.filters, self.formats = contigs, infos, filters, formats
        self.generic, self.structured, self.samples = generic, structured, samples


class AbsVcf:
    __slots__ = ("path", "header", "samples", "records", "nul_bytes")

    def __init__(self, path, header, samples, records):
        self.path, self.header, self.samples, self.records = path, header, samples, records
        self.nul_bytes = 0


# ---------------------------------------------------------------------------------------- parsing
_HP_ITEM = re.compile(r"^(-?\d+)-(-?\d+)$")


class BadHP(str):
    """an HP item that is not of the form 'b-h': compares equal to "bad", keeps the text in .text"""

    def __new__(cls, text):
        o = super().__new__(cls, "bad")
        o.text = text
        return o


def _hp_items(v):
    """pysam value of call['HP'] (a tuple, or a plain string for Number=1 headers) -> abstract items"""
    if isinstance(v, str) or v is None:
        v = (v,)
    out = []
    for x in v:
        if x is None:
            out.append("none")
        elif x == ".":
            out.append("dot")
        else:
            m = _HP_ITEM.match(str(x).strip())
            out.append(("num", int(m.group(1)), int(m.group(2))) if m else BadHP(str(x)))
    return tuple(out)


def _missing(txt):
    return txt is None or txt == "." or txt == "" or txt == "\x00"


def parse_header(variant_file):
    h = variant_file.header
    generic, structured = [], []
    for r in h.records:
        if r.type == "GENERIC":
            generic.append((r.key, r.value))
        elif r.type == "STRUCTURED":                 # e.g. ##ALT=<ID=DEL,...>, ##SAMPLE=<...>
            structured.append((r.key, dict(r).get("ID", "")))
            generic.append((r.key + "=<>", dict(r).get("ID", "")))
    return AbsHeader(list(h.contigs), list(h.info), list(h.filters), list(h.formats), generic, structured,
                     list(h.samples))


def parse_vcf(path):
    """Parse a VCF text file into abstract records. Structure (alleles, GT, phased, PS, HP) comes from
    pysam; tokens are the raw text of the file. Raises whatever pysam raises on files it cannot read."""
    import pysam
    with open(path, "rb") as f:
        data = f.read()
    nul = data.count(b"\x00")
    if nul:
        # htslib cannot read a VCF text containing NUL bytes ("truncated file"); pysam writes one for a
        # string-typed FORMAT field set to None on every sample of a record. Parse a copy in which each NUL
        # is replaced by the missing value and report the count in AbsVcf.nul_bytes.
        path = path + ".nonul.vcf"
        data = data.replace(b"\x00", b".")
        with open(path, "wb") as f:
            f.write(data)
    lines = [ln.decode("latin-1").rstrip("\r") for ln in data.split(b"\n") if not ln.startswith(b"#") and ln.strip()]
    records = []
    with pysam.VariantFile(path) as vf:
        header = parse_header(vf)
        samples = list(vf.header.samples)
        for idx, rec in enumerate(vf):
            cols = lines[idx].split("\t")
            assert cols[0] == rec.chrom and int(cols[1]) == rec.pos, (path, idx, cols[:2], rec.chrom, rec.pos)
            alts = tuple(rec.alts or ())
            info = []
            if cols[7] != ".":
                for item in cols[7].split(";"):
                    k, _, v = item.partition("=")
                    info.append((k, v))
            fmt = cols[8].split(":") if len(cols) > 8 and cols[8] not in ("", ".") else []
            calls = []
            for si, s in enumerate(samples):
                c = rec.samples[s]
                raw_fields = cols[9 + si].split(":") if len(cols) > 9 + si else []
                gt = tuple(c["GT"]) if "GT" in fmt else None
                ps = None
                if "PS" in fmt:
                    ps = c["PS"]
                    if isinstance(ps, tuple):
                        ps = ps[0] if ps else None
                    if ps is not None and not isinstance(ps, int):      # PS not declared as Integer
                        raw_ps = raw_fields[fmt.index("PS")] if fmt.index("PS") < len(raw_fields) else "."
                        try:
                            ps = int(float(ps)) if float(ps) == int(float(ps)) else ("text", raw_ps)
                        except ValueError:
                            ps = None if _missing(raw_ps) else ("text", raw_ps)
                hp = _hp_items(c["HP"]) if "HP" in fmt else None
                pq = None
                other = []
                for ki, k in enumerate(fmt):
                    txt = raw_fields[ki] if ki < len(raw_fields) else None
                    if k == "PQ":
                        pq = None if _missing(txt) else txt
                    elif k not in PHASE_KEYS and not _missing(txt):
                        other.append((k, txt))
                calls.append(AbsCall(gt, bool(c.phased), ps, pq, hp, other))
            records.append(AbsRecord(rec.chrom, rec.start, cols[2], cols[3], alts, cols[5], cols[6], info, fmt,
                                     calls, cols))
    out = AbsVcf(path, header, samples, records)
    out.nul_bytes = nul
    return out


def body_use(vcf):
    """What missing_headers() collects from the body: contigs and FORMAT keys in order of first
    appearance, INFO keys (plus END when a record has an ALT starting with '<')."""
    contigs, formats, infos = [], [], []
    for r in vcf.records:
        if r.chrom not in contigs:
            contigs.append(r.chrom)
        for k in r.fmt:
            if k not in formats:
                formats.append(k)
        for k, _ in r.info:
            if k not in infos and k != "END":      # pysam's record.info does not list END
                infos.append(k)
        if any(a.startswith("<") for a in r.alts) and "END" not in infos:
            infos.append("END")
    return contigs, formats, infos


# ---------------------------------------------------------------------------------- Coq rendering
def _z(n):
    return f"({n})%Z" if n < 0 else f"{n}%Z"


def _opt(x, f):
    return "None" if x is None else f"(Some {f(x)})"


def _list(xs, f):
    return "[" + "; ".join(f(x) for x in xs) + "]"


def allele_term(a):
    return "None" if a is None else f"(Some {a}%nat)"


def hp_item_term(x, it=None):
    if x == "dot":
        return "HPdot"
    if x == "none":
        return "HPnone"
    if x == "bad":
        return f"(HPbad {_z(it('hp:' + getattr(x, 'text', '')) if it else 0)})"
    return f"(HPnum {_z(x[1])} {_z(x[2])})"


def call_term(c, it):
    return ("(mkCall " + _opt(c.gt, lambda g: _list(g, allele_term)) + " " + ("true" if c.phased else "false") + " "
            + _opt(c.ps, lambda v: _z(v) if isinstance(v, int) else _z(-(10 ** 6) - it("ps:" + v[1]))) + " " + _opt(c.pq, lambda t: _z(it("pq:" + t))) + " "
            + _opt(c.hp, lambda h: _list(h, lambda x: hp_item_term(x, it))) + " "
            + _list(c.other, lambda kv: f"({_z(it(kv[0]))}, {_z(it('v:' + kv[1]))})") + ")")


def info_term(info, it):
    def one(kv):
        k, v = kv
        if k == "END" and re.fullmatch(r"-?\d+", v or ""):
            return f"(0%Z, {_z(int(v))})"
        return f"({_z(it(k))}, {_z(it('v:' + v))})"
    return _list(info, one)


def rec_term(r, it):
    fixed = [it("id:" + r.id), it("ref:" + r.ref), it("alt:" + ",".join(r.alts)), it("qual:" + r.qual),
             it("filter:" + r.filter)]
    return ("(mkRec " + _z(it("chrom:" + r.chrom)) + " " + _z(r.pos) + " " + _list(fixed, _z) + " "
            + info_term(r.info, it) + " " + _z(len(r.ref)) + " " + _list([len(a) for a in r.alts], _z) + " "
            + ("true" if r.symbolic else "false") + " " + ("true" if r.ps_key else "false") + " "
            + _list(r.calls, lambda c: call_term(c, it)) + ")")


def recs_term(records, it):
    return "[" + ";\n ".join(rec_term(r, it) for r in records) + "]"


def chrom_token(name, it):
    return it("chrom:" + name)


def header_term(h, it):
    """contig ids share the token space of record chromosomes; FORMAT / INFO / FILTER ids are the bare
    words (so that PASS = 3, PS = 4, HP = 5, END = 0 as in the Coq model)."""
    return ("(mkHeader " + _list([it("chrom:" + c) for c in h.contigs], _z) + " " + _list([it(x) for x in h.infos], _z)
            + " " + _list([it(x) for x in h.filters], _z) + " " + _list([it(x) for x in h.formats], _z) + " "
            + _list(list(h.generic), lambda kv: f"({_z(it(kv[0]))}, {_z(it('v:' + str(kv[1])))})")
            + " " + _list([it("sample:" + s) for s in h.samples], _z) + ")")


def use_term(use, it):
    contigs, formats, infos = use
    return ("(mkUse " + _list([it("chrom:" + c) for c in contigs], _z) + " " + _list([it(x) for x in formats], _z)
            + " " + _list([it(x) for x in infos], _z) + ")")


def target_term(sample_index, superreads, components):
    """superreads: [(pos, [allele of each super-read])] (already zipped), components: {pos: comp}"""
    return ("(mkTarget " + f"{sample_index}%nat " + _list(superreads, lambda e: f"({_z(e[0])}, " + _list(e[1], lambda a: f"{a}%nat") + ")")
            + " " + _list(sorted(components.items()), lambda e: f"({_z(e[0])}, {_z(e[1])})") + ")")


def end_declared(vcf):
    """INFO/END is defined after whatshap's header repair: declared in the input header, or some record
    has an ALT allele starting with '<' (missing_headers then adds the definition)."""
    return "END" in vcf.header.infos or any(a.startswith("<") for r in vcf.records for a in r.alts)


def cfg_term(tag, only_snvs=False, mav=False, end_decl=True):
    b = lambda x: "true" if x else "false"
    return f"(mkCfg {'TagPS' if tag == 'PS' else 'TagHP'} {b(only_snvs)} {b(mav)} {b(end_decl)})"


# ------------------------------------------------------------------------------------ text writer
class VcfText:
    """A small VCF text builder for generated inputs: header lines are given verbatim (without the
    #CHROM line), records as their column texts."""

    def __init__(self, samples, header_lines):
        self.samples = list(samples)
        self.header_lines = list(header_lines)
        self.rows = []

    def add(self, chrom, pos1, ref, alt, fmt, calls, id=".", qual=".", filt=".", info="."):
        """pos1 is 1-based; fmt is the FORMAT text (or None for a sites-only row); calls = one text per sample"""
        row = [chrom, str(pos1), id, ref, alt, qual, filt, info]
        if self.samples:
            assert len(calls) == len(self.samples)
            row += [fmt] + list(calls)
        self.rows.append(row)
        return self

    def text(self):
        head = "#CHROM\tPOS\tID\tREF\tALT\tQUAL\tFILTER\tINFO"
        if self.samples:
            head += "\tFORMAT\t" + "\t".join(self.samples)
        return "\n".join(self.header_lines + [head] + ["\t".join(r) for r in self.rows]) + "\n"

    def write(self, path):
        with open(path, "w") as f:
            f.write(self.text())
        return path

    def to_json(self):
        return {"samples": self.samples, "header": self.header_lines, "rows": self.rows}

    @staticmethod
    def from_json(d):
        v = VcfText(d["samples"], d["header"])
        v.rows = [list(r) for r in d["rows"]]
        return v
