"""Scratch build of /repo's *current working tree* (never imports from /repo itself).

The working tree is rsynced to a persistent, regenerable build directory outside /repo, /verif and
/tmp; each Cython/C++ extension is keyed by a SHA-256 over its sources (+ all headers/pxd files +
setup.py) and is rebuilt only when that key changed.  A python-only edit therefore costs one rsync.
Deleting the directory (./check --clean) only costs a full rebuild (~75 s).
"""
import fcntl
import hashlib
import json
import os
import re
import shutil
import subprocess
import sys
import time

REPO = os.environ.get("WHVERIF_REPO", "/repo")
BUILD_ROOT = os.environ.get("WHVERIF_BUILD_ROOT", "/var/tmp/whverif-build")
PY = "/venv/bin/python"

EXT_PYX = {
    "whatshap.core": "whatshap/core.pyx",
    "whatshap.polyphase.solver": "whatshap/polyphase/solver.pyx",
    "whatshap.readselect": "whatshap/readselect.pyx",
    "whatshap.priorityqueue": "whatshap/priorityqueue.pyx",
    "whatshap.align": "whatshap/align.pyx",
    "whatshap._variants": "whatshap/_variants.pyx",
}


def _sha(paths, root):
    h = hashlib.sha256()
    for p in sorted(paths):
        h.update(p.encode())
        try:
            with open(os.path.join(root, p), "rb") as f:
                h.update(f.read())
        except OSError:
            h.update(b"<missing>")
    return h.hexdigest()


def _ext_sources(root):
    """Parse setup.py's extension list textually (setup.py is part of every key)."""
    txt = open(os.path.join(root, "setup.py")).read()
    exts = {}
    for m in re.finditer(r'CppExtension\(\s*"([\w.]+)",\s*sources=\[(.*?)\]', txt, re.S):
        exts[m.group(1)] = re.findall(r'"([^"]+)"', m.group(2))
    return exts


def _shared_files(root):
    out = ["setup.py", "pyproject.toml"]
    for d, _, fs in os.walk(os.path.join(root, "src")):
        for f in fs:
            if f.endswith((".h", ".hpp")):
                out.append(os.path.relpath(os.path.join(d, f), root))
    for d, _, fs in os.walk(os.path.join(root, "whatshap")):
        for f in fs:
            if f.endswith(".pxd"):
                out.append(os.path.relpath(os.path.join(d, f), root))
    return out


def build_impl(verbose=True):
    """Returns the directory to put on PYTHONPATH."""
    t0 = time.time()
    os.makedirs(BUILD_ROOT, exist_ok=True)
    lock = open(os.path.join(BUILD_ROOT, ".lock"), "w")
    fcntl.flock(lock, fcntl.LOCK_EX)
    try:
        tree = os.path.join(BUILD_ROOT, "tree")
        os.makedirs(tree, exist_ok=True)
        subprocess.run(
            ["rsync", "-a", "--delete",
             "--exclude", ".git", "--exclude", "/build", "--exclude", "*.so",
             "--exclude", "__pycache__", "--exclude", "*.egg-info",
             "--exclude", "/whatshap/core.cpp", "--exclude", "/whatshap/align.cpp",
             "--exclude", "/whatshap/_variants.cpp", "--exclude", "/whatshap/priorityqueue.cpp",
             "--exclude", "/whatshap/readselect.cpp", "--exclude", "/whatshap/polyphase/solver.cpp",
             "--exclude", "/.verif-keys.json",
             REPO + "/", tree + "/"], check=True)
        exts = _ext_sources(tree)
        shared = _shared_files(tree)
        keys = {name: _sha(srcs + shared, tree) for name, srcs in exts.items()}
        keyfile = os.path.join(tree, ".verif-keys.json")
        try:
            old = json.load(open(keyfile))
        except Exception:
            old = {}
        stale = []
        for name in exts:
            so = _find_so(tree, name)
            if old.get(name) != keys[name] or so is None:
                stale.append(name)
                if so:
                    os.unlink(so)
                gen = os.path.join(tree, EXT_PYX.get(name, name.replace(".", "/") + ".pyx")[:-4] + ".cpp")
                if os.path.exists(gen):
                    os.unlink(gen)
        if stale:
            if verbose:
                print(f"[build] rebuilding {stale}", flush=True)
            if os.path.exists(keyfile):
                os.unlink(keyfile)
            env = dict(os.environ)
            env.pop("PYTHONPATH", None)
            env["SETUPTOOLS_SCM_PRETEND_VERSION"] = "0.0.verif"
            r = subprocess.run([PY, "setup.py", "build_ext", "--inplace", "-j16"], cwd=tree,
                               env=env, stdout=subprocess.PIPE, stderr=subprocess.STDOUT, text=True)
            if r.returncode != 0:
                sys.stdout.write(r.stdout[-6000:])
                raise RuntimeError("scratch build of /repo working tree failed")
            for name in exts:
                if _find_so(tree, name) is None:
                    raise RuntimeError(f"extension {name} missing after build")
            json.dump(keys, open(keyfile, "w"))
        if verbose:
            print(f"[build] implementation ready in {tree} ({time.time()-t0:.1f}s, rebuilt {len(stale)} ext)", flush=True)
        return tree
    finally:
        fcntl.flock(lock, fcntl.LOCK_UN)
        lock.close()


def _find_so(tree, name):
    d = os.path.join(tree, *name.split(".")[:-1])
    base = name.split(".")[-1]
    if not os.path.isdir(d):
        return None
    for f in os.listdir(d):
        if f.startswith(base + ".") and f.endswith(".so"):
            return os.path.join(d, f)
    return None


def clean():
    shutil.rmtree(BUILD_ROOT, ignore_errors=True)


def activate(tree):
    """Make this process (and its children) import whatshap from the scratch build."""
    os.environ["PYTHONPATH"] = tree
    if tree in sys.path:
        sys.path.remove(tree)
    sys.path.insert(0, tree)
    for m in [m for m in sys.modules if m == "whatshap" or m.startswith("whatshap.")]:
        del sys.modules[m]
    import whatshap
    assert os.path.realpath(whatshap.__file__).startswith(os.path.realpath(tree)), whatshap.__file__
    return tree


if __name__ == "__main__":
    if len(sys.argv) > 1 and sys.argv[1] == "--clean":
        clean()
    else:
        print(build_impl())
