"""Evaluate the executable Gallina models inside Coq (vm_compute) on harness-generated cases,
and run the proof obligations (make + Print Assumptions capture + grep audit)."""
import os
import re
import shutil
import subprocess
import tempfile
import time
from concurrent.futures import ThreadPoolExecutor

VERIF = os.path.dirname(os.path.dirname(os.path.abspath(__file__)))
COQ = os.path.join(VERIF, "coq")
QFLAGS = ["-Q", os.path.join(COQ, "model"), "WH.Model",
          "-Q", os.path.join(COQ, "proofs"), "WH.Proofs",
          "-Q", os.path.join(COQ, "props"), "WH.Props"]

ALLOWED_AXIOMS = {
    # standard-library axioms that may appear (each is named in the trusted base when it does)
    "functional_extensionality_dep", "FunctionalExtensionality.functional_extensionality_dep",
    "Eqdep.Eq_rect_eq.eq_rect_eq", "eq_rect_eq", "JMeq_eq", "JMeq.JMeq_eq",
    "Classical_Prop.classic", "classic", "proof_irrelevance", "ProofIrrelevance.proof_irrelevance",
}


# ---------------------------------------------------------------- python value -> Coq term
class Raw(str):
    """Already-rendered Coq text."""


def term(x):
    """Render a python value as a Coq term. ints -> Z, bool, None/('some',x) -> option,
    list -> list, tuple -> nested pair, Raw -> verbatim."""
    if isinstance(x, Raw):
        return str(x)
    if isinstance(x, bool):
        return "true" if x else "false"
    if isinstance(x, int):
        return f"({x})%Z" if x < 0 else f"{x}%Z"
    if x is None:
        return "None"
    if isinstance(x, Some):
        return f"(Some {term(x.v)})"
    if isinstance(x, Nat):
        return f"{x.v}%nat"
    if isinstance(x, NN):
        return f"{x.v}%N"
    if isinstance(x, list):
        return "[" + "; ".join(term(e) for e in x) + "]"
    if isinstance(x, tuple):
        assert len(x) >= 2
        return "(" + ", ".join(term(e) for e in x) + ")"
    raise TypeError(f"cannot render {type(x)}: {x!r}")


class Some:
    def __init__(self, v):
        self.v = v


class Nat:
    def __init__(self, v):
        assert 0 <= v < 5000, "nat literal too large"
        self.v = v


class NN:
    def __init__(self, v):
        assert v >= 0
        self.v = v


def opt(x):
    return None if x is None else Some(x)


# ---------------------------------------------------------------- building / proof obligations
def gen_coqproject():
    lines = ["-Q model WH.Model", "-Q proofs WH.Proofs", "-Q props WH.Props"]
    for d in ("model", "proofs", "props"):
        for f in sorted(os.listdir(os.path.join(COQ, d))):
            if f.endswith(".v"):
                lines.append(f"{d}/{f}")
    txt = "\n".join(lines) + "\n"
    p = os.path.join(COQ, "_CoqProject")
    if not os.path.exists(p) or open(p).read() != txt:
        with open(p, "w") as f:
            f.write(txt)
        return True
    return False


def dep_closure(target_rel):
    """.v files (relative to coq/) that target_rel (e.g. 'props/C18.v') transitively depends on, incl. itself."""
    r = subprocess.run(["coqdep", "-f", "_CoqProject"], cwd=COQ, stdout=subprocess.PIPE, stderr=subprocess.DEVNULL, text=True)
    deps = {}
    for line in r.stdout.splitlines():
        if ":" not in line:
            continue
        lhs, rhs = line.split(":", 1)
        tg = [t for t in lhs.split() if t.endswith(".vo")]
        if not tg:
            continue
        src = tg[0][:-1]
        deps[src] = [d[:-1] for d in rhs.split() if d.endswith(".vo")]
    seen, todo = set(), [target_rel]
    while todo:
        x = todo.pop()
        if x in seen:
            continue
        seen.add(x)
        todo += deps.get(x, [])
    return seen


def coq_make(timeout=3000, target=None):
    """Full .vo build (no -vos). With target='props/Cxx.v' only that file's dependency closure is built
    (`make props/Cxx.vo`), so a slow or broken file of another property cannot block or fail this check;
    setup.sh always builds everything. Only the (re)generation of _CoqProject/Makefile is serialised."""
    import fcntl
    t0 = time.time()
    os.makedirs(os.path.join(COQ, "cases"), exist_ok=True)
    lock = open(os.path.join(COQ, "cases", ".make.lock"), "w")
    fcntl.flock(lock, fcntl.LOCK_EX)
    try:
        changed = gen_coqproject()
        if changed or not os.path.exists(os.path.join(COQ, "Makefile")):
            subprocess.run(["coq_makefile", "-f", "_CoqProject", "-o", "Makefile"], cwd=COQ, check=True,
                           stdout=subprocess.DEVNULL)
    finally:
        fcntl.flock(lock, fcntl.LOCK_UN)
        lock.close()
    cmd = ["timeout", str(timeout), "make", "-j16"]
    if target:
        cmd.append(target + "o")          # props/Cxx.v -> props/Cxx.vo
    else:
        cmd.insert(3, "-k")
    r = subprocess.run(cmd, cwd=COQ, stdout=subprocess.PIPE, stderr=subprocess.STDOUT, text=True)
    if r.returncode != 0 and target:
        # several checks started at once on a tree that is not built yet compile the shared files concurrently and can
        # trip over each other's half-written .vo files: repeat, serialised with the other checks' repeats
        for _ in range(2):
            time.sleep(5)
            lock = open(os.path.join(COQ, "cases", ".make.retry.lock"), "w")
            fcntl.flock(lock, fcntl.LOCK_EX)
            try:
                r = subprocess.run(cmd, cwd=COQ, stdout=subprocess.PIPE, stderr=subprocess.STDOUT, text=True)
            finally:
                fcntl.flock(lock, fcntl.LOCK_UN)
                lock.close()
            if r.returncode == 0:
                break
    return r.returncode == 0, r.stdout, time.time() - t0


AUDIT_RE = re.compile(
    r"\b(Admitted|admit|Axiom|Axioms|Parameter|Parameters|Conjecture|Conjectures|Admit Obligations)\b"
    r"|Unset\s+Guard|bypass_check|type-in-type|impredicative-set|Unset\s+Positivity|Unset\s+Universe")


def strip_comments(txt):
    out, depth, i = [], 0, 0
    while i < len(txt):
        if txt.startswith("(*", i):
            depth += 1
            i += 2
        elif txt.startswith("*)", i) and depth:
            depth -= 1
            i += 2
        else:
            if depth == 0:
                out.append(txt[i])
            i += 1
    return "".join(out)


def audit(only=None):
    """grep audit over coq/ sources (comments stripped): returns list of offending (file, line).
    only = set of paths relative to coq/ (a dependency closure) restricts the audit to those files."""
    bad = []
    for sub in ("model", "proofs", "props"):
      for d, _, fs in os.walk(os.path.join(COQ, sub)):
          for f in fs:
              if not f.endswith(".v"):
                  continue
              p = os.path.join(d, f)
              if only is not None and os.path.relpath(p, COQ) not in only:
                  continue
              body = strip_comments(open(p).read())
              for ln, line in enumerate(body.split("\n"), 1):
                  if AUDIT_RE.search(line):
                      bad.append((os.path.relpath(p, VERIF), line.strip()))
                  if re.match(r"\s*(Variable|Variables|Hypothesis|Hypotheses|Context)\b", line):
                      # allowed only inside a Section: checked structurally
                      if not _inside_section(body, ln):
                          bad.append((os.path.relpath(p, VERIF), "section-less " + line.strip()))
    proj = open(os.path.join(COQ, "_CoqProject")).read()
    if re.search(r"type-in-type|impredicative-set", proj):
        bad.append(("coq/_CoqProject", "forbidden flag"))
    return bad


def _inside_section(body, lineno):
    depth = 0
    for ln, line in enumerate(body.split("\n"), 1):
        if ln >= lineno:
            break
        if re.match(r"\s*Section\s+\w+\s*\.", line):
            depth += 1
        elif re.match(r"\s*End\s+\w+\s*\.", line) and depth:
            # could be Module end, but modules are not used in this development
            depth -= 1
    return depth > 0


def obligations(prop_id, timeout=900):
    """Re-check props/<id>.v and capture Print Assumptions for each of its theorems.
    Returns dict(ok, theorems=[{name, assumptions, closed}], log)."""
    src = os.path.join(COQ, "props", f"{prop_id}.v")
    res = {"ok": False, "theorems": [], "log": "", "file": os.path.relpath(src, VERIF)}
    if not os.path.exists(src):
        res["log"] = "no props file"
        return res
    body = strip_comments(open(src).read())
    declared = re.findall(r"^\s*(?:Theorem|Lemma|Corollary)\s+(\w+)", body, re.M)
    with tempfile.TemporaryDirectory(dir=os.path.join(COQ, "cases")) as td:
        dst = os.path.join(td, f"{prop_id}_chk.v")
        shutil.copy(src, dst)
        r = subprocess.run(["timeout", str(timeout), "coqc"] + QFLAGS + [dst], stdout=subprocess.PIPE,
                           stderr=subprocess.STDOUT, text=True, cwd=td)
    res["log"] = r.stdout[-4000:]
    if r.returncode != 0:
        return res
    # Parse Print Assumptions blocks. Output for each is either "Closed under the global context"
    # or "Axioms:\n name : type ..." . We print a marker line before each via the props file idiom:
    #   Print Assumptions thm.   (in declaration order)
    printed = re.findall(r"^\s*Print Assumptions\s+(\w+)\s*\.", body, re.M)
    blocks = re.split(r"(?m)^(?=Closed under the global context|Axioms:)", r.stdout)
    blocks = [b for b in blocks if b.startswith("Closed under") or b.startswith("Axioms:")]
    ok = len(blocks) == len(printed) and set(declared) <= set(printed)
    for name, b in zip(printed, blocks):
        if b.startswith("Closed"):
            res["theorems"].append({"name": name, "assumptions": [], "closed": True})
        else:
            ax = re.findall(r"^([\w.']+)\s*:", b, re.M)
            res["theorems"].append({"name": name, "assumptions": ax, "closed": False})
            for a in ax:
                if a not in ALLOWED_AXIOMS and a.split(".")[-1] not in ALLOWED_AXIOMS:
                    ok = False
    res["declared"] = declared
    res["ok"] = ok and len(declared) > 0
    return res


# ---------------------------------------------------------------- evaluating cases
def _run_coqc(path, timeout):
    """One coqc run under a shell time limit. A run that is killed by the limit or by the kernel (busy or memory-starved
    machine) is repeated once with three times the limit; a second failure is returned with an explicit message."""
    t0 = time.time()
    rc, out = None, ""
    for attempt, limit in enumerate((timeout, 3 * timeout)):
        r = subprocess.run(["bash", "-c", f"ulimit -s unlimited 2>/dev/null; exec timeout {limit} coqc "
                            + " ".join(QFLAGS) + f" {path}"],
                           stdout=subprocess.PIPE, stderr=subprocess.STDOUT, text=True,
                           cwd=os.path.dirname(path))
        rc, out = r.returncode, r.stdout
        if rc not in (124, 137, -9):
            break
        out = f"coqc was killed (exit {rc}) after {int(time.time() - t0)} s (limit {limit} s, attempt {attempt + 1})\n" + out
    return rc, out, time.time() - t0


def eval_shards(name, header, shards, timeout=900, jobs=16):
    """shards: list of Coq source bodies (strings, appended after `header`). Each is compiled with
    coqc; returns list of (rc, stdout). Files live in coq/cases/<tmp> and are removed afterwards."""
    os.makedirs(os.path.join(COQ, "cases"), exist_ok=True)
    td = tempfile.mkdtemp(prefix=name + "_", dir=os.path.join(COQ, "cases"))
    try:
        paths = []
        for i, body in enumerate(shards):
            p = os.path.join(td, f"{name}_{i}.v")
            with open(p, "w") as f:
                f.write(header + "\n" + body + "\n")
            paths.append(p)
        with ThreadPoolExecutor(max_workers=jobs) as ex:
            outs = list(ex.map(lambda p: _run_coqc(p, timeout), paths))
        return outs
    finally:
        if not os.environ.get("WHVERIF_KEEP_CASES"):
            shutil.rmtree(td, ignore_errors=True)


def parse_eval_results(stdout):
    """Return list of the terms printed by `Eval vm_compute in ...` as strings (without ': type')."""
    res = []
    for m in re.finditer(r"(?ms)^\s*= (.*?)\n\s*: [^\n]*(?:\n(?!\s*=)[ \t]+[^\n]*)*", stdout):
        res.append(" ".join(m.group(1).split()))
    return res


def parse_nat_list(s):
    """'[1; 5; 7]' or '[]' (possibly with %Z / %nat suffixes) -> [1,5,7]"""
    return [int(x) for x in re.findall(r"-?\d+", s)]


def eval_checks(name, header, check_fns, cases, shard=300, timeout=900):
    """cases: list of rendered Coq terms (strings); check_fns: {label: coq function case -> bool}.
    Returns ({label: failing indices into cases}, errors)."""
    shards, offsets = [], []
    labels = list(check_fns)
    for off in range(0, len(cases), shard):
        chunk = cases[off:off + shard]
        body = "Definition cases := [\n" + ";\n".join(chunk) + "\n].\n"
        for lab in labels:
            body += (f"Eval vm_compute in (map fst (filter (fun p => negb (snd p)) "
                     f"(combine (seq 0 (length cases)) (map ({check_fns[lab]}) cases)))).\n")
        shards.append(body)
        offsets.append(off)
    outs = eval_shards(name, header, shards, timeout=timeout)
    failing = {lab: [] for lab in labels}
    errors = []
    for off, (rc, out, _) in zip(offsets, outs):
        if rc != 0:
            errors.append((off, out[-3000:]))
            continue
        terms = parse_eval_results(out)
        if len(terms) != len(labels):
            errors.append((off, "unexpected Eval output:\n" + out[-2000:]))
            continue
        for lab, t in zip(labels, terms):
            failing[lab] += [off + i for i in parse_nat_list(t)]
    return failing, errors


def eval_terms(name, header, exprs, timeout=900):
    """Evaluate a handful of expressions, return printed terms (strings)."""
    body = "\n".join(f"Eval vm_compute in ({e})." for e in exprs)
    (rc, out, _), = eval_shards(name, header, [body], timeout=timeout)
    if rc != 0:
        raise RuntimeError("coqc failed:\n" + out[-3000:])
    return parse_eval_results(out)
