"""C13 helpers: generator of VCF file specs (JSON-able), a small VCF text writer, and the parser that maps a
VCF text (input or output of `whatshap unphase`) to the abstract records of coq/model/Unphase.v.

A spec is
  {"samples": [...], "contigs": [...], "phasing": None | "text", "info_ps": bool,
   "formats": [[id, number, type], ...]            # declared FORMAT header lines, in order
   "records": [{"fixed": [chrom, pos, id, ref, alt, qual, filter, info],   # column texts
                "format": [keys] ,                   # [] -> FORMAT column "."
                "calls": [[subfield texts]]}]}       # one list per sample; may be shorter than format
                                                    # (dropped trailing fields)
"""
import re

from .coqeval import Raw

PHASE_KEYS = {"HP": 1, "PS": 2, "PQ": 3}

FORMAT_DEFS = {
    "GT": ("1", "String"),
    "DP": ("1", "Integer"),
    "GQ": ("1", "Integer"),
    "AD": ("R", "Integer"),
    "FT": ("1", "String"),
    "XF": ("1", "Float"),
    "PSX": ("1", "Integer"),      # names sharing a prefix with the tags to remove: must be kept
    "HPQ": ("1", "String"),
    "GTX": ("1", "String"),
}


# ------------------------------------------------------------------------------------- text writer
def format_line(fid, num, typ):
    return f'##FORMAT=<ID={fid},Number={num},Type={typ},Description="{fid} value">'


def default_meta(spec):
    """meta lines after the first two in the fixed layout (FILTER, contig, phasing, INFO, FORMAT)"""
    lines = ['##FILTER=<ID=q10,Description="Quality below 10">',
             '##FILTER=<ID=s50,Description="Less than half of samples have data">']
    lines += [f"##contig=<ID={c},length=1000000>" for c in spec["contigs"]]
    for p in spec.get("phasing") or []:
        lines.append(f"##phasing={p}")
    lines += ['##INFO=<ID=DP,Number=1,Type=Integer,Description="Total depth">',
              '##INFO=<ID=AF,Number=A,Type=Float,Description="Allele frequency">',
              '##INFO=<ID=DB,Number=0,Type=Flag,Description="dbSNP membership">']
    if spec.get("declare_end"):
        lines.append('##INFO=<ID=END,Number=1,Type=Integer,Description="End position of the variant">')
    for t in (spec.get("info_tags") or (["PS"] if spec.get("info_ps") else [])):
        lines.append(f'##INFO=<ID={t},Number=1,Type=Integer,Description="An INFO field that happens to be called {t}">')
    lines += list(spec.get("generic_meta") or [])
    for fid, num, typ in spec["formats"]:
        lines.append(format_line(fid, num, typ))
    return lines


def header_lines(spec):
    """`##fileformat` and the PASS filter come first (htslib puts them there anyway); the other meta lines are
    spec["meta"] if given (any order, any number of ##phasing lines), else the fixed layout"""
    lines = ["##fileformat=VCFv4.2", '##FILTER=<ID=PASS,Description="All filters passed">']
    lines += spec["meta"] if spec.get("meta") is not None else default_meta(spec)
    cols = "#CHROM\tPOS\tID\tREF\tALT\tQUAL\tFILTER\tINFO"
    if spec["samples"]:
        cols += "\tFORMAT\t" + "\t".join(spec["samples"])
    lines.append(cols)
    return lines


def is_tag_def(line):
    return any(line.startswith(f"##FORMAT=<ID={k},") for k in PHASE_KEYS)


def insert_phasing(rng, meta, n, p_before_tag=0.6):
    """insert n `##phasing=` lines into the meta lines: preferably directly before the FORMAT definition of HP, PS or
    PQ (also two in a row), else anywhere (including the very end)"""
    meta = list(meta)
    for j in range(n):
        tagpos = [i for i, l in enumerate(meta) if is_tag_def(l)]
        if tagpos and rng.random() < p_before_tag:
            pos = rng.choice(tagpos)
        else:
            pos = rng.randint(0, len(meta))
        meta.insert(pos, "##phasing=" + rng.choice(["whatshap", "none", "partial", "yes"]) + str(j))
    return meta


def random_meta(rng, spec):
    """header layout: FORMAT definitions in random order, interleaved with INFO / FILTER / contig lines, and 0-3
    `##phasing` lines"""
    base = [l for l in default_meta({**spec, "phasing": None})]
    mode = rng.choice(["grouped", "shuffled", "shuffled", "formats-shuffled"])
    if mode == "shuffled":
        rng.shuffle(base)
    elif mode == "formats-shuffled":
        fm = [l for l in base if l.startswith("##FORMAT")]
        rng.shuffle(fm)
        it = iter(fm)
        base = [next(it) if l.startswith("##FORMAT") else l for l in base]
    n = rng.choice([0, 1, 1, 2, 2, 3])
    return insert_phasing(rng, base, n)


def record_line(spec, rec):
    cols = [str(x) for x in rec["fixed"]]
    if spec["samples"]:
        cols.append(":".join(rec["format"]) if rec["format"] else ".")
        for call in rec["calls"]:
            cols.append(":".join(call) if call else ".")
    return "\t".join(cols)


def write_text(spec):
    return "\n".join(header_lines(spec) + [record_line(spec, r) for r in spec["records"]]) + \
        ("" if spec.get("no_final_newline") and spec["records"] else "\n")


# --------------------------------------------------------------------------------------- generator
def gen_gt(rng, nalt, wild):
    """GT text. tame: shapes the current code is known to survive are equally allowed in wild; wild adds every
    ploidy 1..6 with any missing pattern and mixed separators."""
    if wild:
        ploidy = rng.choice([1, 1, 2, 2, 3, 3, 4, 5, 6, 7, 8, 10])
        mode = rng.choice(["full", "full", "full", "missing", "partial", "partial"])
    else:
        ploidy = rng.choice([2, 2, 2, 2, 2, 2, 3, 4, 6])
        mode = rng.choice(["full"] * 7 + ["missing", "partial_lead"])
    al = [str(rng.randint(0, nalt)) for _ in range(ploidy)]
    if mode == "missing":
        if not wild and rng.random() < 0.3:
            al = ["."]           # haploid missing: survives
        else:
            al = ["."] * ploidy
    elif mode == "partial":
        k = rng.randint(1, max(1, ploidy - 1)) if ploidy > 1 else 1
        for i in rng.sample(range(ploidy), min(k, ploidy)):
            al[i] = "."
    elif mode == "partial_lead":
        # a missing allele among the first two positions (0/. , .|1, ./0/1): no exception in the current code
        al[rng.randint(0, 1)] = "."
    if len(al) == 1:
        return al[0]
    sepmode = rng.choice(["/", "|", "|", "mixed"]) if wild else rng.choice(["/", "|", "|"])
    out = al[0]
    for a in al[1:]:
        sep = rng.choice("/|") if sepmode == "mixed" else sepmode
        out += sep + a
    return out


def gen_value(rng, key, spec_types, pos, nalt):
    """text of one FORMAT subfield other than GT ('.' = missing)"""
    if rng.random() < 0.15:
        return "."
    if key == "PS":
        if spec_types["PS"] == "String" and rng.random() < 0.4:
            return rng.choice(["blk", "x"]) + str(rng.randint(1, 50))
        return str(rng.choice([pos, max(1, pos - rng.randint(1, 500)), rng.randint(1, 99999), 2147483000]))
    if key == "HP":
        p = rng.choice([pos, max(1, pos - rng.randint(1, 500))])
        order = rng.choice([(1, 2), (2, 1)])
        return f"{p}-{order[0]},{p}-{order[1]}"
    if key == "PQ":
        if spec_types["PQ"] == "Float":
            return rng.choice(["23.5", "0.25", "10", "99"])
        return str(rng.randint(0, 99))
    if key in ("DP", "GQ", "PSX"):
        return str(rng.choice([rng.randint(0, 200), rng.randint(0, 200), 0, 2147483000]))
    if key == "HPQ":
        return rng.choice(["1-1", "x", "a%3Bb", "PS"])
    if key == "GTX":
        return rng.choice(["0|1", "1/0", "het"])
    if key == "AD":
        return ",".join(rng.choice([".", str(rng.randint(0, 60))]) if rng.random() < 0.1 else str(rng.randint(0, 60))
                        for _ in range(nalt + 1))
    if key == "FT":
        return rng.choice(["PASS", "lowGQ", "lowGQ;lowDP"])
    if key == "XF":
        return rng.choice(["0.5", "-1.25", "3", "100.75", "1e-05"])
    raise KeyError(key)


BASES = "ACGT"


def gen_alleles(rng):
    kind = rng.choice(["snv", "snv", "snv", "ins", "del", "multi", "multi", "noalt", "many", "symbolic"])
    ref = rng.choice(BASES)
    if kind == "many":
        # 10-13 ALT alleles: allele numbers with two digits (numeric, not lexicographic, order matters)
        n = rng.randint(10, 13)
        alts = []
        while len(alts) < n:
            a = ref + "".join(rng.choice(BASES) for _ in range(rng.randint(1, 4)))
            if a not in alts:
                alts.append(a)
        return ref, alts
    if kind == "symbolic":
        return ref, rng.choice([["<DEL>"], ["*"], ["<DEL>", rng.choice([b for b in BASES if b != ref])], ["*", "<DUP>"]])
    if kind == "snv":
        return ref, [rng.choice([b for b in BASES if b != ref])]
    if kind == "ins":
        return ref, [ref + "".join(rng.choice(BASES) for _ in range(rng.randint(1, 3)))]
    if kind == "del":
        return ref + "".join(rng.choice(BASES) for _ in range(rng.randint(1, 3))), [ref]
    if kind == "noalt":
        return ref, []
    alts = [b for b in BASES if b != ref]
    rng.shuffle(alts)
    n = rng.randint(2, 3)
    alts = alts[:n]
    if rng.random() < 0.3:
        alts[-1] = ref + rng.choice(BASES) + rng.choice(BASES)
    return ref, alts


SAMPLE_NAME_POOLS = [
    lambda i: f"S{i + 1}",
    lambda i: ["NA12878", "NA12891", "NA12892", "HG002", "HG003", "HG004", "child", "father", "mother", "x", "y", "z"][i % 12],
    lambda i: ["GT", "PS", "HP", "PQ", "FORMAT", "0", "1", "10", "2", "sample", "sample1", "sample10"][i % 12],
    lambda i: ["b", "a", "B", "A", "a.b", "a-b", "a_b", "a b", "ä", "#s", "s|1", "s/2"][i % 12],
]

GENERIC_META = ['##source=generator', '##reference=file:///ref.fa', '##phasingX=not-a-phasing-line',
                '##Phasing=capitalised', '##phasing_method=read-based', '##ALT=<ID=DEL,Description="Deletion">',
                '##SAMPLE=<ID=S1,Description="first">', '##commandline="whatshap phase --tag=PS"']


def gen_spec(rng, profile=None):
    """profile: 'tame' (no input the pre-fix code was known to crash on), 'mild', 'wild'."""
    profile = profile or rng.choice(["tame", "tame", "mild", "mild", "wild"])
    p_wild = {"tame": 0.0, "mild": 0.04, "wild": 0.35}[profile]
    p_nogt = {"tame": 0.0, "mild": 0.03, "wild": 0.15}[profile]
    nsamples = rng.choice([0, 1, 1, 2, 2, 3, 4, 4, 7, 12])
    pool = rng.choice(SAMPLE_NAME_POOLS)
    start = rng.randrange(12)
    samples = [pool(start + i) if pool is not SAMPLE_NAME_POOLS[0] else pool(i) for i in range(nsamples)]
    types = {"PS": rng.choice(["Integer", "Integer", "String"]), "PQ": rng.choice(["Integer", "Integer", "Float"])}
    phase_declared = [k for k in ("PS", "HP", "PQ") if rng.random() < 0.75]
    others_declared = [k for k in ("DP", "GQ", "AD", "FT", "XF", "PSX", "HPQ", "GTX") if rng.random() < 0.5]
    formats = [["GT", "1", "String"]]
    decl = phase_declared + others_declared
    rng.shuffle(decl)
    for k in decl:
        if k == "PS":
            formats.append(["PS", "1", types["PS"]])
        elif k == "HP":
            formats.append(["HP", ".", "String"])
        elif k == "PQ":
            formats.append(["PQ", "1", types["PQ"]])
        else:
            formats.append([k, FORMAT_DEFS[k][0], FORMAT_DEFS[k][1]])
    if rng.random() < 0.2:
        rng.shuffle(formats)
    ncontig = rng.choice([1, 1, 2, 2, 5])
    spec = {"samples": samples, "contigs": ["chrA", "chrB", "chr10", "chr2", "chrM"][:ncontig], "phasing": None,
            "info_tags": [t for t in ("PS", "HP", "PQ") if rng.random() < 0.12],
            "generic_meta": [l for l in GENERIC_META if rng.random() < 0.15],
            "formats": formats, "profile": profile, "records": [],
            "declare_end": True,      # symbolic ALT alleles need INFO/END declared (htslib adds END while reading)
            "no_final_newline": rng.random() < 0.08,
            "channel": rng.choice(["file"] * 6 + ["stdin", "gz", "bcf", "stdin"])}
    spec["meta"] = random_meta(rng, spec)
    nrec = rng.choice([0, 1, 1, 2, 3, 4, 6, 8, 8])
    order = rng.choice(["sorted"] * 5 + ["unsorted", "duplicates"])
    spec["order"] = order
    pos = rng.choice([1, rng.randint(1, 2000), rng.randint(1, 2000)])
    chrom_i = 0
    for _ in range(nrec):
        if order == "unsorted":
            chrom_i = rng.randrange(len(spec["contigs"]))
            pos = rng.randint(1, 20000)
        elif chrom_i + 1 < len(spec["contigs"]) and rng.random() < 0.25:
            chrom_i += 1
            pos = rng.randint(1, 2000)
        ref, alts = gen_alleles(rng)
        nalt = len(alts)
        info = []
        if any(a.startswith("<") for a in alts):
            info.append(f"END={pos + len(ref) - 1}")     # htslib would add it itself otherwise
        if rng.random() < 0.5:
            info.append(f"DP={rng.randint(1, 500)}")
        if nalt and rng.random() < 0.4:
            info.append("AF=" + ",".join(rng.choice(["0.5", "0.25", "0.125", "1"]) for _ in range(nalt)))
        if rng.random() < 0.2:
            info.append("DB")
        for t in spec["info_tags"]:
            if rng.random() < 0.7:
                info.append(f"{t}={rng.randint(1, 9999)}")
        fixed = [spec["contigs"][chrom_i], pos,
                 rng.choice([".", ".", f"rs{rng.randint(1, 9999)}", f"rs{rng.randint(1, 99)};x{rng.randint(1, 99)}"]),
                 ref, ",".join(alts) if alts else ".",
                 rng.choice([".", ".", str(rng.randint(0, 999)), "12.5", "0"]),
                 rng.choice([".", "PASS", "PASS", "q10", "q10;s50"]),
                 ";".join(info) if info else "."]
        rec = {"fixed": fixed, "format": [], "calls": []}
        if nsamples:
            has_gt = rng.random() >= p_nogt
            keys = []
            for k in phase_declared:
                if rng.random() < 0.6:
                    keys.append(k)
            for k in others_declared:
                if rng.random() < 0.5:
                    keys.append(k)
            rng.shuffle(keys)
            if has_gt:
                keys = ["GT"] + keys
            rec["format"] = keys
            # record-level genotype style: independent draws, or everything unphased / descending / phased
            style = rng.choice(["free"] * 4 + ["all-unphased", "all-phased", "descending"])
            for _s in samples:
                wild = rng.random() < p_wild
                call = []
                for k in keys:
                    if k == "GT":
                        g = gen_gt(rng, nalt, wild)
                        if style == "all-unphased":
                            g = g.replace("|", "/")
                        elif style == "all-phased" and "/" in g:
                            g = g.replace("/", "|")
                        elif style == "descending" and "." not in g:
                            al = sorted((int(x) for x in re.split(r"[/|]", g)), reverse=True)
                            g = rng.choice("/|").join(map(str, al))
                        call.append(g)
                    else:
                        call.append(gen_value(rng, k, types, pos, nalt))
                # dropped trailing fields (allowed by the VCF specification)
                if len(call) > 1 and rng.random() < 0.1:
                    call = call[:rng.randint(1, len(call) - 1)]
                rec["calls"].append(call)
        spec["records"].append(rec)
        if order == "duplicates" and rng.random() < 0.5:
            pass                        # the next record gets the same position
        else:
            pos += rng.randint(1, 3000)
    return spec


# -------------------------------------------------------------------- exhaustive single-call space
def exhaustive_gt_texts(max_ploidy):
    """every genotype over alleles {0, 1, .} up to the given ploidy, with all-'/' and all-'|' separators."""
    import itertools
    out = []
    for p in range(1, max_ploidy + 1):
        for al in itertools.product(["0", "1", "."], repeat=p):
            if p == 1:
                out.append(al[0])
            else:
                out.append("/".join(al))
                out.append("|".join(al))
    return out


TAG_VALUES = {"DP": "7", "PS": "100", "HP": "100-1,100-2", "PQ": "30"}


def single_call_spec(gt_text, with_tags=True, fmt=None, call=None, tags=None):
    """one record, one sample.  tags: the FORMAT keys next to GT (default DP PS HP PQ / none); gt_text None = no GT"""
    if fmt is None:
        keys = list(tags) if tags is not None else (["DP", "PS", "HP", "PQ"] if with_tags else [])
        fmt = (["GT"] if gt_text is not None else []) + keys
        call = ([gt_text] if gt_text is not None else []) + [TAG_VALUES[k] for k in keys]
    elif call is None:
        call = [gt_text, "7", "100", "100-1,100-2", "30"][:len(fmt)]
    return {"samples": ["S1"], "contigs": ["chrA"], "phasing": ["whatshap"], "info_ps": False,
            "formats": [["GT", "1", "String"], ["DP", "1", "Integer"], ["PS", "1", "Integer"], ["HP", ".", "String"],
                        ["PQ", "1", "Integer"]], "profile": "single",
            "records": [{"fixed": ["chrA", 100, ".", "A", "C", ".", "PASS", "."], "format": fmt, "calls": [call]}]}


def multi_call_spec(fmt, calls, nrec_before=0):
    """one record with several samples (calls = list of sub-field lists), optionally after plain records"""
    s = single_call_spec("0/1")
    s["samples"] = [f"S{i + 1}" for i in range(len(calls))]
    recs = [{"fixed": ["chrA", 50 + i, ".", "A", "C", ".", "PASS", "."], "format": ["GT"],
             "calls": [["0|1"] for _ in calls]} for i in range(nrec_before)]
    recs.append({"fixed": ["chrA", 100, ".", "A", "C", ".", "PASS", "."], "format": list(fmt), "calls": [list(c) for c in calls]})
    s["records"] = recs
    return s


def with_layout(spec, layout):
    """header layouts for the single-record specs: where the `##phasing` lines sit relative to the tag definitions"""
    base = default_meta({**spec, "phasing": None})

    def before(tag, k=1):
        out = []
        for l in base:
            if l.startswith(f"##FORMAT=<ID={tag},"):
                out += [f"##phasing={tag}{j}" for j in range(k)]
            out.append(l)
        return out
    if layout == "fixed":
        return spec
    spec = dict(spec)
    spec["phasing"] = None
    if layout == "none":
        spec["meta"] = base
    elif layout in ("PS", "HP", "PQ"):
        spec["meta"] = before(layout)
    elif layout == "PS2":
        spec["meta"] = before("PS", 2)
    elif layout == "each":
        m = base
        for t in ("PS", "HP", "PQ"):
            base = m
            m = before(t)
        spec["meta"] = m
    elif layout == "end":
        spec["meta"] = base + ["##phasing=last"]
    elif layout == "reversed":
        spec["meta"] = list(reversed(before("HP"))) + ["##phasing=z"]
    else:
        raise KeyError(layout)
    return spec


LAYOUTS = ["fixed", "PS", "HP", "PQ", "PS2", "each", "none", "end", "reversed"]

# tag sets attached to the exhaustive genotypes: chosen independently of the separator
TAG_SETS = [[], ["PS"], ["HP"], ["PQ"], ["DP", "PS", "HP", "PQ"], ["DP"], ["PS", "PQ"]]


def exhaustive_specs(max_ploidy, full_tags_upto=3):
    """every genotype text of exhaustive_gt_texts; up to ploidy `full_tags_upto` with every tag set, above with a
    tag set cycling over the allele tuples (the same for the '/' and the '|' form of a genotype)"""
    import itertools
    out = []
    n = 0
    k = 0
    for p in range(1, max_ploidy + 1):
        for al in itertools.product(["0", "1", "."], repeat=p):
            texts = [al[0]] if p == 1 else ["/".join(al), "|".join(al)]
            n += 1
            sets = TAG_SETS if p <= full_tags_upto else [TAG_SETS[n % len(TAG_SETS)], TAG_SETS[(n // 7 + 3) % len(TAG_SETS)]]
            seen = []
            for ts in sets:
                if ts in seen:
                    continue
                seen.append(ts)
                lay = LAYOUTS[k % len(LAYOUTS)]      # the same for the '/' and the '|' form
                k += 1
                for t in texts:
                    out.append(with_layout(single_call_spec(t, tags=ts), lay))
    # tag-only records without GT
    for ts in TAG_SETS[1:]:
        for lay in ("fixed", "PS", "each"):
            out.append(with_layout(single_call_spec(None, tags=ts), lay))
    # every header layout with every single tag next to a phased and an unphased diploid genotype
    for lay in LAYOUTS:
        for ts in (["PS"], ["HP"], ["PQ"], ["DP", "PS", "HP", "PQ"], []):
            for t in ("1|0", "1/0"):
                out.append(with_layout(single_call_spec(t, tags=ts), lay))
    return out


def gen_malformed_spec(rng):
    """a generated file in which HP / PS / PQ values occur in records although the header does not declare them
    (not a well-formed VCF: htslib warns and assumes Type=String).  Compared on the exception class only."""
    for _ in range(200):
        spec = gen_spec(rng, profile=rng.choice(["tame", "mild"]))
        used = {k for r in spec["records"] for k in r["format"] if k in PHASE_KEYS}
        if not used or not spec["samples"]:
            continue
        drop = {k for k in used if rng.random() < 0.7} or {sorted(used)[0]}
        spec["meta"] = [l for l in spec["meta"] if not any(l.startswith(f"##FORMAT=<ID={k},") for k in drop)]
        spec["formats"] = [f for f in spec["formats"] if f[0] not in drop]
        spec["profile"] = "malformed"
        spec["undeclared"] = sorted(drop)
        return spec
    raise RuntimeError("could not generate a malformed spec")


# ------------------------------------------------------------------------------------------ parser
class Interner:
    """strings -> small integers (tokens are opaque in the model; only equality matters)"""

    def __init__(self):
        self.tok = {}
        self.keys = {}

    def token(self, s):
        return self.tok.setdefault(s, len(self.tok))

    def key(self, k):
        if k in PHASE_KEYS:
            return PHASE_KEYS[k]
        return self.keys.setdefault(k, 10 + len(self.keys))


def parse_gt_text(t):
    """-> (alleles with None for '.', phased flag = a '|' occurs)"""
    parts = re.split(r"[/|]", t)
    al = []
    for p in parts:
        if p == ".":
            al.append(None)
        else:
            al.append(int(p))
    return al, "|" in t


def canon_value(pv):
    """pysam reports a missing value as None, '.', (None,) or ('.',) depending on the type and on whether the
    trailing field was dropped in the text; all of these are the VCF missing value."""
    if pv is None or pv == ".":
        return None
    if isinstance(pv, tuple):
        t = tuple(None if (x is None or x == ".") else x for x in pv)
        return None if all(x is None for x in t) and len(t) <= 1 else t
    return pv


def parse_vcf(path, text, interner):
    """-> (header lines as (kind, key id, token), records as dicts {fixed: [tokens], calls: [{gt, phased, fields}]}).
    Raw column text and pysam's parsed values are both part of the tokens; GT comes from the raw text and is
    cross-checked against pysam."""
    import pysam
    lines = text.split("\n")
    if lines and lines[-1] == "":
        lines.pop()
    header, body = [], []
    for ln in lines:
        (header if ln.startswith("#") else body).append(ln)
    hl = []
    for ln in header:
        m = re.match(r"##FORMAT=<ID=([^,>]+)", ln)
        if ln.startswith("##phasing="):
            hl.append((0, 0, interner.token(ln)))
        elif m:
            hl.append((1, interner.key(m.group(1)), interner.token(ln)))
        else:
            hl.append((2, 0, interner.token(ln)))
    recs = []
    with pysam.VariantFile(path) as vf:
        prec = list(vf)
        for ln, pr in zip(body, prec):
            cols = ln.split("\t")
            info = []
            for k, v in pr.info.items():
                info.append((k, v))
            view = (pr.chrom, pr.pos, pr.id, pr.ref, pr.alts, pr.qual, tuple(pr.filter.keys()), tuple(info))
            fixed = [interner.token(c) for c in cols[:8]] + [interner.token(repr(view))]
            calls = []
            if len(cols) > 8:
                fmt = [] if cols[8] == "." else cols[8].split(":")
                pkeys = list(pr.format.keys())
                if pkeys != fmt:
                    raise RuntimeError(f"harness: FORMAT keys disagree with pysam: {fmt} vs {pkeys} in {ln!r}")
                for scol, (sname, pcall) in zip(cols[9:], pr.samples.items()):
                    sub = scol.split(":")
                    sub += ["."] * (len(fmt) - len(sub))      # dropped trailing fields are missing values
                    gt, phased, fields = None, False, []
                    for k, v in zip(fmt, sub):
                        if k == "GT":
                            gt, phased = parse_gt_text(v)
                            pg = pcall["GT"]
                            if list(pg) != gt:
                                raise RuntimeError(f"harness: GT parse disagrees with pysam: {gt} vs {pg} in {ln!r}")
                        else:
                            pv = canon_value(pcall[k])
                            fields.append((interner.key(k), interner.token(v + "\x00" + repr(pv))))
                    calls.append({"gt": gt, "phased": phased, "fields": fields})
            recs.append({"fixed": fixed, "calls": calls})
        if len(prec) != len(body):
            raise RuntimeError("harness: pysam and text disagree on the number of records")
    return hl, recs


# ------------------------------------------------------------------------------- Coq term rendering
def z(n):
    return f"({n})" if n < 0 else str(n)


def call_term(c):
    if c["gt"] is None:
        g = "None"
    else:
        g = "(Some [" + "; ".join("None" if a is None else f"Some {z(a)}" for a in c["gt"]) + "])"
    fs = "[" + "; ".join(f"({k}, {t})" for k, t in c["fields"]) + "]"
    return f"mkCall {g} {'true' if c['phased'] else 'false'} {fs}"


def rec_term(r):
    return ("mkRec [" + "; ".join(str(t) for t in r["fixed"]) + "] [" + "; ".join(call_term(c) for c in r["calls"]) + "]")


def recs_term(rs):
    return "[" + "; ".join(rec_term(r) for r in rs) + "]"


def header_term(hl):
    return "[" + "; ".join(f"({k}, {i}, {t})" for k, i, t in hl) + "]"


ERR = {None: "None", "IndexError": "(Some EIndex)", "TypeError": "(Some EType)", "KeyError": "(Some EKey)"}


def fres_term(rs, err):
    return f"({recs_term(rs)}, {ERR[err]})"
