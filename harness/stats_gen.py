"""C12 helpers: generator of VCF files for `whatshap stats`, pysam-based abstraction of a VCF into the
records of coq/model/Stats.v, parsers for the --tsv / --block-list / --gtf outputs, Coq term rendering,
and a fast python re-statement of the specification side (used only to search / shrink / classify;
verdicts come from Coq)."""
import os

from .coqeval import Raw, term

BASES = "ACGT"
CHROM_POOL = ["chrA", "chrB", "chr1", "chr10", "chr2", "chrX", "10", "1", "scaffold_7", "chrM", "chr1_random", "X"]
SAMPLE_STYLES = [["S1", "S2", "S3"], ["B", "A", "C"], ["NA1", "NA10", "NA100"], ["child", "mother", "father"],
                 ["s-1.x", "s_2", "3"], ["sample", "Sample", "SAMPLE"]]

INT_FIELDS = ["variants", "phased", "unphased", "singletons", "blocks", "variant_per_block_min",
              "variant_per_block_max", "variant_per_block_sum", "bp_per_block_min", "bp_per_block_max",
              "bp_per_block_sum", "heterozygous_variants", "heterozygous_snvs", "phased_snvs"]


# ------------------------------------------------------------------------------------------------ generator
def _alleles(rng, kind):
    ref = rng.choice(BASES)
    if kind == "snv":
        return ref, rng.choice([b for b in BASES if b != ref])
    if kind == "ins":
        return ref, ref + "".join(rng.choice(BASES) for _ in range(rng.randint(1, 3)))
    if kind == "del":
        return ref + "".join(rng.choice(BASES) for _ in range(rng.randint(1, 3))), ref
    k = rng.randint(2, 3)   # mnp
    r = "".join(rng.choice(BASES) for _ in range(k))
    a = "".join(rng.choice([b for b in BASES if b != c]) for c in r)
    return r, a


def _set_layout(rng, n, nsets):
    """assign each of n slots a phase-set index (or None = not in a set): contiguous / interleaved / nested / random"""
    if nsets == 0 or n == 0:
        return [None] * n
    style = rng.choice(["contiguous", "interleaved", "nested", "random", "contiguous"])
    out = [None] * n
    if style == "contiguous":
        cuts = sorted(rng.sample(range(n + 1), min(nsets - 1, n + 1))) if nsets > 1 else []
        s, j = 0, 0
        for i in range(n):
            while j < len(cuts) and i >= cuts[j]:
                s += 1
                j += 1
            out[i] = s
    elif style == "interleaved":
        for i in range(n):
            out[i] = rng.randrange(min(nsets, 3)) if rng.random() < 0.3 else i % min(nsets, 2 + (nsets > 2))
    elif style == "nested":
        out = [0] * n
        lo, hi = 0, n
        for s in range(1, nsets):
            if hi - lo < 3:
                break
            a = rng.randint(lo + 1, hi - 2)
            b = rng.randint(a + 1, hi - 1)
            for i in range(a, b):
                out[i] = s
            if rng.random() < 0.5:
                lo, hi = a, b          # next one nested inside this one
            else:
                lo = b                 # next one further right inside the outer set
    else:
        out = [rng.randrange(nsets) for _ in range(n)]
    return out


def _gt_str(alleles, phased):
    sep = "|" if phased else "/"
    return sep.join("." if a is None else str(a) for a in alleles)


def _mix_separators(rng, gt):
    """`0|1/1`: accepted by htslib; pysam reports it as not phased"""
    if gt.count("|") >= 2 and rng.random() < 0.04:
        i = gt.rindex("|")
        return gt[:i] + "/" + gt[i + 1:]
    return gt


def _het_alleles(rng, ploidy):
    while True:
        a = [rng.randint(0, 1) for _ in range(ploidy)]
        if len(set(a)) > 1:
            return a


def gen_case(rng, size="small"):
    """one case: dict(vcf=text, sample, only_snvs, chromosomes (list of --chromosome arguments or None),
    indexed, tags)."""
    tags = {}
    ploidy = rng.choice([2] * 8 + [1, 3, 3, 4, 5])
    nsamples = rng.choice([1, 1, 1, 2, 3])
    style = rng.randrange(len(SAMPLE_STYLES))
    samples = SAMPLE_STYLES[style][:nsamples]
    tags["sample_names"] = style
    nchrom = rng.choice([1, 1, 2, 2, 3, 4, 6])
    chroms = rng.sample(CHROM_POOL, nchrom)
    extra_contigs = [c for c in CHROM_POOL if c not in chroms]
    rng.shuffle(extra_contigs)
    extra_contigs = extra_contigs[:rng.choice([0, 0, 1, 2])]
    miss_rate = rng.choice([0, 0, 0, 0, 0, 0, 0, 0.08, 0.2, 0.5])
    ps_missing = rng.random() < 0.06        # phased heterozygous calls with PS="."
    unsorted = rng.random() < 0.02
    maxrec = {"tiny": 6, "small": 14, "large": 60}[size]
    tags["ploidy"] = ploidy
    tags["miss"] = miss_rate > 0
    lines = []
    hdr = ["##fileformat=VCFv4.2", '##FILTER=<ID=q10,Description="Quality below 10">',
           '##FILTER=<ID=s50,Description="Less than 50% of samples have data">',
           '##INFO=<ID=DP,Number=1,Type=Integer,Description="Total depth">',
           '##FORMAT=<ID=GQ,Number=1,Type=Integer,Description="Genotype quality">',
           '##FORMAT=<ID=PQ,Number=1,Type=Integer,Description="Phasing quality">']
    contigs = list(chroms) + extra_contigs
    no_contig_header = rng.random() < 0.06          # header without ##contig lines (plain VCF only)
    tags["no_contig_header"] = no_contig_header
    decorate = rng.random() < 0.5                   # ID / QUAL / FILTER / INFO and extra FORMAT keys vary
    tags["decorated"] = decorate
    rng.shuffle(contigs)                            # header order is unrelated to file order
    far = {c: rng.random() < 0.08 for c in chroms}  # chromosomes whose records lie beyond position 3e8
    for c in contigs:
        if no_contig_header:
            continue
        if far.get(c):
            hdr.append(f"##contig=<ID={c},length=400000000>")
        elif rng.random() < 0.15:
            hdr.append(f"##contig=<ID={c}>")
        else:
            hdr.append(f"##contig=<ID={c},length={rng.choice([1000, 5000, 20000, 100000])}>")
    hdr += ['##FORMAT=<ID=GT,Number=1,Type=String,Description="Genotype">',
            '##FORMAT=<ID=DP,Number=1,Type=Integer,Description="Depth">',
            '##FORMAT=<ID=PS,Number=1,Type=Integer,Description="Phase set">',
            '##FORMAT=<ID=HP,Number=.,Type=String,Description="Phasing haplotype identifier">',
            "#CHROM\tPOS\tID\tREF\tALT\tQUAL\tFILTER\tINFO\tFORMAT\t" + "\t".join(samples)]
    for c in chroms:
        tagkind = rng.choice(["PS", "PS", "PS", "HP", "HP", "none", "nokey"])
        n = rng.choice([0, 1, 2, 3]) if rng.random() < 0.15 else rng.randint(2, maxrec)
        pos = 300000000 if far[c] else rng.choice([0, 0, rng.randint(1, 50), rng.randint(1, 50)])   # 0: first record may sit at position 1
        indel_rate = rng.choice([0, 0.2, 0.5])
        # per sample: phase-set layout over the record slots
        layouts = {}
        for s in samples:
            nsets = rng.choice([0, 1, 1, 2, 2, 3, 4])
            lay = _set_layout(rng, n, nsets)
            # ids: position-like, small, zero or negative
            base = rng.choice([None, None, None, 0, -5, 7])
            layouts[s] = (lay, base)
        set_first_pos = {s: {} for s in samples}
        recs = []
        for i in range(n):
            x = rng.random()
            if x < 0.06 and i > 0:
                pass                                # duplicated position
            else:
                pos += rng.randint(1, 120)
            kind = "snv" if rng.random() >= indel_rate else rng.choice(["ins", "del", "mnp"])
            ref, alt = _alleles(rng, kind)
            y = rng.random()
            if y < 0.04:
                alt = alt + "," + rng.choice([b for b in BASES if b not in (alt[0], ref[0])] + ["GG"])   # multi-ALT
            elif y < 0.07:
                alt = "."                                                                 # no ALT
            elif y < 0.08 and kind == "snv":
                alt = "*"                                                                 # spanning-deletion allele
            calls = []
            need_ps = False
            for s in samples:
                lay, base = layouts[s]
                si = lay[i]
                in_set = si is not None and rng.random() < 0.85 and tagkind != "none"
                if tagkind == "HP" and base is not None and base < 0:
                    base = 7                                   # "-5-1" is not a parseable HP value
                z = rng.random()
                if z < miss_rate:
                    cls = "missing"
                    form = rng.choice(["./.", "0/.", ".", "./1", "0|.", ".|."])
                    if ploidy == 1:
                        gt = "."
                    elif form == "." and not (tagkind == "HP" and in_set):
                        gt = "."
                    elif form in ("./.", ".|.", "."):
                        gt = ("|" if "|" in form else "/").join(["."] * ploidy)
                    else:
                        al = [rng.choice(["0", "1"]) for _ in range(ploidy)]
                        al[rng.randrange(ploidy)] = "."
                        gt = ("|" if "|" in form else "/").join(al)
                elif z < miss_rate + (1 - miss_rate) * 0.25:
                    a = rng.choice([0, 1])
                    gt, cls = _gt_str([a] * ploidy, rng.random() < 0.3), "hom"
                else:
                    al = _het_alleles(rng, ploidy) if ploidy > 1 else [rng.choice([0, 1])]
                    cls = "het"
                    gt = al
                psv, hpv = ".", "."
                if in_set:
                    key = (s, si)
                    if key not in set_first_pos[s]:
                        set_first_pos[s][key] = pos if base is None else base + si
                    sid = set_first_pos[s][key]
                    if tagkind == "HP":
                        perm = list(range(1, ploidy + 1))
                        rng.shuffle(perm)
                        hpv = ",".join(f"{sid}-{k}" for k in perm)
                        if cls == "het":
                            gt = _gt_str(gt, False)
                        else:
                            gt = gt.replace("|", "/")
                    else:
                        if cls == "het":
                            gt = _gt_str(gt, True)
                            psv = "." if (ps_missing and rng.random() < 0.5) else str(sid)
                        elif "|" in gt:
                            psv = str(sid)
                        need_ps = True
                else:
                    if cls == "het":
                        gt = _gt_str(gt, False)
                    elif "|" in gt and (tagkind in ("HP", "none") or cls == "missing"):
                        gt = gt.replace("|", "/")
                calls.append((_mix_separators(rng, gt), psv, hpv))
            if miss_rate > 0 and rng.random() < 0.03:
                fmt, cols = "DP", [str(rng.randint(1, 40)) for _ in samples]     # record without GT
            elif tagkind == "HP":
                fmt, cols = "GT:HP", [f"{g}:{h}" for g, p, h in calls]
                if all(h == "." for g, p, h in calls) and rng.random() < 0.5:
                    fmt, cols = "GT", [g for g, p, h in calls]
            elif tagkind == "PS" and (need_ps or rng.random() < 0.7):
                fmt, cols = "GT:PS", [f"{g}:{p}" for g, p, h in calls]
            elif tagkind == "nokey":
                fmt, cols = "GT", [g for g, p, h in calls]                        # `0|1` without a PS key -> set 0
            else:
                fmt, cols = "GT", [g for g, p, h in calls]
                if tagkind == "PS":
                    # phased genotypes need the PS column, otherwise they would silently join set 0
                    cols = [g.replace("|", "/") for g in cols]
            vid, qual, flt, info = ".", ".", ".", "."
            if decorate:
                vid = rng.choice([".", f"rs{rng.randint(1, 999)}"])
                qual = rng.choice([".", "0", "9.5", "50"])
                flt = rng.choice([".", "PASS", "PASS", "q10", "q10;s50"])
                info = rng.choice([".", f"DP={rng.randint(0, 90)}"])
                if fmt != "DP" and rng.random() < 0.5:
                    keys = fmt.split(":")
                    extra = rng.choice(["GQ", "PQ"])
                    at = rng.randint(1, len(keys))            # anywhere behind GT
                    keys.insert(at, extra)
                    fmt = ":".join(keys)
                    newcols = []
                    for col in cols:
                        f = col.split(":")
                        f.insert(at, rng.choice([".", str(rng.randint(0, 99))]))
                        newcols.append(":".join(f))
                    cols = newcols
            recs.append((pos, f"{c}\t{pos}\t{vid}\t{ref}\t{alt}\t{qual}\t{flt}\t{info}\t{fmt}\t" + "\t".join(cols)))
        if unsorted and len(recs) >= 3:
            i = rng.randrange(len(recs) - 1)
            recs[i], recs[i + 1] = recs[i + 1], recs[i]
            tags["unsorted"] = True
        lines += [r[1] for r in recs]
    # input container: plain text, bgzip without index, bgzip + tbi / csi index, BCF without / with index
    if tags.get("unsorted") or no_contig_header:
        container = "vcf"
    else:
        container = rng.choice(["vcf"] * 6 + ["gz", "gz+tbi", "gz+tbi", "gz+csi", "bcf", "bcf+csi"])
    tags["container"] = container
    if rng.random() < 0.08 and len(chroms) >= 2 and container == "vcf" and not tags.get("unsorted"):
        # a chromosome that comes back after another one (accepted without an index): reported twice
        first = [l for l in lines if l.startswith(chroms[0] + "\t")]
        if len(first) >= 2:
            k = len(first) // 2
            lines = [l for l in lines if l not in first[k:]] + first[k:]
            tags["noncontiguous"] = True
    case = {"vcf": "\n".join(hdr + lines) + "\n", "sample": None, "only_snvs": rng.random() < 0.3,
            "chromosomes": None, "indexed": "+" in container, "container": container, "tags": tags}
    if rng.random() < 0.25:
        case["outputs"] = rng.choice([["tsv"], ["tsv", "bl"], ["tsv", "gtf"]])     # which output options are given
    if rng.random() < 0.5 and nsamples > 1 or rng.random() < 0.2:
        case["sample"] = rng.choice(samples)
    if rng.random() < 0.15:
        # --chr-lengths FILE overrides the header's contig lengths (used for NG50 only)
        names = [c for c in contigs if rng.random() < 0.7]
        case["chr_lengths"] = {c: rng.choice([300, 1000, 5000, 40000]) for c in names}
    if rng.random() < 0.35:
        pool = list(chroms)
        if case["indexed"]:
            pool += extra_contigs                   # header contigs without records: empty table when fetched
        else:
            pool += ["chrNotThere"]
        k = rng.randint(1, max(1, min(3, len(pool))))
        sel = rng.sample(pool, k)
        if rng.random() < 0.5:
            case["chromosomes"] = [",".join(sel)] if rng.random() < 0.7 else [",".join(sel) + ","]
        else:
            case["chromosomes"] = sel
        if rng.random() < 0.08:
            case["chromosomes"] = case["chromosomes"] + [sel[0]]      # a name given twice
            tags["dup_chromosome_arg"] = True
    elif rng.random() < 0.05:
        case["chromosomes"] = [rng.choice(["", ",", ",,"])]           # unpacks to nothing: all chromosomes
    return case


EXH_HEADER = ("##fileformat=VCFv4.2\n##contig=<ID=chrA,length=2000>\n"
              '##FORMAT=<ID=GT,Number=1,Type=String,Description="Genotype">\n'
              '##FORMAT=<ID=PS,Number=1,Type=Integer,Description="Phase set">\n'
              '##FORMAT=<ID=HP,Number=.,Type=String,Description="Phasing haplotype identifier">\n'
              "#CHROM\tPOS\tID\tREF\tALT\tQUAL\tFILTER\tINFO\tFORMAT\tS1\n")
# one-sample, one-chromosome alphabets: symbol -> (REF, ALT, FORMAT, call)
EXH_ALPHABET = {
    "PS": {"a": ("A", "C", "GT:PS", "0|1:7"), "b": ("A", "C", "GT:PS", "1|0:3"), "u": ("A", "C", "GT:PS", "0/1:."),
           "h": ("A", "C", "GT:PS", "1|1:7"), "m": ("A", "C", "GT:PS", "./.:."), "p": ("A", "C", "GT:PS", "0|.:7"),
           "i": ("AT", "A", "GT:PS", "0|1:7")},
    "HP": {"a": ("A", "C", "GT:HP", "0/1:7-1,7-2"), "b": ("A", "C", "GT:HP", "0/1:3-2,3-1"), "u": ("A", "C", "GT:HP", "0/1:."),
           "h": ("A", "C", "GT:HP", "1/1:7-1,7-2"), "m": ("A", "C", "GT:HP", "./.:."), "p": ("A", "C", "GT:HP", "./.:7-2,7-1"),
           "i": ("AT", "A", "GT:HP", "0/1:7-2,7-1")},
}


def gen_exhaustive(maxlen, mode="PS", symbols="abuhmpi"):
    """every sequence of call kinds up to maxlen on one chromosome (positions 100, 200, ...); sequences that
    contain an indel are also run with --only-snvs"""
    import itertools
    alpha = EXH_ALPHABET[mode]
    for n in range(1, maxlen + 1):
        for seq in itertools.product(symbols, repeat=n):
            lines = []
            for k, sym in enumerate(seq):
                ref, alt, fmt, call = alpha[sym]
                lines.append(f"chrA\t{100 * (k + 1)}\t.\t{ref}\t{alt}\t.\t.\t.\t{fmt}\t{call}")
            base = {"vcf": EXH_HEADER + "\n".join(lines) + "\n", "sample": None, "only_snvs": False, "chromosomes": None,
                    "indexed": False, "tags": {"exhaustive": mode, "ploidy": 2, "miss": ("m" in seq or "p" in seq)}}
            yield base
            if "i" in seq:
                yield dict(base, only_snvs=True)


# ---- several chromosomes on ONE coordinate grid (blocks of different chromosomes at overlapping coordinates)
GRID_CALL = {"a": "0|1:10", "b": "1|0:20", "c": "0|1:30", "u": "0/1:.", "h": "1/1:.", "m": "./.:."}
GRID_CHROMS = ["chr1", "chr2", "chr3"]


def _grid_case(layouts, offsets, only_snvs=False, chromosomes=None, indel_slots=(), tag="grid"):
    """layouts: one string per chromosome over GRID_CALL symbols and '-' (no record in that slot); slot k of
    chromosome j lies at position 100*(k+1) + offsets[j]"""
    hdr = ["##fileformat=VCFv4.2"] + [f"##contig=<ID={c},length=5000>" for c in GRID_CHROMS[:len(layouts)]]
    hdr += ['##FORMAT=<ID=GT,Number=1,Type=String,Description="Genotype">',
            '##FORMAT=<ID=PS,Number=1,Type=Integer,Description="Phase set">',
            "#CHROM\tPOS\tID\tREF\tALT\tQUAL\tFILTER\tINFO\tFORMAT\tS1"]
    lines = []
    for j, lay in enumerate(layouts):
        for k, sym in enumerate(lay):
            if sym == "-":
                continue
            ref, alt = ("AT", "A") if (j, k) in indel_slots else ("A", "C")
            lines.append(f"{GRID_CHROMS[j]}\t{100 * (k + 1) + offsets[j]}\t.\t{ref}\t{alt}\t.\t.\t.\tGT:PS\t{GRID_CALL[sym]}")
    return {"vcf": "\n".join(hdr + lines) + "\n", "sample": None, "only_snvs": only_snvs, "chromosomes": chromosomes,
            "indexed": False, "tags": {tag: True, "ploidy": 2, "miss": any("m" in l for l in layouts)}}


def gen_grid_exhaustive(L):
    """two chromosomes on one grid: chr1 = every layout of two phase sets with >= 2 members each over L slots
    (contiguous, interleaved, nested), chr2 = every layout of one phase set with >= 2 members among unphased
    calls; chr2 on the same grid and shifted by half a slot"""
    import itertools
    first = ["".join(t) for t in itertools.product("ab", repeat=L) if t.count("a") >= 2 and t.count("b") >= 2]
    second = ["".join(t) for t in itertools.product("cu", repeat=L) if t.count("c") >= 2]
    for l1 in first:
        for l2 in second:
            for off in (0, 50):
                yield _grid_case([l1, l2], [0, off], tag="grid_exhaustive")


def gen_grid_random(rng):
    """2-3 chromosomes on one grid, random layouts of up to three phase sets / unphased / homozygous / missing /
    empty slots, per-chromosome shifts, sometimes indels with --only-snvs, sometimes --chromosome"""
    k = rng.choice([2, 3, 3])
    L = rng.randint(4, 8)
    layouts = []
    for _ in range(k):
        alpha = rng.choice(["ab", "abu", "abcu", "abcuh-", "cu", "au-", "abm"])
        layouts.append("".join(rng.choice(alpha) for _ in range(L)))
    offsets = [rng.choice([0, 0, 50, -30, 20]) for _ in range(k)]
    indel = set()
    only = False
    if rng.random() < 0.25:
        indel = {(rng.randrange(k), rng.randrange(L)) for _ in range(rng.randint(1, 3))}
        only = rng.random() < 0.6
    chroms = None
    if rng.random() < 0.2:
        sel = rng.sample(GRID_CHROMS[:k], rng.randint(1, k))
        chroms = [",".join(sel)]
    return _grid_case(layouts, offsets, only_snvs=only, chromosomes=chroms, indel_slots=indel, tag="grid_random")


# ---- one chromosome, 3-4 mutually interleaved phase sets
MULTI_PS = {"a": 10, "b": 20, "c": 30, "d": 40}


def _canonical_strings(L, kmax):
    """restricted-growth strings: every way to distribute L slots over <= kmax phase sets, up to renaming the sets"""
    out = []

    def rec(prefix, used):
        if len(prefix) == L:
            out.append(prefix)
            return
        for j in range(min(used + 1, kmax)):
            rec(prefix + "abcd"[j], max(used, j + 1))
    rec("", 0)
    return out


def _multi_case(layout, positions=None, tag="multi"):
    hdr = ["##fileformat=VCFv4.2", "##contig=<ID=chr1,length=5000>",
           '##FORMAT=<ID=GT,Number=1,Type=String,Description="Genotype">',
           '##FORMAT=<ID=PS,Number=1,Type=Integer,Description="Phase set">',
           "#CHROM\tPOS\tID\tREF\tALT\tQUAL\tFILTER\tINFO\tFORMAT\tS1"]
    lines = []
    for k, sym in enumerate(layout):
        pos = positions[k] if positions else 100 * (k + 1)
        call = {"u": "0/1:.", "h": "1/1:."}.get(sym) or f"0|1:{MULTI_PS[sym]}"
        lines.append(f"chr1\t{pos}\t.\tA\tC\t.\t.\t.\tGT:PS\t{call}")
    return {"vcf": "\n".join(hdr + lines) + "\n", "sample": None, "only_snvs": False, "chromosomes": None,
            "indexed": False, "tags": {tag: True, "ploidy": 2, "miss": False}}


def gen_multi_exhaustive(lengths, kmax):
    """every assignment of L slots (L in lengths) to <= kmax phase sets (up to renaming) in which at least two sets
    have >= 2 members: all interleavings / nestings of up to kmax sets"""
    for L in lengths:
        for lay in _canonical_strings(L, kmax):
            if sum(1 for c in set(lay) if lay.count(c) >= 2) >= 2:
                yield _multi_case(lay, tag="multi_exhaustive")


def gen_multi_random(rng):
    L = rng.randint(6, 10)
    k = rng.choice([3, 3, 4])
    alpha = "abcd"[:k] + rng.choice(["", "", "u", "uh"])
    lay = "".join(rng.choice(alpha) for _ in range(L))
    pos, p = [], rng.randint(1, 60)
    for _ in range(L):
        pos.append(p)
        p += rng.choice([1, 10, 50, 100, 400])
    return _multi_case(lay, pos, tag="multi_random")


def gen_n50_boundary(rng):
    """NG50 threshold: --chr-lengths puts half the target length exactly at / just below / just above a prefix sum of
    the piece lengths in descending order (n50 returns the first length whose running total reaches 0.5 * target)"""
    case = gen_multi_random(rng)
    sets = {}
    for line in case["vcf"].split("\n"):
        if line.startswith("chr1\t"):
            f = line.split("\t")
            ps = f[9].split(":")[1]
            if "|" in f[9] and ps != ".":
                sets.setdefault(ps, []).append(int(f[1]))
    pieces = sorted(o_pieces(list(sets.values())), reverse=True)
    if pieces:
        k = rng.randint(1, len(pieces))
        delta = rng.choice([-1, 0, 0, 1])
        target = max(1, 2 * sum(pieces[:k]) + delta)
        case["tags"]["n50_delta"] = delta
    else:
        target = 1000
    case["chr_lengths"] = {"chr1": target}
    case["tags"]["n50_boundary"] = True
    return case


def empty_case(with_contigs):
    hdr = ["##fileformat=VCFv4.2"] + (["##contig=<ID=chrA,length=1000>", "##contig=<ID=chrB,length=1000>"] if with_contigs else [])
    hdr += ['##FORMAT=<ID=GT,Number=1,Type=String,Description="Genotype">',
            "#CHROM\tPOS\tID\tREF\tALT\tQUAL\tFILTER\tINFO\tFORMAT\tS1"]
    return {"vcf": "\n".join(hdr) + "\n", "sample": None, "only_snvs": False, "chromosomes": None, "indexed": False,
            "tags": {"empty_file": True, "ploidy": 2, "miss": False}}


# ------------------------------------------------------------------------------------------------ abstraction
def unpack_chromosomes(chromosomes):
    out = []
    for e in chromosomes or []:
        out += [c for c in e.split(",") if c != ""]
    return out


def abstract_vcf(path, sample):
    """pysam (trusted parser) -> (samples, header contigs [(name, length|None)], groups [(chrom, [rec])]) where
    rec = dict(pos, snv, nalts, gt (tuple|None), phased, ps ('absent'|'missing'|int), hp (int|None))."""
    import pysam
    pysam.set_verbosity(0)           # header-less contigs are part of the input distribution; htslib's warnings are noise
    vf = pysam.VariantFile(path)
    samples = list(vf.header.samples)
    sel = sample if sample is not None else samples[0]
    contigs = [(c.name, c.length) for c in vf.header.contigs.values()]
    groups = []
    for r in vf:
        call = r.samples[sel]
        try:
            gt = call["GT"]
        except KeyError:
            gt = None
        try:
            ps = call["PS"]
            ps = "missing" if ps is None else int(ps)
        except KeyError:
            ps = "absent"
        hp = call.get("HP")
        if not hp or any(x is None or x == "." for x in hp):
            hpid = None
        else:
            ids = {int(x.split("-")[0]) for x in hp}
            assert len(ids) == 1, hp
            hpid = ids.pop()
        alts = r.alts or ()
        rec = dict(pos=r.start, snv=(len(r.ref) == 1 and all(len(a) == 1 for a in alts)), nalts=len(alts),
                   gt=None if gt is None else tuple(gt), phased=bool(call.phased), ps=ps, hp=hpid)
        if not groups or groups[-1][0] != r.chrom:
            groups.append((r.chrom, []))
        groups[-1][1].append(rec)
    vf.close()
    return samples, contigs, groups


def chrom_ids(contigs, groups, given):
    ids = {}
    for name in [c for c, _ in contigs] + [c for c, _ in groups] + list(given):
        if name not in ids:
            ids[name] = len(ids) + 1
    return ids


# ------------------------------------------------------------------------------------------------ output parsing
def parse_outputs(tsv, bl, gtf, ids):
    rows, allrow = [], None
    with open(tsv) as f:
        lines = [l.rstrip("\n").split("\t") for l in f]
    head = [h.lstrip("#") for h in lines[0]]
    for l in lines[1:]:
        d = dict(zip(head, l))
        vals = [int(d[k]) for k in INT_FIELDS]
        n50 = None if d["block_n50"] == "nan" else int(float(d["block_n50"]))
        if d["chromosome"] == "ALL":
            assert allrow is None
            allrow = (vals, n50)
        else:
            rows.append((ids[d["chromosome"]], (vals, n50)))
    bls = []
    with open(bl) as f:
        for l in list(f)[1:]:
            s, c, k, a, b, n = l.rstrip("\n").split("\t")
            bls.append((ids[c], None if k == "None" else int(k), int(a), int(b), int(n)))
    gs = []
    with open(gtf) as f:
        for l in f:
            p = l.rstrip("\n").split("\t")
            name = p[8].split('"')[1]
            gs.append((ids[p[0]], int(p[3]), int(p[4]), int(name)))
    return {"rows": rows, "all": allrow, "bl": bls, "gtf": gs}


# ------------------------------------------------------------------------------------------------ Coq rendering
def z(x):
    return f"({x})" if x < 0 else str(x)


def rec_term(r):
    if r["gt"] is None:
        gt = "None"
    else:
        gt = "(Some [" + "; ".join("None" if a is None else f"Some {z(a)}" for a in r["gt"]) + "])"
    ps = {"absent": "PSAbsent", "missing": "PSMissing"}.get(r["ps"]) or f"(PSVal {z(r['ps'])})"
    hp = "None" if r["hp"] is None else f"(Some {z(r['hp'])})"
    return (f"mkRec {z(r['pos'])} {'true' if r['snv'] else 'false'} {r['nalts']}%nat "
            f"(mkCall {gt} {'true' if r['phased'] else 'false'} {ps} {hp})")


def dstats_term(d):
    vals, n50 = d
    return "(mkD " + " ".join(z(v) for v in vals) + " " + ("None" if n50 is None else f"(Some {z(n50)})") + ")"


def out_term(out):
    if isinstance(out, str):
        return f"(RErr {out})"
    rows = "[" + "; ".join(f"({z(c)}, {dstats_term(d)})" for c, d in out["rows"]) + "]"
    allr = "None" if out["all"] is None else f"(Some {dstats_term(out['all'])})"
    bl = "[" + "; ".join(f"({z(c)}, ({'None' if k is None else f'Some {z(k)}'}, {z(a)}, {z(b)}, {z(n)}))"
                         for c, k, a, b, n in out["bl"]) + "]"
    gtf = "[" + "; ".join(f"({z(c)}, ({z(s)}, {z(e)}, {z(i)}))" for c, s, e, i in out["gtf"]) + "]"
    return f"(ROk (mkOut {rows} {allr} {bl} {gtf}))"


def error_kind(stderr):
    """exception class of an aborted run (small enum shared with Stats.errkind)"""
    if "VcfNotSortedError" in stderr:
        return "ENotSorted"
    if "VcfInvalidChromosome" in stderr:
        return "EInvalidContig"
    if "TypeError: '<' not supported between instances of" in stderr and "NoneType" in stderr:
        return "ETypeError"
    return "EOther"


def case_term(only_snvs, indexed, contigs, groups, given, ids, out):
    """((only_snvs, indexed), header, groups, given, impl output)"""
    header = "[" + "; ".join(f"({ids[c]}, {'None' if l is None else f'Some {l}'})" for c, l in contigs) + "]"
    gr = "[" + ";\n  ".join(f"({ids[c]}, [" + "; ".join(rec_term(r) for r in recs) + "])" for c, recs in groups) + "]"
    gv = "[" + "; ".join(str(ids[c]) for c in given) + "]"
    return (f"((({'true' if only_snvs else 'false'}, {'true' if indexed else 'false'}), {header},\n  {gr},\n  "
            f"{gv}, {out_term(out)}) : case_t)")


# ------------------------------------------------------------------------------------------------ python oracle
def _fully(gt):
    return gt is not None and len(gt) > 0 and all(a is not None for a in gt)


def o_het(r):
    return _fully(r["gt"]) and len(set(r["gt"])) > 1


def o_set(r):
    if r["hp"] is not None:
        return r["hp"]
    if r["phased"]:
        if r["ps"] == "missing":
            return None                 # `|` genotype with PS=".": names no phase set
        return r["ps"] if isinstance(r["ps"], int) else 0
    return None


def o_counted(only_snvs, recs):
    seen, out = set(), []
    for r in recs:
        if r["nalts"] == 1 and (not only_snvs or r["snv"]):
            if r["pos"] not in seen:
                seen.add(r["pos"])
                out.append(r)
    return out


def o_pieces(sets):
    """lengths of the non-overlapping pieces of the phase sets with >= 2 members (position lists): the leftmost
    block is cut at the start of the next one; what lies behind the end of that one goes back into the queue"""
    import bisect
    queue = sorted([sorted(v) for v in sets if len(v) >= 2], key=lambda b: b[0])
    out = []
    while queue:
        b = queue.pop(0)
        if queue and b[-1] > queue[0][0]:
            nxt = queue[0]
            left = [p for p in b if p < nxt[0]]
            right = [p for p in b if p > nxt[-1]]
            if len(right) >= 2:
                keys = [q[0] for q in queue]
                queue.insert(bisect.bisect_right(keys, right[0]), right)
            if len(left) >= 2:
                out.append(left[-1] - left[0])
        else:
            out.append(b[-1] - b[0])
    return out


def o_spec(only_snvs, recs):
    cs = o_counted(only_snvs, recs)
    hs = [r for r in cs if o_het(r)]
    sets = {}
    for r in hs:
        s = o_set(r)
        if s is not None:
            sets.setdefault(s, []).append(r)
    big = {k: v for k, v in sets.items() if len(v) > 1}
    ph = [r for r in hs if o_set(r) in big]
    sizes = [len(v) for v in big.values()]
    ppos = [r["pos"] for r in ph]
    return dict(variants=len(cs), het=len(hs), hetsnv=sum(r["snv"] for r in hs), phased=len(ph),
                unphased=sum(1 for r in hs if o_set(r) is None),
                singletons=sum(1 for v in sets.values() if len(v) == 1), blocks=len(big),
                vmin=min(sizes) if sizes else 0, vmax=max(sizes) if sizes else 0, phsnv=sum(r["snv"] for r in ph),
                span=(max(ppos) - min(ppos)) if ppos else 0,
                pieces=o_pieces([[r["pos"] for r in v] for v in sets.values()]),
                bl=[(k, min(r["pos"] for r in v) + 1, max(r["pos"] for r in v) + 1, len(v)) for k, v in sorted(sets.items())])


def oracle_l1(only_snvs, groups, given, ids, out):
    """python mirror of Stats.l1_run (search/classification only)."""
    if out is None or isinstance(out, str):
        return False
    gmap = {}
    for c, recs in groups:
        gmap.setdefault(ids[c], recs)
    rowids = [c for c, _ in out["rows"]]
    for cid, (v, n50) in out["rows"]:
        d = dict(zip(INT_FIELDS, v))
        s = o_spec(only_snvs, gmap.get(cid, []))
        bl = [(k, a, b, n) for c, k, a, b, n in out["bl"] if c == cid]
        if d["phased"] + d["unphased"] + d["singletons"] != d["heterozygous_variants"]:
            return False
        if d["variant_per_block_sum"] != d["phased"] or sum(n for *_, n in bl if n > 1) != d["phased"]:
            return False
        if sum(1 for *_, n in bl if n > 1) != d["blocks"] or sum(1 for *_, n in bl if n == 1) != d["singletons"]:
            return False
        if (d["variants"], d["heterozygous_variants"], d["heterozygous_snvs"], d["phased"], d["unphased"],
                d["singletons"], d["blocks"], d["variant_per_block_min"], d["variant_per_block_max"], d["phased_snvs"]) != \
                (s["variants"], s["het"], s["hetsnv"], s["phased"], s["unphased"], s["singletons"], s["blocks"],
                 s["vmin"], s["vmax"], s["phsnv"]):
            return False
        if not (0 <= d["bp_per_block_min"] <= d["bp_per_block_max"] <= d["bp_per_block_sum"] <= s["span"]):
            return False
        pc = s["pieces"]
        if (d["bp_per_block_min"], d["bp_per_block_max"], d["bp_per_block_sum"]) != ((min(pc), max(pc), sum(pc)) if pc else (0, 0, 0)):
            return False
        if bl != s["bl"]:
            return False
        ext = {k: (a, b) for k, a, b, n in s["bl"]}
        last = None
        for c, st, en, i in out["gtf"]:
            if c != cid:
                continue
            if i not in ext or not (ext[i][0] <= st <= en <= ext[i][1] and (last is None or last < st)):
                return False
            last = en
    if out["all"] is not None:
        tot = [0] * len(INT_FIELDS)
        nb = 0
        for cid, (v, _) in out["rows"]:
            d = dict(zip(INT_FIELDS, v))
            for j, k in enumerate(INT_FIELDS):
                if k.endswith("_min"):
                    if d["blocks"] > 0:
                        tot[j] = v[j] if nb == 0 else min(tot[j], v[j])
                elif k.endswith("_max"):
                    if d["blocks"] > 0:
                        tot[j] = v[j] if nb == 0 else max(tot[j], v[j])
                else:
                    tot[j] += v[j]
            nb += d["blocks"]
        if tot != out["all"][0]:
            return False
    gids = [ids[c] for c, _ in groups]
    if not given:
        if rowids != gids:
            return False
    else:
        gv = [ids[c] for c in given]
        if any(c not in gv for c in rowids) or any(c in gids and c not in rowids for c in gv):
            return False
    if any(c not in rowids for c, *_ in out["bl"]) or any(c not in rowids for c, *_ in out["gtf"]):
        return False
    return True


def missing_gt(r):
    return not _fully(r["gt"])


def ps_missing_phased(r):
    gt = r["gt"]
    return (r["hp"] is None and r["phased"] and r["ps"] == "missing" and gt is not None and len(gt) > 0
            and any(a != gt[0] for a in gt))
