"""Extraction driver for C10, executed in a subprocess against the scratch build (harness.util.run_py).

It follows run_haplotag up to and including the call of prepare_haplotag_information, calling the *real*
functions (VcfReader(phases=True), compute_variant_file_samples_to_use, compute_shared_samples,
normalize_user_regions, load_chromosome_variants, prepare_haplotag_information with a recording wrapper
around PhasedInputReader.read) and dumps what the Gallina model takes as data: the order in which the
real code processes the samples, the parsed regions, per chromosome and sample the variant table column
and the read set the real ReadSetReader detected.
stdin: json {vcf, bam, ref (path or None), opts}; stdout: one json object.
"""
import inspect
import json
import sys


def main():
    req = json.load(sys.stdin)
    import logging
    logging.disable(logging.CRITICAL)
    import pysam
    from whatshap.cli import haplotag as H
    from whatshap.cli import PhasedInputReader
    from whatshap.core import NumericSampleIds
    from whatshap.utils import Region
    from whatshap.vcf import VcfReader

    o = req["opts"]
    ploidy = o.get("ploidy", 2)
    out = {"error": None}
    try:
        vcf_reader = VcfReader(req["vcf"], only_snvs=False, phases=True, ploidy=ploidy)
        use = H.compute_variant_file_samples_to_use(vcf_reader.samples, o.get("samples"), o["ignore_read_groups"])
        bam_reader = pysam.AlignmentFile(req["bam"], require_index=True)
        shared = H.compute_shared_samples(bam_reader, o["ignore_read_groups"], use)
        out["samples_order"] = list(shared)
        refs = list(bam_reader.references)
        out["references"] = refs
        user_regions = H.normalize_user_regions(o.get("regions"), bam_reader.references)
        out["norm_regions"] = [[c, [[s, e] for s, e in rs]] for c, rs in user_regions.items()]
        raw = []
        if o.get("regions") is not None:
            for spec in o["regions"]:
                r = Region.parse(spec)
                raw.append([r.chromosome, r.start, r.end])
        out["raw_regions"] = raw
        reference = req.get("ref")
        pir = PhasedInputReader([req["bam"]], reference if reference else None, NumericSampleIds(),
                                o["ignore_read_groups"], only_snvs=False, duplicates=True)
        has_alignments = H.contigs_with_alignments(bam_reader)
        chroms = {}

        class Spy:
            """records, in call order, the (sample, read set) pairs prepare_haplotag_information asks for"""
            def __init__(self):
                self.calls = []

            def read(self, chromosome, variants, sample, regions=None):
                rs, x = pir.read(chromosome, variants, sample, regions=regions)
                self.calls.append((sample, [v.position for v in variants], rs))
                return rs, x
        order = None
        for chrom, regions in user_regions.items():
            if chrom not in has_alignments:
                continue
            table = H.load_chromosome_variants(vcf_reader, chrom, regions)
            spy = Spy()
            # the real function decides the sample order (set iteration / sorted(...)) and what is read
            extra = ((o["ignore_read_groups"],)
                     if "ignore_read_groups" in inspect.signature(H.prepare_haplotag_information).parameters else ())
            H.prepare_haplotag_information(table, shared, spy, regions, o["ignore_linked_read"],
                                           50000 if o.get("cutoff") is None else o["cutoff"], ploidy, *extra)
            entry = {"rows": {}, "reads": {}}
            this_order = [c[0] for c in spy.calls]
            if order is None:
                order = this_order
            elif order != this_order:
                raise RuntimeError(f"sample order differs between chromosomes: {order} / {this_order}")
            for sample, vpos, read_set in spy.calls:
                genotypes = table.genotypes_of(sample)
                phases = table.phases_of(sample)
                rows = []
                for v, gt, ph in zip(table.variants, genotypes, phases):
                    if ph is None or ph.block_id is None:
                        p = None
                    else:
                        p = [int(ph.block_id), [int(x) for x in ph.phase]]
                    rows.append([v.position, bool(gt.is_homozygous()), p])
                entry["rows"][sample] = rows
                entry["variant_positions_" + sample] = vpos
                reads = []
                for read in read_set:
                    reads.append([read.name, read.reference_start, read.BX_tag if read.has_BX_tag() else None,
                                  [[v.position, v.allele, v.quality] for v in read]])
                entry["reads"][sample] = reads
            chroms[chrom] = entry
        if order is not None:
            out["samples_order"] = order
        out["chroms"] = chroms
    except BaseException as e:  # the CLI run decides what an error means; here it is only recorded
        out["error"] = f"{type(e).__name__}: {e}"
    json.dump(out, sys.stdout)


if __name__ == "__main__":
    main()
