#!/venv/bin/python
"""Confirm a seeded breaking change and run the registered checks against it.

usage: harness/seedtest.py <seed-id> <patch.diff> <demo file> --props C18[,C03] [--what "..."] [--needs "..."]
                           [--demo-cmd "python demo.py"] [--skip-tests]

Steps (all in a scratch worktree of /repo under /tmp, removed afterwards; /repo itself is never touched):
  1. demo on the unchanged tree must exit 0; 2. apply the patch, rebuild in place; demo must exit non-zero;
  3. the repository's test suite must still pass (430, only the 3 known failures);
  4. every named check is run with WHVERIF_REPO=<worktree> (quick tier) and must exit 1 with a VIOLATION line.
Results are stored in /verif/seeded/<seed-id>/ (patch.diff, demo, meta.json).
"""
import argparse
import glob
import json
import os
import re
import shutil
import subprocess
import sys
import time

VERIF = os.path.dirname(os.path.dirname(os.path.abspath(__file__)))
PY = "/venv/bin/python"
SEED_BUILD = "/var/tmp/whverif-build-seed"


def sh(cmd, cwd=None, env=None, timeout=3600):
    r = subprocess.run(cmd, shell=True, cwd=cwd, env=env, stdout=subprocess.PIPE, stderr=subprocess.STDOUT, text=True,
                       timeout=timeout)
    return r.returncode, r.stdout


def main():
    ap = argparse.ArgumentParser()
    ap.add_argument("seed_id")
    ap.add_argument("patch")
    ap.add_argument("demo")
    ap.add_argument("--props", required=True)
    ap.add_argument("--what", default="")
    ap.add_argument("--needs", default="")
    ap.add_argument("--demo-cmd", default=None)
    ap.add_argument("--skip-tests", action="store_true")
    ap.add_argument("--tier", default="quick")
    a = ap.parse_args()
    props = a.props.split(",")
    wt = f"/tmp/st-{a.seed_id}"
    global SEED_BUILD
    SEED_BUILD = f"/var/tmp/whverif-build-seed-{a.seed_id}"    # own build root: seed runs can go in parallel
    shutil.rmtree(SEED_BUILD, ignore_errors=True)
    if os.path.isdir("/var/tmp/whverif-build/tree"):
        sh(f"cp -a /var/tmp/whverif-build {SEED_BUILD}")
    sh(f"git -C /repo worktree remove --force {wt}")
    shutil.rmtree(wt, ignore_errors=True)
    rc, out = sh(f"git -C /repo worktree add -q --detach {wt} HEAD")
    assert rc == 0, out
    old_meta = {}
    try:
        old_meta = json.load(open(os.path.join(VERIF, "seeded", a.seed_id, "meta.json")))
    except Exception:
        pass
    meta = {"seed_id": a.seed_id, "breaks": props, "what": a.what or old_meta.get("what", ""),
            "needs_to_manifest": a.needs or old_meta.get("needs_to_manifest", ""),
            "earlier_runs": old_meta.get("earlier_runs", []) + ([{"caught_by": old_meta.get("caught_by"),
                                                                 "base_commit": old_meta.get("base_commit")}] if old_meta else []),
            "base_commit": sh("git -C /repo rev-parse HEAD")[1].strip(), "ran": []}
    try:
        # reuse /repo's in-place build outputs (git-ignored) so that only touched modules are rebuilt
        for so in glob.glob("/repo/whatshap/**/*.so", recursive=True):
            dst = os.path.join(wt, os.path.relpath(so, "/repo"))
            shutil.copy2(so, dst)
            os.utime(dst, None)
        for cpp in ["core", "align", "_variants", "priorityqueue", "readselect", "polyphase/solver"]:
            src = f"/repo/whatshap/{cpp}.cpp"
            if os.path.exists(src):
                shutil.copy2(src, os.path.join(wt, "whatshap", cpp + ".cpp"))
                os.utime(os.path.join(wt, "whatshap", cpp + ".cpp"), None)
        if os.path.isdir("/repo/build"):
            shutil.copytree("/repo/build", os.path.join(wt, "build"), dirs_exist_ok=True)
        demo_name = os.path.basename(a.demo)
        shutil.copy(a.demo, os.path.join(wt, demo_name))
        demo_cmd = a.demo_cmd or (f"{PY} -m pytest -q -p no:cacheprovider {demo_name}" if demo_name.startswith("test_")
                                  else f"{PY} {demo_name}")
        env = dict(os.environ, PYTHONPATH=wt, PYTHONHASHSEED="0")
        env.pop("WHATSHAP_VERIF_TRACE", None)
        rc0, out0 = sh(demo_cmd, cwd=wt, env=env)
        meta["ran"].append({"cmd": demo_cmd + "  # unchanged tree", "exit": rc0, "tail": out0[-300:]})
        rc, out = sh(f"git apply {os.path.abspath(a.patch)}", cwd=wt)
        assert rc == 0, "patch does not apply: " + out
        rc, out = sh(f"{PY} setup.py build_ext --inplace -j16", cwd=wt, env=dict(os.environ, SETUPTOOLS_SCM_PRETEND_VERSION="0.0.seed"))
        meta["ran"].append({"cmd": "setup.py build_ext --inplace", "exit": rc})
        assert rc == 0, out[-2000:]
        rc1, out1 = sh(demo_cmd, cwd=wt, env=env)
        meta["ran"].append({"cmd": demo_cmd + "  # with the change", "exit": rc1, "tail": out1[-600:]})
        meta["demo_passes_without"] = rc0 == 0
        meta["demo_fails_with"] = rc1 != 0
        if not a.skip_tests:
            rct, outt = sh(f"{PY} -m pytest -q -p no:cacheprovider --timeout=900 -x --deselect tests/test_run_phase.py::test_vcf_with_missing_headers "
                           f"--ignore={demo_name}", cwd=wt, env=env)
            m = re.search(r"(\d+) passed", outt)
            meta["tests_passed"] = int(m.group(1)) if m else 0
            meta["tests_exit"] = rct
            meta["ran"].append({"cmd": "pytest (existing suite, minus the 3 known failures)", "exit": rct, "tail": outt[-300:]})
        os.unlink(os.path.join(wt, demo_name))
        meta["checks"] = {}
        for pid in props:
            t0 = time.time()
            envc = dict(os.environ, WHVERIF_REPO=wt, WHVERIF_BUILD_ROOT=SEED_BUILD, VERIF_SEED=os.environ.get("VERIF_SEED", "1"))
            rcc, outc = sh(f"./check {pid} --tier {a.tier}", cwd=VERIF, env=envc, timeout=7200)
            vio = [l for l in outc.splitlines() if l.startswith("VIOLATION")]
            meta["checks"][pid] = {"exit": rcc, "violation_lines": vio[:5], "wall_s": round(time.time() - t0),
                                   "first_report": next((l for l in outc.splitlines() if l.startswith(f"[{pid}] (")), "")[:500]}
            # evidence files written by this run describe the seeded tree: restore the committed ones
            sh(f"git checkout -- evidence/{pid}.json", cwd=VERIF)
        meta["caught_by"] = [p for p, c in meta["checks"].items() if c["exit"] == 1 and c["violation_lines"]]
        d = os.path.join(VERIF, "seeded", a.seed_id)
        os.makedirs(d, exist_ok=True)
        for src, dst in ((a.patch, os.path.join(d, "patch.diff")), (a.demo, os.path.join(d, demo_name))):
            if os.path.abspath(src) != os.path.abspath(dst):
                shutil.copy(src, dst)
        if a.skip_tests and "tests_passed" in old_meta:
            meta["tests_passed"] = old_meta["tests_passed"]
        json.dump(meta, open(os.path.join(d, "meta.json"), "w"), indent=1)
        print(json.dumps({k: meta[k] for k in ("seed_id", "demo_passes_without", "demo_fails_with", "caught_by")
                          if k in meta} | {"tests_passed": meta.get("tests_passed"),
                                           "checks": {p: (c["exit"], c["violation_lines"][:1]) for p, c in meta["checks"].items()}},
                         indent=1))
    finally:
        sh(f"git -C /repo worktree remove --force {wt}")
        shutil.rmtree(wt, ignore_errors=True)
        shutil.rmtree(SEED_BUILD, ignore_errors=True)


if __name__ == "__main__":
    main()
