"""C16 helpers: regenerable scenarios (input files) and the jobs (subcommand invocations whose output
files are compared across configurations), canonicalisers for VCF/BAM/TSV outputs, and the pure-python
re-implementation of libstdc++'s std::hash<std::string> used to supply hash values as *data* to the
Coq comparator model (validated against the observed order of the real ReadSet.sort, never trusted).

Everything is a function of (kind, seed, params): a replay file stores only those.
"""
import hashlib
import os
import random

from . import synth

M64 = (1 << 64) - 1


# ------------------------------------------------------------------------------------------- hash
def std_hash_bytes(b, seed=0xC70F6907):
    """libstdc++ _Hash_bytes (64-bit murmur variant) = std::hash<std::string> on x86-64/gcc."""
    mul = ((0xC6A4A793 << 32) + 0x5BD1E995) & M64

    def sm(v):
        return v ^ (v >> 47)
    n = len(b)
    h = (seed ^ (n * mul)) & M64
    al = n & ~7
    for i in range(0, al, 8):
        d = int.from_bytes(b[i:i + 8], "little")
        d = (sm((d * mul) & M64) * mul) & M64
        h ^= d
        h = (h * mul) & M64
    if n & 7:
        h ^= int.from_bytes(b[al:], "little")
        h = (h * mul) & M64
    h = (sm(h) * mul) & M64
    return sm(h)


def name_source_hash(name, source):
    """name_and_source_id_hasher_t: hash<string>(name) ^ hash<int>(source_id) (int -> size_t sign-extends)."""
    return std_hash_bytes(name.encode()) ^ (source & M64)


# ------------------------------------------------------------------------------- canonicalisers
def digest(s):
    """63-bit digest of one canonical record (rendered as a Coq Z)."""
    if isinstance(s, str):
        s = s.encode()
    return int.from_bytes(hashlib.blake2b(s, digest_size=8).digest(), "big") >> 1


def canon_text(path, drop_prefixes=("##commandline=",)):
    """VCF / TSV / BED / GTF / FASTQ text: every line except the recorded command line."""
    with open(path, "rb") as f:
        data = f.read()
    if data[:2] == b"\x1f\x8b":
        import gzip
        data = gzip.decompress(data)
    out = []
    for line in data.decode("utf-8", "replace").split("\n"):
        if any(line.startswith(p) for p in drop_prefixes):
            continue
        out.append(line)
    if out and out[-1] == "":
        out.pop()
    return out


def canon_bam(path):
    """BAM: header lines (CL field of @PG lines = the recorded command line removed), then every
    record in file order as its full SAM text (tags in stored order)."""
    import pysam
    out = []
    with pysam.AlignmentFile(path, check_sq=False) as af:
        for line in str(af.header).split("\n"):
            if not line:
                continue
            if line.startswith("@PG"):
                line = "\t".join(f for f in line.split("\t") if not f.startswith("CL:"))
            out.append("H " + line)
        for a in af.fetch(until_eof=True):
            out.append(a.to_string())
    return out


def canon_cram(path, ref):
    import pysam
    out = []
    with pysam.AlignmentFile(path, reference_filename=ref, check_sq=False) as af:
        for line in str(af.header).split("\n"):
            if not line:
                continue
            if line.startswith("@PG"):
                line = "\t".join(f for f in line.split("\t") if not f.startswith("CL:"))
            if line.startswith("@SQ"):      # CRAM writers add M5/UR to @SQ; the UR path is not a result
                line = "\t".join(f for f in line.split("\t") if not f.startswith("UR:"))
            out.append("H " + line)
        for a in af.fetch(until_eof=True):
            out.append(a.to_string())
    return out


class _Canon(dict):
    def __getitem__(self, kind):
        if kind.startswith("cram:"):
            ref = kind[5:]
            return lambda path: canon_cram(path, ref)
        return dict.__getitem__(self, kind)


CANON = _Canon({"text": canon_text, "bam": canon_bam})


def is_header(kind, rec):
    if kind == "bam" or kind.startswith("cram:"):
        return rec.startswith("H ")
    return rec.startswith("#")


def classify_diff(kind, a, b):
    """how two canonical record lists differ: header-order / header-content / record-order / record-content"""
    ha, hb = [r for r in a if is_header(kind, r)], [r for r in b if is_header(kind, r)]
    da, db = [r for r in a if not is_header(kind, r)], [r for r in b if not is_header(kind, r)]
    if da != db:
        return "record-order" if sorted(da) == sorted(db) else "record-content"
    if ha != hb:
        return "header-order" if sorted(ha) == sorted(hb) else "header-content"
    return "same"


def first_diff(a, b):
    for i, (x, y) in enumerate(zip(a, b)):
        if x != y:
            return i, x[:300], y[:300]
    if len(a) != len(b):
        return min(len(a), len(b)), f"<{len(a)} records>", f"<{len(b)} records>"
    return None


# ------------------------------------------------------------------------------------- scenarios
class Job:
    """One subcommand invocation. args: list with '{out}' placeholders (the per-run output directory);
    outputs: {label: (relative path under out, kind)}; 'stdout' as a path means captured stdout.
    dims: which configuration dimensions apply beside the hash seed ('threads', 'output_threads').
    feat: features of the input used to name a failure class."""

    def __init__(self, name, sub, args, outputs, dims=(), feat=None, expect_fail=False, stdin=None):
        self.name, self.sub, self.args, self.outputs, self.dims = name, sub, args, outputs, tuple(dims)
        self.stdin = stdin      # path of a file fed to standard input
        self.feat = feat or {}
        self.expect_fail = expect_fail

    def argv(self, out, cfg):
        a = [self.sub]
        if "threads" in self.dims:
            a += ["--threads", str(cfg.get("threads", 1))]
        if "output_threads" in self.dims:
            a += ["--output-threads", str(cfg.get("output_threads", 1))]
        return a + [x.replace("{out}", out) if isinstance(x, str) else str(x) for x in self.args]


def _rand_name(rng, used):
    while True:
        n = "".join(rng.choice("abcdefghkmnpqrstuvwxyzABCDEFGH0123456789_") for _ in range(rng.randint(2, 7)))
        if n[0].isdigit() or n in used or n == "0":
            continue
        used.add(n)
        return n


def _tabix(path):
    import pysam
    gz = path + ".gz"
    for p in (gz, gz + ".tbi"):
        if os.path.exists(p):
            os.remove(p)
    pysam.tabix_index(path, preset="vcf", force=True, keep_original=True)
    return gz


def _sub_scenario(sc, samples, rename=None):
    rename = rename or {}
    return synth.Scenario(sc.ref, sc.variants, [rename.get(s, s) for s in samples],
                          {rename.get(s, s): sc.haps[s] for s in samples})


def _phase_sets(rng, sc, unphased_fraction=0.15, nsets=2):
    """{sample: {chrom: {variant index: ps}}}: the true haplotypes cut into `nsets` phase sets per
    chromosome; a few het variants left unphased; homozygous ones unphased."""
    ph = {}
    for s in sc.samples:
        ph[s] = {}
        for c in sc.chroms:
            n = len(sc.variants[c])
            cuts = sorted(rng.sample(range(1, n), min(nsets - 1, max(0, n - 1)))) if n > 1 else []
            d, start = {}, 0
            bounds = cuts + [n]
            for b in bounds:
                idx = [i for i in range(start, b) if sc.haps[s][c][i][0] != sc.haps[s][c][i][1]
                       and rng.random() >= unphased_fraction]
                if idx:
                    ps = sc.variants[c][idx[0]].pos + 1
                    for i in idx:
                        d[i] = ps
                start = b
            ph[s][c] = d
    return ph


def _flip_some(rng, sc, p=0.25):
    """a copy of the scenario with some haplotype pairs swapped (another 'phasing' of the same genotypes)"""
    haps = {s: {c: [((b, a) if rng.random() < p else (a, b)) for a, b in sc.haps[s][c]] for c in sc.chroms}
            for s in sc.samples}
    return synth.Scenario(sc.ref, sc.variants, list(sc.samples), haps)


def write_bam_rg(sc, reads, path, rg_per_sample=None, rng=None, unmapped=0):
    """Like synth.write_bam, but every sample may own several read groups (ID = <sample>.<k>, SM = sample,
    header order shuffled) and each read picks one of its sample's groups (key 'rg' is stored on the read)."""
    import pysam
    samples = []
    for s in list(sc.samples) + [r["sample"] for r in reads]:
        if s not in samples:
            samples.append(s)
    rg_per_sample = rg_per_sample or {}
    rgs = []
    for s in samples:
        k = rg_per_sample.get(s, 1)
        rgs += [(s if k == 1 else f"{s}.{i}", s) for i in range(k)]
    if rng is not None:
        rng.shuffle(rgs)
    by_sample = {}
    for rid, sm in rgs:
        by_sample.setdefault(sm, []).append(rid)
    header = {"HD": {"VN": "1.6", "SO": "coordinate"}, "SQ": [{"SN": c, "LN": len(sc.ref[c])} for c in sc.chroms],
              "RG": [{"ID": rid, "SM": sm} for rid, sm in rgs]}
    opmap = {"M": 0, "I": 1, "D": 2, "N": 3, "S": 4, "H": 5, "P": 6, "=": 7, "X": 8}
    tid = {c: i for i, c in enumerate(sc.chroms)}
    rs = sorted(reads, key=lambda r: (tid[r["chrom"]], r["start"]))
    with pysam.AlignmentFile(path, "wb", header=header) as out:
        for r in rs:
            if "rg" not in r:
                r["rg"] = rng.choice(by_sample[r["sample"]]) if rng is not None else by_sample[r["sample"]][0]
            a = pysam.AlignedSegment(out.header)
            a.query_name = r["name"]
            a.query_sequence = r["seq"]
            a.flag = r.get("flag", 0)
            a.reference_id = tid[r["chrom"]]
            a.reference_start = r["start"]
            a.mapping_quality = r.get("mapq", 60)
            a.cigartuples = [(opmap[o], n) for o, n in r["cigar"]]
            q = r.get("qual", 30)
            a.query_qualities = pysam.qualitystring_to_array(chr(33 + q) * len(r["seq"])) if isinstance(q, int) else q
            if "mate_start" in r:
                a.next_reference_id = tid[r["chrom"]]
                a.next_reference_start = r["mate_start"]
            a.set_tags([("RG", r["rg"])] + list(r.get("tags", [])))
            out.write(a)
        for k in range(unmapped):
            a = pysam.AlignedSegment(out.header)
            a.query_name = f"unmapped{k}"
            a.query_sequence = "ACGT" * 10
            a.flag = 4
            a.query_qualities = pysam.qualitystring_to_array("I" * 40)
            a.set_tags([("RG", rgs[k % len(rgs)][0])])
            out.write(a)
    pysam.index(path)
    return path


def special_alignments(rng, sc, sample, chrom, n):
    """supplementary (split) alignments, a secondary and a duplicate-flagged alignment of `sample`"""
    out = []
    pairs = synth.simulate_reads(rng, sc, sample, chrom, n, len_range=(50, 120), paired_fraction=1.0,
                                 name_prefix=f"{sample}_{chrom}_sup")
    by = {}
    for r in pairs:
        by.setdefault(r["name"], []).append(r)
    for nm, rs in by.items():
        if len(rs) != 2:
            continue
        a, b = sorted(rs, key=lambda r: r["start"])
        seq = a["seq"] + b["seq"]
        out.append(dict(a, seq=seq, cigar=list(a["cigar"]) + [("S", len(b["seq"]))], flag=0, qual=30))
        out[-1].pop("mate_start", None)
        sup = dict(b, seq=seq, cigar=[("S", len(a["seq"]))] + list(b["cigar"]), flag=0x800, qual=30)
        sup.pop("mate_start", None)
        out.append(sup)
    extra = synth.simulate_reads(rng, sc, sample, chrom, 2, len_range=(60, 150), name_prefix=f"{sample}_{chrom}_flag")
    for r, fl in zip(extra, (0x100, 0x400)):
        r["flag"] = fl
    return out + extra


def _consistent(opts, rng, chroms):
    """whatshap rejects --genmap without exactly one --chromosome and --use-ped-samples together with --sample"""
    if "--use-ped-samples" in opts:
        out, skip = [], False
        for o in opts:
            if skip:
                skip = False
                continue
            if o == "--sample":
                skip = True
                continue
            out.append(o)
        opts = out
    if "--genmap" in opts and "--chromosome" not in opts:
        opts = opts + ["--chromosome", rng.choice(chroms)]
    return opts


def option_jobs(rng, d, sc, f, names, trios, one, ph, feat):
    """Jobs that walk through the option space of every subcommand: sample / chromosome subsets (in any order),
    --ignore-read-groups, algorithms, tags, several input files, compressed output, regions, extra outputs."""
    V, B, T = "text", "bam", "text"
    jobs = []
    R = ["--reference", f["ref"]]
    chroms = list(sc.chroms)
    # auxiliary files
    L = max(len(x) for x in sc.ref.values())
    f["genmap"] = os.path.join(d, "genetic.map")
    with open(f["genmap"], "w") as fh:
        fh.write("position COMBINED_rate(cM/Mb) Genetic_Map(cM)\n")
        cm = 0.0
        for pos in range(1, L + 50, 50):
            cm += rng.choice([0.0, 0.01, 0.5])
            fh.write(f"{pos} {rng.choice([0.5, 1.0, 3.0])} {cm}\n")
    f["chrlen"] = os.path.join(d, "chr.lengths")
    with open(f["chrlen"], "w") as fh:
        for c in sorted(chroms, key=lambda x: rng.random()):
            fh.write(f"{c}\t{len(sc.ref[c])}\n")
    # phased VCF that lacks the last chromosome entirely (header contig and records): haplotag --skip-missing-contigs
    sub = synth.Scenario({c: sc.ref[c] for c in chroms[:-1]}, {c: sc.variants[c] for c in chroms[:-1]}, list(sc.samples),
                         {s: {c: sc.haps[s][c] for c in chroms[:-1]} for s in sc.samples})
    f["phased_sub_gz"] = _tabix(synth.write_vcf(sub, os.path.join(d, "phased_sub.vcf"),
                                               phased={s: {c: ph[s][c] for c in chroms[:-1]} for s in sc.samples}))
    f["unphased_gz"] = _tabix(f["unphased"])

    def some_samples(k=None):
        k = k or rng.randint(1, min(3, len(names)))
        return rng.sample(names, k)         # arbitrary order on the command line

    def sample_args(ss):
        out = []
        for x in ss:
            out += ["--sample", x]
        return out
    # ---- phase
    for k in range(3):
        alg = "whatshap" if k in (0, 2) else rng.choice(["heuristic", "hapchat"])
        opts = ["--algorithm", alg, "--tag", rng.choice(["PS", "HP"])]
        if k == 2 or rng.random() < 0.3:
            opts.append("--merge-reads")
        if rng.random() < 0.3:
            opts.append("--only-snvs")
        if alg != "whatshap":
            opts += sample_args(some_samples(1))    # hapchat / heuristic only work on one sample at a time
        elif rng.random() < 0.5:
            opts += sample_args(some_samples())
        if rng.random() < 0.4:
            opts += ["--chromosome", rng.choice(chroms)]
        if rng.random() < 0.3 and alg != "hapchat":
            opts.append("--distrust-genotypes")
            if rng.random() < 0.5:
                opts.append("--include-homozygous")
        if alg == "whatshap" and (rng.random() < 0.5 or k == 0):
            opts += ["--ped", f["ped"]]
            opts += [["--genmap", f["genmap"]], ["--no-genetic-haplotyping"], [], ["--use-ped-samples"]][
                0 if k == 0 else rng.randrange(4)]
        opts = _consistent(opts, rng, chroms)
        ext = "vcf.gz" if k == 0 else rng.choice(["vcf", "vcf", "vcf.gz"])
        jobs.append(Job(f"phase-opts{k}", "phase", opts + R + ["-o", "{out}/out." + ext, "--output-read-list",
                                                               "{out}/readlist.tsv", f["unphased"], f["bam"]],
                        {"vcf": ("out." + ext, V), "read-list": ("readlist.tsv", T)},
                        feat=dict(feat, options=" ".join(opts), out_ext=ext)))
    # hapchat / heuristic on ONE sample (where they work): many exact repetitions, since hapchat's output was seen to
    # differ between identical runs about once in 60-300 (heap over-read in make_super_reads)
    for alg, rep in (("hapchat", 8), ("heuristic", 2)):
        for sx in rng.sample(names, 2):
            jobs.append(Job(f"phase-{alg}-single-{len(jobs)}", "phase", ["--algorithm", alg, "--sample", sx, "--tag",
                                                                        rng.choice(["PS", "HP"])] + R +
                            ["-o", "{out}/out.vcf", "--output-read-list", "{out}/readlist.tsv", f["unphased"], f["bam"]],
                            {"vcf": ("out.vcf", V), "read-list": ("readlist.tsv", T)},
                            feat=dict(feat, nsamples=1, options=f"--algorithm {alg} --sample", repeats=rep)))
    # the known broken corner (sample-id assertion on multi-sample input): exercises the identical-failure path
    jobs.append(Job("phase-hapchat-multisample", "phase", ["--algorithm", "hapchat"] + R + ["-o", "{out}/out.vcf", f["unphased"],
                                                                                           f["bam"]],
                    {"vcf": ("out.vcf", V)}, feat=dict(feat, options="--algorithm hapchat (all samples)")))
    s1 = rng.choice(names)
    jobs.append(Job("phase-ignore-read-groups", "phase", ["--ignore-read-groups", "--sample", s1] + R +
                    ["-o", "{out}/out.vcf", f["unphased"], f["bam"]], {"vcf": ("out.vcf", V)},
                    feat=dict(feat, options="--ignore-read-groups --sample")))
    jobs.append(Job("phase-two-bams", "phase", R + ["-o", "{out}/out.vcf", "--output-read-list", "{out}/readlist.tsv",
                                                    f["unphased"], f["bam_b"], f["bam_a"]],
                    {"vcf": ("out.vcf", V), "read-list": ("readlist.tsv", T)}, feat=dict(feat, input_files=2)))
    jobs.append(Job("phase-bam-and-vcf-input", "phase", R + ["-o", "{out}/out.vcf", f["unphased"], f["bam_a"], f["phased2"],
                                                             f["bam_b"]],
                    {"vcf": ("out.vcf", V)}, feat=dict(feat, input_files=3, phased_vcf_input=True)))
    # ---- genotype
    for k in range(2):
        opts = []
        if k == 1 or (k > 1 and rng.random() < 0.5):
            opts.append("--no-priors")
        if rng.random() < 0.4:
            opts.append("--only-snvs")
        if rng.random() < 0.5:
            opts += sample_args(some_samples())
        if rng.random() < 0.4:
            opts += ["--chromosome", rng.choice(chroms)]
        if rng.random() < 0.5:
            opts += ["--ped", f["ped"]] + rng.choice([[], ["--use-ped-samples"], ["--genmap", f["genmap"]]])
        opts = _consistent(opts, rng, chroms)
        outs = {"vcf": ("out.vcf", V)}
        if "--no-priors" not in opts:
            opts += ["--prioroutput", "{out}/prior.vcf"]
            outs["prior-vcf"] = ("prior.vcf", V)
        jobs.append(Job(f"genotype-opts{k}", "genotype", opts + R + ["-o", "{out}/out.vcf", f["unphased"], f["bam"]], outs,
                        feat=dict(feat, options=" ".join(o for o in opts if not o.startswith("{")))))
    jobs.append(Job("genotype-two-bams", "genotype", R + ["-o", "{out}/out.vcf", f["unphased"], f["bam_b"], f["bam_a"]],
                    {"vcf": ("out.vcf", V)}, feat=dict(feat, input_files=2)))
    # ---- haplotag
    hl = {"bam": ("out.bam", B), "haplotag-list": ("list.tsv", T)}
    hbase = R + ["-o", "{out}/out.bam", "--output-haplotag-list", "{out}/list.tsv"]
    regs = []
    for c in sorted(chroms, key=lambda x: rng.random())[:2]:
        lo = rng.randint(1, len(sc.ref[c]) // 2)
        regs += ["--regions", rng.choice([c, f"{c}:{lo}", f"{c}:{lo}-{lo + rng.randint(50, 300)}"])]
    jobs.append(Job("haplotag-regions", "haplotag", regs + hbase + [f["phased_gz"], f["bam"]], dict(hl),
                    dims=("output_threads",), feat=dict(feat, bx=True, options="--regions x2")))
    jobs.append(Job("haplotag-samples", "haplotag", sample_args(some_samples(2)) + ["--tag-supplementary"] + hbase +
                    [f["phased_gz"], f["bam"]], dict(hl), dims=("output_threads",),
                    feat=dict(feat, bx=True, options="--sample x2 --tag-supplementary")))
    jobs.append(Job("haplotag-ignore-read-groups", "haplotag", ["--ignore-read-groups", "--sample", s1] + hbase +
                    [f["phased_gz"], f["bam"]], dict(hl), dims=("output_threads",),
                    feat=dict(feat, bx=True, nsamples=1, options="--ignore-read-groups --sample")))
    jobs.append(Job("haplotag-skip-missing-contigs", "haplotag", ["--skip-missing-contigs"] + hbase +
                    [f["phased_sub_gz"], f["bam"]], dict(hl), dims=("output_threads",),
                    feat=dict(feat, bx=True, options="--skip-missing-contigs")))
    # ---- haplotagphase
    hopts = rng.choice([["--only-indels"], ["--no-mav"], ["--chromosome", rng.choice(chroms)]])
    jobs.append(Job("haplotagphase-opts", "haplotagphase", hopts + R + ["-o", "{out}/out.vcf", f["partial_gz"], f["tagged"]],
                    {"vcf": ("out.vcf", V)}, feat=dict(feat, options=" ".join(hopts))))
    # ---- stats / compare / unphase / split
    jobs.append(Job("stats-first-sample", "stats", ["--tsv", "{out}/stats.tsv", "--block-list", "{out}/blocks.tsv",
                                                    "--chr-lengths", f["chrlen"], "--chromosome", rng.choice(chroms),
                                                    f["phased"]],
                    {"tsv": ("stats.tsv", T), "block-list": ("blocks.tsv", T)},
                    feat=dict(feat, options="--chr-lengths --chromosome (no --sample)")))
    jobs.append(Job("compare-two-named", "compare", ["--sample", rng.choice(names), "--names", "truth,other", "--tsv-pairwise",
                                                     "{out}/pair.tsv", "--longest-block-tsv", "{out}/longest.tsv",
                                                     "--switch-error-bed", "{out}/switch.bed", f["phased"], f["phased3"]],
                    {"tsv-pairwise": ("pair.tsv", T), "longest-block-tsv": ("longest.tsv", T),
                     "switch-error-bed": ("switch.bed", T)}, feat=dict(feat, options="--names, 2 files")))
    jobs.append(Job("unphase-gz", "unphase", [f["phased_gz"]], {"vcf": ("stdout", V)}, feat=dict(feat, options="gz input")))
    # FASTQ (gzip) input and output, 2-column list
    import gzip
    f["one_fq"] = os.path.join(d, "one.fastq.gz")
    two = os.path.join(d, "haplotags2.tsv")
    names_in_bam = []
    with gzip.open(f["one_fq"], "wt") as fh:
        import pysam
        seenq = set()
        with pysam.AlignmentFile(f["one_bam"]) as af:
            for a in af:
                if a.is_secondary or a.is_supplementary or a.query_name in seenq:
                    continue
                seenq.add(a.query_name)
                fh.write(f"@{a.query_name}\n{a.query_sequence}\n+\n{'I' * len(a.query_sequence)}\n")
    with open(two, "w") as fh:
        for line in open(f["list"]):
            if not line.startswith("#"):
                fh.write("\t".join(line.split("\t")[:2]) + "\n")
    jobs.append(Job("split-fastq-gz-2col", "split", ["--output-h1", "{out}/h1.fastq.gz", "--output-h2", "{out}/h2.fastq.gz",
                                                     "--output-untagged", "{out}/untagged.fastq.gz",
                                                     "--read-lengths-histogram", "{out}/hist.tsv", f["one_fq"], two],
                    {"h1": ("h1.fastq.gz", T), "h2": ("h2.fastq.gz", T), "untagged": ("untagged.fastq.gz", T),
                     "histogram": ("hist.tsv", T)}, feat=dict(feat, options="fastq.gz, 2-column list")))
    return jobs


def build_diploid(rng, d, params):
    """Multi-sample (trio + optional unrelated samples), several chromosomes, reads with BX barcodes
    shared across samples, phased/unphased/noisy VCFs, PED, tagged BAM + haplotag list."""
    os.makedirs(d, exist_ok=True)
    used = set()
    nextra = params.get("extra_samples", 1)
    nchrom = params.get("nchrom", 2)
    names = [_rand_name(rng, used) for _ in range(3 + nextra)]
    chroms = [f"chr{x}" for x in rng.sample(["A", "B", "C", "7", "X", "10"], nchrom)]
    chroms.sort(key=lambda x: rng.random())
    sc = synth.make_scenario(rng, nchrom=nchrom, nsamples=len(names), nvars=rng.randint(6, 10),
                             kinds=("snv", "snv", "ins", "del", "mnp"), het_fraction=0.75,
                             sample_names=names, chrom_names=chroms)
    ch, fa, mo = names[:3]
    trios = [(ch, fa, mo)]
    if params.get("second_trio") and len(names) >= 6:
        trios.append(tuple(names[3:6]))         # a second family in the same PED / VCF / BAM
    for tch, tfa, tmo in trios:
        for c in sc.chroms:
            sc.haps[tch][c], _ = synth.inherit(rng, sc.haps[tfa][c], sc.haps[tmo][c], recomb_prob=0.1)
    f = {}
    f["ref"] = synth.write_fasta(sc, os.path.join(d, "ref.fa"))
    f["unphased"] = synth.write_vcf(sc, os.path.join(d, "unphased.vcf"))
    # genotype errors (het written for a homozygous truth) so that --distrust-genotypes changes calls
    ov = {}
    for c in sc.chroms:
        for i in range(len(sc.variants[c])):
            if rng.random() < 0.3:
                for s in names[:3]:
                    a, b = sc.haps[s][c][i]
                    if a == b and rng.random() < 0.8:
                        ov[(s, c, i)] = "0/1"
    f["noisy"] = synth.write_vcf(sc, os.path.join(d, "noisy.vcf"), gt_override=ov)
    ph = _phase_sets(rng, sc)
    f["phased"] = synth.write_vcf(sc, os.path.join(d, "phased.vcf"), phased=ph)
    f["phased_gz"] = _tabix(f["phased"])
    sc2, sc3 = _flip_some(rng, sc, 0.0), _flip_some(rng, sc, 0.1)
    f["phased2"] = synth.write_vcf(sc2, os.path.join(d, "phased2.vcf"), phased=_phase_sets(rng, sc2, 0.05, 3))
    f["phased3"] = synth.write_vcf(sc3, os.path.join(d, "phased3.vcf"), phased=_phase_sets(rng, sc3, 0.3, 1))
    # single-sample files of the same individual under different sample names (compare --ignore-sample-name)
    one = names[rng.randrange(len(names))]
    alias = [_rand_name(rng, used) for _ in range(3)]
    for k, (scx, al) in enumerate(zip((sc, sc, sc2), alias)):
        sub = _sub_scenario(scx, [one], {one: al})
        f[f"single{k}"] = synth.write_vcf(sub, os.path.join(d, f"single{k}.vcf"), phased=_phase_sets(rng, sub, 0.1, 2))
    # partially phased input for haplotagphase: phase information of ~half of the phased variants removed
    part = {s: {c: {i: ps for i, ps in ph[s][c].items() if rng.random() < 0.5} for c in sc.chroms} for s in sc.samples}
    f["partial"] = synth.write_vcf(sc, os.path.join(d, "partial.vcf"), phased=part)
    f["partial_gz"] = _tabix(f["partial"])
    ped_lines = list(trios)
    rng.shuffle(ped_lines)
    f["ped"] = synth.write_ped(os.path.join(d, "family.ped"), ped_lines)
    # reads: BX barcodes from a small pool shared by all samples; some reads cover no variant
    reads = []
    barcodes = [f"BC{k:02d}-1" for k in range(rng.randint(2, 5))]
    for s in names:
        for c in sc.chroms:
            deep = params.get("deep", False)
            rs = synth.simulate_reads(rng, sc, s, c, rng.randint(30, 60) if deep else rng.randint(6, 12),
                                      len_range=(60, 260), paired_fraction=0.2)
            if deep:
                rs = noisy_reads(rng, rs, error_rate=0.02)
            for r in rs:
                if rng.random() < 0.75:
                    r["tags"] = [("BX", rng.choice(barcodes))]
            reads += rs
            if params.get("special_alignments", True) and rng.random() < 0.6:
                reads += special_alignments(rng, sc, s, c, 2)
    rgn = {s: rng.choice([1, 2, 3]) for s in names} if params.get("multi_rg", True) else {}
    f["bam"] = write_bam_rg(sc, reads, os.path.join(d, "reads.bam"), rgn, rng, unmapped=rng.randint(0, 3))
    # the same alignments spread over two files (different source ids inside whatshap)
    half = [[], []]
    for r in reads:
        half[rng.randrange(2)].append(r)
    f["bam_a"] = write_bam_rg(sc, half[0], os.path.join(d, "reads_a.bam"), rgn, None)
    f["bam_b"] = write_bam_rg(sc, half[1], os.path.join(d, "reads_b.bam"), rgn, None)
    # tagged BAM (HP/PS from the truth, as haplotag would write them) and the haplotag list
    tagged = []
    lines = ["#readname\thaplotype\tphaseset\tchromosome"]
    seen = set()
    for r in sorted(reads, key=lambda r: (sc.chroms.index(r["chrom"]), r["start"])):
        s, c = r["sample"], r["chrom"]
        cov = [i for i, v in enumerate(sc.variants[c]) if r["start"] <= v.pos < r["start"] + _reflen(r)
               and i in ph[s][c]]
        t = dict(r)
        hapname, psname = "none", "none"
        if cov and rng.random() < 0.85:
            ps = ph[s][c][cov[0]]
            t["tags"] = list(r.get("tags", [])) + [("HP", r["hap"] + 1), ("PC", 30 * len(cov)), ("PS", ps)]
            hapname, psname = f"H{r['hap'] + 1}", str(ps)
        tagged.append(t)
        if s == one and (r["name"], c) not in seen and not r.get("flag", 0) & (0x80 | 0x100 | 0x800):
            seen.add((r["name"], c))
            lines.append(f"{r['name']}\t{hapname}\t{psname}\t{c}")
    f["tagged"] = write_bam_rg(sc, tagged, os.path.join(d, "tagged.bam"), rgn, None)
    f["one_bam"] = write_bam_rg(_sub_scenario(sc, [one]), [r for r in reads if r["sample"] == one],
                                os.path.join(d, "one.bam"), rgn, None)
    f["list"] = os.path.join(d, "haplotags.tsv")
    with open(f["list"], "w") as fh:
        fh.write("\n".join(lines) + "\n")

    feat = dict(nsamples=len(names), nchrom=nchrom, families=len(trios), singletons=len(names) - 3 * len(trios),
                rg_per_sample_max=max(rgn.values()) if rgn else 1, deep=bool(params.get("deep")),
                special_alignments=sum(1 for r in reads if r.get("flag", 0) & (0x800 | 0x100 | 0x400)),
                paired=sum(1 for r in reads if r.get("flag", 0) & 0x1))
    V, B, T = "text", "bam", "text"
    jobs = [
        Job("phase", "phase", ["--reference", f["ref"], "-o", "{out}/out.vcf", "--output-read-list", "{out}/readlist.tsv",
                               f["unphased"], f["bam"]],
            {"vcf": ("out.vcf", V), "read-list": ("readlist.tsv", T)}, feat=feat),
        Job("phase-ped", "phase", ["--reference", f["ref"], "-o", "{out}/out.vcf", "--ped", f["ped"],
                                   "--recombination-list", "{out}/recomb.tsv", f["unphased"], f["bam"]],
            {"vcf": ("out.vcf", V), "recombination-list": ("recomb.tsv", T)}, feat=dict(feat, ped=True)),
        Job("phase-ped-samples-distrust", "phase",
            ["--reference", f["ref"], "-o", "{out}/out.vcf", "--ped", f["ped"], "--use-ped-samples",
             "--distrust-genotypes", "--changed-genotype-list", "{out}/changed.tsv",
             "--recombination-list", "{out}/recomb.tsv", f["noisy"], f["bam"]],
            {"vcf": ("out.vcf", V), "changed-genotype-list": ("changed.tsv", T), "recombination-list": ("recomb.tsv", T)},
            feat=dict(feat, ped=True, use_ped_samples=True)),
        Job("genotype", "genotype", ["--reference", f["ref"], "-o", "{out}/out.vcf", f["unphased"], f["bam"]],
            {"vcf": ("out.vcf", V)}, feat=feat),
        Job("genotype-ped", "genotype", ["--reference", f["ref"], "-o", "{out}/out.vcf", "--ped", f["ped"],
                                         f["unphased"], f["bam"]],
            {"vcf": ("out.vcf", V)}, feat=dict(feat, ped=True)),
        Job("haplotag", "haplotag", ["--reference", f["ref"], "-o", "{out}/out.bam", "--output-haplotag-list",
                                     "{out}/list.tsv", f["phased_gz"], f["bam"]],
            {"bam": ("out.bam", B), "haplotag-list": ("list.tsv", T)}, dims=("output_threads",),
            feat=dict(feat, bx=True)),
        Job("haplotag-nolinked", "haplotag", ["--reference", f["ref"], "-o", "{out}/out.bam", "--ignore-linked-read",
                                              "--output-haplotag-list", "{out}/list.tsv", f["phased_gz"], f["bam"]],
            {"bam": ("out.bam", B), "haplotag-list": ("list.tsv", T)}, dims=("output_threads",),
            feat=dict(feat, bx=False)),
        Job("haplotagphase", "haplotagphase", ["--reference", f["ref"], "-o", "{out}/out.vcf", f["partial_gz"], f["tagged"]],
            {"vcf": ("out.vcf", V)}, feat=feat),
        Job("stats", "stats", ["--tsv", "{out}/stats.tsv", "--block-list", "{out}/blocks.tsv", "--gtf", "{out}/blocks.gtf",
                               "--sample", names[rng.randrange(len(names))], f["phased"]],
            {"tsv": ("stats.tsv", T), "block-list": ("blocks.tsv", T), "gtf": ("blocks.gtf", T)}, feat=feat),
        Job("compare", "compare", ["--sample", names[rng.randrange(len(names))], "--tsv-pairwise", "{out}/pair.tsv",
                                   "--tsv-multiway", "{out}/multi.tsv", "--longest-block-tsv", "{out}/longest.tsv",
                                   "--switch-error-bed", "{out}/switch.bed", f["phased"], f["phased2"], f["phased3"]],
            {"tsv-pairwise": ("pair.tsv", T), "tsv-multiway": ("multi.tsv", T), "longest-block-tsv": ("longest.tsv", T),
             "switch-error-bed": ("switch.bed", T)}, feat=feat),
        Job("compare-ignore-sample-name", "compare",
            ["--ignore-sample-name", "--tsv-pairwise", "{out}/pair.tsv", "--tsv-multiway", "{out}/multi.tsv",
             f["single0"], f["single1"], f["single2"]],
            {"tsv-pairwise": ("pair.tsv", T), "tsv-multiway": ("multi.tsv", T)}, feat=dict(feat, ignore_sample_name=True)),
        Job("split", "split", ["--output-h1", "{out}/h1.bam", "--output-h2", "{out}/h2.bam", "--output-untagged",
                               "{out}/untagged.bam", "--read-lengths-histogram", "{out}/hist.tsv", f["one_bam"], f["list"]],
            {"h1": ("h1.bam", B), "h2": ("h2.bam", B), "untagged": ("untagged.bam", B), "histogram": ("hist.tsv", T)},
            feat=feat),
        Job("unphase", "unphase", [f["phased"]], {"vcf": ("stdout", V)}, feat=feat),
    ]
    walk = option_jobs(rng, d, sc, f, names, trios, one, ph, feat)
    for j in walk:
        j.feat = dict(j.feat, walk=True)
    jobs += walk
    # every job family additionally gets options that move a divisor / threshold / cutoff (chosen per scenario)
    sweeps = {
        "phase": [["--internal-downsampling", [2, 3, 5, 7, 15]], ["--mapping-quality", [0, 20, 60]]],
        "phase-ped": [["--internal-downsampling", [4, 5, 7, 8, 10]], ["--recombrate", [0.5, 1.26, 10]]],
        "phase-ped-samples-distrust": [["--internal-downsampling", [4, 5, 7, 8, 10]], ["--default-gq", [10, 30]]],
        "genotype": [["--max-coverage", [2, 3, 5, 7, 15]], ["--gt-qual-threshold", [0, 10, 30]]],
        "genotype-ped": [["--max-coverage", [4, 5, 7, 8, 10]], ["--gt-qual-threshold", [0, 10]]],
        "haplotag": [["--linked-read-distance-cutoff", [50, 150, 400, 50000]]],
        "haplotagphase": [["--gap-threshold", [50, 70, 90]], ["--cut-poly", [2, 5, 10]]],
    }
    for j in jobs:
        extra = []
        for opt, values in sweeps.get(j.name, []):
            if rng.random() < 0.8:
                extra += [opt, str(rng.choice(values))]
        if j.name in ("stats", "compare") and rng.random() < 0.4:
            extra.append("--only-snvs")
        if j.name == "split" and rng.random() < 0.4:
            extra.append("--only-largest-block")
        j.args = extra + j.args
        j.feat = dict(j.feat, options=(j.feat.get("options", "") + " " + " ".join(extra)).strip())
    return jobs


def _reflen(r):
    return sum(n for op, n in r["cigar"] if op in "MD")


def build_polyploid(rng, d, params):
    """Tiny triploid/tetraploid sample(s), SNVs only, reads in several coverage islands so that polyphase
    sees several blocks (one worker job per block when --threads > 1)."""
    os.makedirs(d, exist_ok=True)
    ploidy = params.get("ploidy", 3)
    nsamples = params.get("nsamples", 2)
    used = set()
    names = [_rand_name(rng, used) for _ in range(nsamples)]
    nvars = params.get("nvars", 12)
    sc = synth.make_scenario(rng, nchrom=1, nsamples=nsamples, nvars=nvars, kinds=("snv",), het_fraction=1.0,
                             sample_names=names, min_gap=12)
    c = sc.chroms[0]
    vs = sc.variants[c]
    n = len(vs)
    haps = {}
    for s in names:
        hs = []
        for _ in range(n):
            while True:
                al = [rng.randint(0, 1) for _ in range(ploidy)]
                if 0 < sum(al) < ploidy:
                    break
            hs.append(al)
        haps[s] = hs
    synth.write_fasta(sc, os.path.join(d, "ref.fa"))
    lines = synth.vcf_header(sc)
    for i, v in enumerate(vs):
        calls = ["/".join(str(a) for a in sorted(haps[s][i])) for s in names]
        lines.append(f"{c}\t{v.pos + 1}\t.\t{v.ref}\t{v.alt}\t.\tPASS\t.\tGT\t" + "\t".join(calls))
    vcf = os.path.join(d, "in.vcf")
    with open(vcf, "w") as fh:
        fh.write("\n".join(lines) + "\n")
    # islands of variants: reads never bridge two islands
    nisl = params.get("islands", 3)
    bounds = sorted(rng.sample(range(2, n - 1), nisl - 1)) if n > nisl + 2 else []
    islands, st = [], 0
    for b in bounds + [n]:
        islands.append((st, b))
        st = b
    reads = []
    L = len(sc.ref[c])
    for s in names:
        k = 0
        for (a, b) in islands:
            lo = vs[a].pos - 8 if a else 0
            hi = (vs[b].pos - 4) if b < n else L - 1
            for _ in range(params.get("reads_per_island", 14)):
                h = rng.randrange(ploidy)
                i0 = rng.randint(a, max(a, b - 2))
                i1 = rng.randint(min(b - 1, i0 + 1), b - 1)
                start = max(lo, vs[i0].pos - rng.randint(3, 8))
                end = min(hi, vs[i1].pos + rng.randint(3, 8))
                seq, cig = synth.hap_walk(sc.ref[c], vs, [x[h] for x in haps[s]], start, end)
                reads.append(dict(name=f"{s}_r{k}", sample=s, chrom=c, start=start, cigar=cig, seq=seq, qual=30,
                                  hap=h, flag=0))
                k += 1
    bam = synth.write_bam(sc, reads, os.path.join(d, "reads.bam"))
    feat = dict(nsamples=nsamples, ploidy=ploidy, islands=len(islands))
    args = ["--ploidy", str(ploidy), "--reference", os.path.join(d, "ref.fa"), "-o", "{out}/out.vcf", vcf, bam]
    jobs = [Job("polyphase", "polyphase", args, {"vcf": ("out.vcf", "text")}, dims=("threads",), feat=feat)]
    if params.get("b0"):
        sens = str(rng.choice([0, 1, 2, 3, 5]))
        ovl = str(rng.choice([2, 3]))
        jobs.append(Job("polyphase-B0", "polyphase", ["-B", sens, "--min-overlap", ovl] + args,
                        {"vcf": ("out.vcf", "text")}, dims=("threads",), feat=dict(feat, options=f"-B {sens} --min-overlap {ovl}")))
    # truth phasing of the polyploid samples: haplotag --ploidy, stats, compare --ploidy on it
    plines, plines2 = synth.vcf_header(sc), synth.vcf_header(sc)
    for i, v in enumerate(vs):
        ps = [vs[isl[0]].pos + 1 for isl in islands if isl[0] <= i < isl[1]][0]
        calls = ["|".join(str(a) for a in haps[s][i]) + f":{ps}" for s in names]
        calls2 = ["|".join(str(a) for a in (haps[s][i][1:] + haps[s][i][:1] if i % 5 == 0 else haps[s][i])) + f":{vs[0].pos + 1}"
                  for s in names]
        plines.append(f"{c}\t{v.pos + 1}\t.\t{v.ref}\t{v.alt}\t.\tPASS\t.\tGT:PS\t" + "\t".join(calls))
        plines2.append(f"{c}\t{v.pos + 1}\t.\t{v.ref}\t{v.alt}\t.\tPASS\t.\tGT:PS\t" + "\t".join(calls2))
    pv, pv2 = os.path.join(d, "phased.vcf"), os.path.join(d, "phased2.vcf")
    for path, ls in ((pv, plines), (pv2, plines2)):
        with open(path, "w") as fh:
            fh.write("\n".join(ls) + "\n")
    pgz = _tabix(pv)
    ref = os.path.join(d, "ref.fa")
    smp = names[rng.randrange(len(names))]
    P = str(ploidy)
    jobs += [
        Job("haplotag-polyploid", "haplotag", ["--ploidy", P, "--reference", ref, "-o", "{out}/out.bam",
                                               "--output-haplotag-list", "{out}/list.tsv", pgz, bam],
            {"bam": ("out.bam", "bam"), "haplotag-list": ("list.tsv", "text")}, dims=("output_threads",),
            feat=dict(feat, options="--ploidy " + P)),
        Job("compare-polyploid", "compare", ["--ploidy", P, "--sample", smp, "--tsv-pairwise", "{out}/pair.tsv", pv, pv2],
            {"tsv-pairwise": ("pair.tsv", "text")}, feat=dict(feat, options="--ploidy " + P)),
        Job("stats-polyploid", "stats", ["--sample", smp, "--tsv", "{out}/stats.tsv", "--block-list", "{out}/blocks.tsv", pv],
            {"tsv": ("stats.tsv", "text"), "block-list": ("blocks.tsv", "text")}, feat=feat),
        Job("polyphase-opts", "polyphase",
            ["--ploidy", P, "--reference", ref, "-o", "{out}/out.vcf", "--include-haploid-sets", "--use-prephasing",
             "--sample", smp] + rng.choice([[], ["--distrust-genotypes"], ["--only-snvs"]]) + [pv2, bam],
            {"vcf": ("out.vcf", "text")}, dims=("threads",),
            feat=dict(feat, options="--include-haploid-sets --use-prephasing --sample")),
    ]
    return jobs


def build_linked_stress(rng, d, params):
    """One sample, two phase sets; many BX barcodes whose reads sit half in the first phase set (all on
    haplotype 1) and half in the second (all on haplotype 2) with equal total quality: the phase set
    of the read cloud is a tie."""
    os.makedirs(d, exist_ok=True)
    ngroups, gsize = params.get("groups", 300), params.get("group_size", 4)
    sc = synth.make_scenario(rng, nchrom=1, nsamples=1, nvars=8, kinds=("snv",), het_fraction=1.0,
                             sample_names=["S1"])
    c = sc.chroms[0]
    vs = sc.variants[c]
    sc.haps["S1"][c] = [(0, 1)] * len(vs)
    ref = synth.write_fasta(sc, os.path.join(d, "ref.fa"))
    psA, psB = vs[0].pos + 1, vs[4].pos + 1
    ph = {"S1": {c: {i: (psA if i < 4 else psB) for i in range(len(vs))}}}
    gz = _tabix(synth.write_vcf(sc, os.path.join(d, "phased.vcf"), phased=ph))
    L = len(sc.ref[c])
    mid = (vs[3].pos + vs[4].pos) // 2
    reads = []
    for k in range(ngroups):
        for j in range(gsize):
            if j % 2 == 0:
                seq, cig = synth.hap_walk(sc.ref[c], vs, [0] * 8, 1, mid)
                reads.append(dict(name=f"a{k}_{j}", sample="S1", chrom=c, start=1, cigar=cig, seq=seq, qual=30, hap=0,
                                  flag=0, tags=[("BX", f"T{k}")]))
            else:
                seq, cig = synth.hap_walk(sc.ref[c], vs, [1] * 8, mid, L - 1)
                reads.append(dict(name=f"b{k}_{j}", sample="S1", chrom=c, start=mid, cigar=cig, seq=seq, qual=30, hap=1,
                                  flag=0, tags=[("BX", f"T{k}")]))
    rng.shuffle(reads)
    bam = synth.write_bam(sc, reads, os.path.join(d, "reads.bam"))
    return [Job("haplotag-linked-tie", "haplotag", ["--reference", ref, "-o", "{out}/out.bam", "--output-haplotag-list",
                                                     "{out}/list.tsv", gz, bam],
                {"bam": ("out.bam", "bam"), "haplotag-list": ("list.tsv", "text")}, dims=("output_threads",),
                feat=dict(nsamples=1, bx=True, ps_tie=True))]


def build_shared_barcode(rng, d, params):
    """Two samples in one BAM whose read clouds carry the same BX barcode but sit on different
    haplotypes, plus a read with that barcode that covers no variant."""
    os.makedirs(d, exist_ok=True)
    used = set()
    names = [_rand_name(rng, used) for _ in range(params.get("nsamples", 2))]
    sc = synth.make_scenario(rng, nchrom=1, nsamples=len(names), nvars=6, kinds=("snv",), het_fraction=1.0,
                             sample_names=names)
    c = sc.chroms[0]
    vs = sc.variants[c]
    for k, s in enumerate(names):
        sc.haps[s][c] = [((0, 1) if k % 2 == 0 else (1, 0))] * len(vs)
    ref = synth.write_fasta(sc, os.path.join(d, "ref.fa"))
    ph = {s: {c: {i: vs[0].pos + 1 for i in range(len(vs))}} for s in names}
    gz = _tabix(synth.write_vcf(sc, os.path.join(d, "phased.vcf"), phased=ph))
    L = len(sc.ref[c])
    reads = []
    for k, s in enumerate(names):
        h = k % 2
        seq, cig = synth.hap_walk(sc.ref[c], vs, [0] * len(vs), 0, L - 1)   # all-ref read: hap 0 of even, hap 1 of odd samples
        reads.append(dict(name=f"{s}_full", sample=s, chrom=c, start=0, cigar=cig, seq=seq, qual=30, hap=h, flag=0,
                          tags=[("BX", "AAAA-1")]))
    v0 = vs[0].pos
    owner = names[rng.randrange(len(names))]
    reads.append(dict(name="novariant", sample=owner, chrom=c, start=0, cigar=[("M", v0 - 2)], seq=sc.ref[c][:v0 - 2],
                      qual=30, hap=0, flag=0, tags=[("BX", "AAAA-1")]))
    bam = synth.write_bam(sc, reads, os.path.join(d, "reads.bam"))
    return [Job("haplotag-shared-barcode", "haplotag", ["--reference", ref, "-o", "{out}/out.bam", "--output-haplotag-list",
                                                         "{out}/list.tsv", gz, bam],
                {"bam": ("out.bam", "bam"), "haplotag-list": ("list.tsv", "text")}, dims=("output_threads",),
                feat=dict(nsamples=len(names), bx=True, shared_barcode=True))]


def build_undeclared_info(rng, d, params):
    """A VCF whose records use several INFO keys that the header does not declare (AC, AN, SVTYPE, SVLEN
    are predefined by whatshap and get added to the output header)."""
    os.makedirs(d, exist_ok=True)
    sc = synth.make_scenario(rng, nchrom=1, nsamples=1, nvars=5, kinds=("snv",), het_fraction=1.0)
    c = sc.chroms[0]
    ref = synth.write_fasta(sc, os.path.join(d, "ref.fa"))
    keys = params.get("info", "AC=1;AN=2;SVTYPE=X;SVLEN=1")
    vcf = synth.write_vcf(sc, os.path.join(d, "in.vcf"), info=keys)
    reads = synth.simulate_reads(rng, sc, "S1", c, 6, len_range=(150, 300))
    bam = synth.write_bam(sc, reads, os.path.join(d, "reads.bam"))
    feat = dict(nsamples=1, undeclared_info=len(keys.split(";")))
    return [Job("phase-undeclared-info", "phase", ["--reference", ref, "-o", "{out}/out.vcf", vcf, bam],
                {"vcf": ("out.vcf", "text")}, feat=feat),
            Job("genotype-undeclared-info", "genotype", ["--reference", ref, "-o", "{out}/out.vcf", vcf, bam],
                {"vcf": ("out.vcf", "text")}, feat=feat)]


def build_ped_changes(rng, d, params):
    """A trio whose VCF genotypes are wrong (het written, truth homozygous) at the same variants in all three
    individuals, with enough coverage that --distrust-genotypes changes all of them."""
    os.makedirs(d, exist_ok=True)
    used = set()
    names = [_rand_name(rng, used) for _ in range(3)]
    sc = synth.make_scenario(rng, nchrom=1, nsamples=3, nvars=8, kinds=("snv",), het_fraction=1.0, sample_names=names)
    c = sc.chroms[0]
    ch, fa, mo = names
    wrong = (2, 4, 6)
    for s in names:
        for i in wrong:
            sc.haps[s][c][i] = (0, 0) if i != 4 else (1, 1)
    sc.haps[ch][c], _ = synth.inherit(rng, sc.haps[fa][c], sc.haps[mo][c])
    ref = synth.write_fasta(sc, os.path.join(d, "ref.fa"))
    vcf = synth.write_vcf(sc, os.path.join(d, "in.vcf"), gt_override={(s, c, i): "0/1" for s in names for i in wrong})
    ped = synth.write_ped(os.path.join(d, "family.ped"), [(ch, fa, mo)])
    reads = []
    for s in names:
        reads += synth.simulate_reads(rng, sc, s, c, 16, len_range=(200, 400))
    bam = synth.write_bam(sc, reads, os.path.join(d, "reads.bam"))
    common = ["--reference", ref, "-o", "{out}/out.vcf", "--ped", ped, "--distrust-genotypes", "--changed-genotype-list",
              "{out}/changed.tsv", "--recombination-list", "{out}/recomb.tsv"]
    outs = {"vcf": ("out.vcf", "text"), "changed-genotype-list": ("changed.tsv", "text"),
            "recombination-list": ("recomb.tsv", "text")}
    return [Job("phase-ped-changes", "phase", common + [vcf, bam], dict(outs), feat=dict(nsamples=3, ped=True)),
            Job("phase-ped-samples-changes", "phase", common + ["--use-ped-samples", vcf, bam], dict(outs),
                feat=dict(nsamples=3, ped=True, use_ped_samples=True))]


def noisy_reads(rng, reads, error_rate=0.03, quals=(8, 15, 22, 30, 38)):
    """sequencing errors (substitutions; the CIGAR is kept) and mixed per-base qualities on error-free reads"""
    from array import array
    out = []
    for r in reads:
        seq = list(r["seq"])
        for i in range(len(seq)):
            if rng.random() < error_rate:
                seq[i] = rng.choice([b for b in "ACGT" if b != seq[i]])
        q = array("B", [rng.choice(quals) for _ in seq])
        out.append(dict(r, seq="".join(seq), qual=q))
    return out


def build_ped_coverage(rng, d, params):
    """A trio or quartet with DEEP noisy reads (far more coverage per sample than any per-sample share of
    the coverage budget, so read selection must drop reads); the coverage budget (--max-coverage /
    --internal-downsampling) is swept over values that are and are not divisible by the family size."""
    os.makedirs(d, exist_ok=True)
    nchildren = params.get("children", 1)
    used = set()
    names = [_rand_name(rng, used) for _ in range(2 + nchildren)]
    fa, mo, kids = names[0], names[1], names[2:]
    order = list(names)
    rng.shuffle(order)              # column order of the VCF
    nvars = params.get("nvars", 14)
    sc = synth.make_scenario(rng, nchrom=1, nsamples=len(names), nvars=nvars, kinds=("snv",), het_fraction=0.7,
                             sample_names=order, min_gap=14)
    c = sc.chroms[0]
    for k in kids:
        sc.haps[k][c], _ = synth.inherit(rng, sc.haps[fa][c], sc.haps[mo][c], recomb_prob=0.05)
    ref = synth.write_fasta(sc, os.path.join(d, "ref.fa"))
    vcf = synth.write_vcf(sc, os.path.join(d, "in.vcf"))
    trios = [(k, fa, mo) for k in kids]
    rng.shuffle(trios)
    ped = synth.write_ped(os.path.join(d, "family.ped"), trios)
    reads = []
    for s in names:
        reads += noisy_reads(rng, synth.simulate_reads(rng, sc, s, c, params.get("reads", 110), len_range=(90, 320)),
                             error_rate=params.get("error_rate", 0.03))
    bam = synth.write_bam(sc, reads, os.path.join(d, "reads.bam"))
    feat = dict(nsamples=len(names), ped=True, deep=True, family=len(names))
    jobs = []
    for cov in params.get("coverages", [4, 5, 7, 8, 16, 17]):
        jobs.append(Job(f"genotype-ped-H{cov}", "genotype",
                        ["--reference", ref, "-o", "{out}/out.vcf", "--ped", ped, "--max-coverage", str(cov), vcf, bam],
                        {"vcf": ("out.vcf", "text")}, feat=dict(feat, max_coverage=cov)))
    for cov in params.get("phase_coverages", [5, 7]):
        jobs.append(Job(f"phase-ped-D{cov}", "phase",
                        ["--reference", ref, "-o", "{out}/out.vcf", "--ped", ped, "--internal-downsampling", str(cov),
                         "--output-read-list", "{out}/readlist.tsv", vcf, bam],
                        {"vcf": ("out.vcf", "text"), "read-list": ("readlist.tsv", "text")},
                        feat=dict(feat, max_coverage=cov)))
    return jobs


def build_split_ties(rng, d, params):
    """split with a 4-column haplotag list over several chromosomes; on every chromosome 2-3 phase sets are
    TIED for the largest number of tagged reads (plus smaller ones), reads of the tied phase sets have
    different haplotypes/lengths, some reads are untagged ('none') and some reads of the BAM/FASTQ are not
    listed at all."""
    os.makedirs(d, exist_ok=True)
    nchrom = params.get("nchrom", 3)
    sc = synth.make_scenario(rng, nchrom=nchrom, nsamples=1, nvars=4, kinds=("snv",), het_fraction=1.0,
                             chrom_names=[f"chr{x}" for x in rng.sample(["A", "B", "C", "7", "X", "10", "M"], nchrom)])
    reads, lines = [], ["#readname\thaplotype\tphaseset\tchromosome"]
    for c in sc.chroms:
        ntied = rng.choice([2, 2, 3])
        top = rng.randint(2, 5)
        sizes = [top] * ntied + [rng.randint(1, top - 1) for _ in range(rng.randint(1, 3))] if top > 1 else [1] * ntied
        rng.shuffle(sizes)
        psnames = rng.sample(range(1, 900000), len(sizes))
        total = sum(sizes) + rng.randint(2, 5) + rng.randint(1, 4)
        rs = synth.simulate_reads(rng, sc, "S1", c, total + 6, len_range=(30, 200), name_prefix=f"q{c}_")[:total]
        rng.shuffle(rs)
        k = 0
        entries = []
        for ps, n in zip(psnames, sizes):
            for _ in range(n):
                entries.append((rs[k]["name"], rng.choice(["H1", "H2"]), str(ps), c))
                k += 1
        nnone = rng.randint(2, 5)
        for _ in range(nnone):
            if k < len(rs):
                entries.append((rs[k]["name"], "none", "none", c))
                k += 1
        rng.shuffle(entries)            # remaining reads of rs are not listed ("unknown")
        lines += ["\t".join(e) for e in entries]
        reads += rs
    bam = synth.write_bam(sc, reads, os.path.join(d, "reads.bam"))
    lst = os.path.join(d, "haplotags.tsv")
    with open(lst, "w") as fh:
        fh.write("\n".join(lines) + "\n")
    fq = os.path.join(d, "reads.fastq")
    with open(fq, "w") as fh:
        for r in sorted(reads, key=lambda r: rng.random()):
            fh.write(f"@{r['name']}\n{r['seq']}\n+\n{'I' * len(r['seq'])}\n")
    feat = dict(nsamples=1, nchrom=nchrom, tied_phase_sets=True)
    bam_out = ["--output-h1", "{out}/h1.bam", "--output-h2", "{out}/h2.bam", "--output-untagged", "{out}/untagged.bam",
               "--read-lengths-histogram", "{out}/hist.tsv"]
    bam_outs = {"h1": ("h1.bam", "bam"), "h2": ("h2.bam", "bam"), "untagged": ("untagged.bam", "bam"),
                "histogram": ("hist.tsv", "text")}
    fq_out = ["--output-h1", "{out}/h1.fastq", "--output-h2", "{out}/h2.fastq", "--output-untagged", "{out}/untagged.fastq",
              "--read-lengths-histogram", "{out}/hist.tsv"]
    fq_outs = {"h1": ("h1.fastq", "text"), "h2": ("h2.fastq", "text"), "untagged": ("untagged.fastq", "text"),
               "histogram": ("hist.tsv", "text")}
    jobs = []
    for name, extra in (("largest", []), ("largest-discard-unknown", ["--discard-unknown-reads"]),
                        ("largest-add-untagged", ["--add-untagged"])):
        jobs.append(Job(f"split-{name}", "split", ["--only-largest-block"] + extra + bam_out + [bam, lst], dict(bam_outs),
                        feat=dict(feat, options=" ".join(["--only-largest-block"] + extra))))
    jobs.append(Job("split-largest-fastq", "split", ["--only-largest-block"] + fq_out + [fq, lst], dict(fq_outs),
                    feat=dict(feat, options="--only-largest-block", fastq=True)))
    jobs.append(Job("split-all-blocks", "split", ["--discard-unknown-reads"] + bam_out + [bam, lst], dict(bam_outs),
                    feat=dict(feat, options="--discard-unknown-reads")))
    return jobs


def build_block_ties(rng, d, params):
    """Tie-rich phasing: on every chromosome several phase sets of EQUAL size (and a smaller one); reads that
    span a phase-set boundary with the same number of variants (same total quality) on each side, alone and
    in BX read clouds; three phasings of the same genotypes that agree on most pairs."""
    os.makedirs(d, exist_ok=True)
    used = set()
    names = [_rand_name(rng, used) for _ in range(params.get("nsamples", 2))]
    nchrom = params.get("nchrom", 2)
    bs = params.get("block", 4)
    nblocks = params.get("nblocks", 3)
    nvars = bs * nblocks + 2
    sc = synth.make_scenario(rng, nchrom=nchrom, nsamples=len(names), nvars=nvars, kinds=("snv",), het_fraction=1.0,
                             sample_names=names, min_gap=14,
                             chrom_names=[f"chr{x}" for x in rng.sample(["A", "B", "C", "7", "X"], nchrom)])

    def equal_blocks(scx, shift=0):
        ph = {}
        for s in scx.samples:
            ph[s] = {}
            for c in scx.chroms:
                dct = {}
                vs = scx.variants[c]
                n = len(vs)
                for b in range(nblocks):
                    idx = list(range(b * bs, min(n, (b + 1) * bs)))
                    for i in idx:
                        dct[i] = vs[idx[0]].pos + 1
                for i in range(nblocks * bs, n):
                    dct[i] = vs[nblocks * bs].pos + 1
                ph[s][c] = dct
        return ph
    f = {}
    f["ref"] = synth.write_fasta(sc, os.path.join(d, "ref.fa"))
    ph = equal_blocks(sc)
    f["phased"] = synth.write_vcf(sc, os.path.join(d, "phased.vcf"), phased=ph)
    f["phased_gz"] = _tabix(f["phased"])
    sc2, sc3 = _flip_some(rng, sc, 0.0), _flip_some(rng, sc, 0.12)
    f["phased2"] = synth.write_vcf(sc2, os.path.join(d, "phased2.vcf"), phased=equal_blocks(sc2))
    f["phased3"] = synth.write_vcf(sc3, os.path.join(d, "phased3.vcf"), phased=equal_blocks(sc3))
    reads = []
    barcodes = [f"TB{k:02d}-1" for k in range(3)]
    for s in names:
        for c in sc.chroms:
            vs = sc.variants[c]
            L = len(sc.ref[c])
            k = 0
            for b in range(1, nblocks + 1):
                # a read with w variants left and w variants right of the boundary before variant b*bs
                for w in (1, 2):
                    for h in (0, 1):
                        i0, i1 = b * bs - w, b * bs + w - 1
                        if i1 >= len(vs):
                            continue
                        start = max(0, vs[i0].pos - 5)
                        end = min(L - 1, vs[i1].pos + 6)
                        seq, cig = synth.hap_walk(sc.ref[c], vs, [x[h] for x in sc.haps[s][c]], start, end)
                        r = dict(name=f"{s}_{c}_span{k}", sample=s, chrom=c, start=start, cigar=cig, seq=seq, qual=30,
                                 hap=h, flag=0)
                        if rng.random() < 0.5:
                            r["tags"] = [("BX", rng.choice(barcodes))]
                        reads.append(r)
                        k += 1
            rs = synth.simulate_reads(rng, sc, s, c, 8, len_range=(50, 150))
            for r in rs:
                if rng.random() < 0.6:
                    r["tags"] = [("BX", rng.choice(barcodes))]
            reads += rs
    f["bam"] = synth.write_bam(sc, reads, os.path.join(d, "reads.bam"))
    feat = dict(nsamples=len(names), nchrom=nchrom, equal_blocks=True)
    T = "text"
    smp = names[rng.randrange(len(names))]
    jobs = [
        Job("stats-equal-blocks", "stats", ["--tsv", "{out}/stats.tsv", "--block-list", "{out}/blocks.tsv", "--gtf",
                                            "{out}/blocks.gtf", "--sample", smp, f["phased"]],
            {"tsv": ("stats.tsv", T), "block-list": ("blocks.tsv", T), "gtf": ("blocks.gtf", T)}, feat=feat),
        Job("compare-equal-blocks", "compare", ["--sample", smp, "--tsv-pairwise", "{out}/pair.tsv", "--tsv-multiway",
                                                "{out}/multi.tsv", "--longest-block-tsv", "{out}/longest.tsv",
                                                "--switch-error-bed", "{out}/switch.bed", f["phased"], f["phased2"], f["phased3"]],
            {"tsv-pairwise": ("pair.tsv", T), "tsv-multiway": ("multi.tsv", T), "longest-block-tsv": ("longest.tsv", T),
             "switch-error-bed": ("switch.bed", T)}, feat=feat),
        Job("haplotag-boundary-ties", "haplotag", ["--reference", f["ref"], "-o", "{out}/out.bam", "--output-haplotag-list",
                                                    "{out}/list.tsv", f["phased_gz"], f["bam"]],
            {"bam": ("out.bam", "bam"), "haplotag-list": ("list.tsv", T)}, dims=("output_threads",),
            feat=dict(feat, bx=True, ps_tie=True)),
        Job("haplotag-boundary-ties-nolinked", "haplotag", ["--reference", f["ref"], "-o", "{out}/out.bam",
                                                             "--ignore-linked-read", "--output-haplotag-list",
                                                             "{out}/list.tsv", f["phased_gz"], f["bam"]],
            {"bam": ("out.bam", "bam"), "haplotag-list": ("list.tsv", T)}, dims=("output_threads",),
            feat=dict(feat, bx=False, ps_tie=True)),
    ]
    return jobs


def build_misc(rng, d, params):
    """The remaining VCF writers: find_snv_candidates (BAM + reference -> VCF), hapcut2vcf (HapCUT blocks -> VCF),
    polyphasegenetic (polyploid cross: two parents + progeny with allele depths)."""
    os.makedirs(d, exist_ok=True)
    jobs = []
    # --- find_snv_candidates on noisy reads over two chromosomes
    sc = synth.make_scenario(rng, nchrom=2, nsamples=1, nvars=8, kinds=("snv",), het_fraction=0.8,
                             chrom_names=[f"chr{x}" for x in rng.sample(["A", "B", "7", "X"], 2)])
    ref = synth.write_fasta(sc, os.path.join(d, "ref.fa"))
    reads = []
    for c in sc.chroms:
        reads += noisy_reads(rng, synth.simulate_reads(rng, sc, "S1", c, 40, len_range=(80, 250)), error_rate=0.04)
    bam = write_bam_rg(sc, reads, os.path.join(d, "reads.bam"), {"S1": 2}, rng)
    for k, opts in enumerate(([], ["--minabs", "2", "--minrel", "0.1", "--multi-allelics"],
                              [rng.choice(["--pacbio", "--nanopore", "--illumina"]), "--chromosome", sc.chroms[-1]])):
        jobs.append(Job(f"find-snv-candidates{k}", "find_snv_candidates", opts + ["-o", "{out}/out.vcf", ref, bam],
                        {"vcf": ("out.vcf", "text")}, feat=dict(nsamples=1, options=" ".join(opts))))
    # --- hapcut2vcf
    vcf = synth.write_vcf(sc, os.path.join(d, "in.vcf"))
    hc = os.path.join(d, "hapcut.txt")
    with open(hc, "w") as fh:
        for c in sc.chroms:
            het = [(i, v) for i, v in enumerate(sc.variants[c]) if sc.haps["S1"][c][i][0] != sc.haps["S1"][c][i][1]]
            cut = rng.randint(1, max(1, len(het) - 1))
            for block in (het[:cut], het[cut:]):
                if len(block) < 2:
                    continue
                fh.write(f"BLOCK: offset: {block[0][0] + 1} len: {len(block)} phased: {len(block)} SPAN: "
                         f"{block[-1][1].pos - block[0][1].pos} MECscore 1.00 fragments {len(block)}\n")
                for i, v in block:
                    a, b = sc.haps["S1"][c][i]
                    fh.write(f"{i + 1}\t{a}\t{b}\t{c}\t{v.pos + 1}\t{v.ref}\t{v.alt}\t0/1\t5,3:-32.9,-30.3,-35.5:-2.6:0.9\n")
                fh.write("********\n")
    jobs.append(Job("hapcut2vcf", "hapcut2vcf", ["-o", "{out}/out.vcf", vcf, hc], {"vcf": ("out.vcf", "text")},
                    feat=dict(nsamples=1)))
    # --- polyphasegenetic: tetraploid cross, simplex x nulliplex markers
    ploidy, nvar, nprog = 4, params.get("pg_vars", 24), params.get("pg_progeny", 12)
    used = set()
    parents = [_rand_name(rng, used) for _ in range(2)]
    prog = [_rand_name(rng, used) for _ in range(nprog)]
    hap = {p: [None] * nvar for p in parents}
    for i in range(nvar):
        a, b = rng.sample(parents, 2)
        hap[a][i] = [0] * ploidy
        hap[a][i][rng.randrange(ploidy)] = 1
        hap[b][i] = [0] * ploidy
        if rng.random() < 0.2:
            hap[b][i][rng.randrange(ploidy)] = 1
    ph = {}
    for x in prog:
        sel = {p: rng.sample(range(ploidy), 2) for p in parents}
        ph[x] = [[hap[p][i][h] for p in parents for h in sel[p]] for i in range(nvar)]
    cols = parents + prog
    rng.shuffle(cols)
    lines = ["##fileformat=VCFv4.2", "##contig=<ID=chr1,length=100000>",
             '##FORMAT=<ID=GT,Number=1,Type=String,Description="Genotype">',
             '##FORMAT=<ID=AD,Number=R,Type=Integer,Description="Allelic depths">',
             "#CHROM\tPOS\tID\tREF\tALT\tQUAL\tFILTER\tINFO\tFORMAT\t" + "\t".join(cols)]
    for i in range(nvar):
        calls = []
        for x in cols:
            al = hap[x][i] if x in hap else ph[x][i]
            dd = sum(al)
            depth = rng.choice([8, 10, 12])
            calls.append("/".join(str(a) for a in sorted(al)) + f":{(ploidy - dd) * depth},{dd * depth}")
        lines.append(f"chr1\t{100 + 50 * i}\t.\tA\tC\t.\tPASS\t.\tGT:AD\t" + "\t".join(calls))
    pgv = os.path.join(d, "cross.vcf")
    with open(pgv, "w") as fh:
        fh.write("\n".join(lines) + "\n")
    pgp = os.path.join(d, "cross.ped")
    order = list(prog)
    rng.shuffle(order)
    with open(pgp, "w") as fh:
        for x in order:
            pa, pb = (parents if rng.random() < 0.5 else parents[::-1])
            fh.write(f"{parents[0]} {parents[1]} {x}\n")
    for k, opts in enumerate(([], ["--tag", "HP", "--scoring-window", "100"], ["--sample", parents[1], "--distrust-genotypes"])):
        jobs.append(Job(f"polyphasegenetic{k}", "polyphasegenetic", ["--ploidy", "4"] + opts + ["-o", "{out}/out.vcf", pgv, pgp],
                        {"vcf": ("out.vcf", "text")}, feat=dict(nsamples=len(cols), ploidy=4, options=" ".join(opts))))
    return jobs


def _index(path, csi=False):
    """bgzip + index a VCF: <path>.gz with .tbi, or a separate copy <path>.csi.vcf.gz with .csi"""
    import pysam
    import shutil as _sh
    if not csi:
        return _tabix(path)
    cp = path[:-4] + ".csi.vcf"
    _sh.copy(path, cp)
    gz = cp + ".gz"
    for p in (gz, gz + ".csi", gz + ".tbi"):
        if os.path.exists(p):
            os.remove(p)
    pysam.tabix_index(cp, preset="vcf", force=True, csi=True)
    return gz


def build_input_forms(rng, d, params):
    """The input FORMS that select a different code path: plain VCF vs bgzip+tabix (.tbi) vs bgzip+CSI, BAM vs
    CRAM, VCF on standard input, compressed outputs - for every subcommand that reads a VCF, with multi-name
    --chromosome / --regions selections given in several orders (sorted, reversed, shuffled, with a duplicate).
    Many short chromosomes so that the order of a set of their names varies with the hash seed."""
    import pysam
    os.makedirs(d, exist_ok=True)
    nchrom = params.get("nchrom", 6)
    pool = ["chr1", "chr2", "chr3", "chr4", "chr5", "chrX", "scaffold_4", "scaffold_17", "chrM", "ctg9"]
    chroms = rng.sample(pool, nchrom)
    used = set()
    names = [_rand_name(rng, used) for _ in range(2)]
    sc = synth.make_scenario(rng, nchrom=nchrom, nsamples=2, nvars=4, kinds=("snv", "snv", "ins", "del"), het_fraction=0.9,
                             sample_names=names, chrom_names=chroms, min_gap=15)
    ref = synth.write_fasta(sc, os.path.join(d, "ref.fa"))
    ph = _phase_sets(rng, sc, 0.1, 2)
    part = {s: {c: {i: ps for i, ps in ph[s][c].items() if rng.random() < 0.5} for c in sc.chroms} for s in sc.samples}
    sc2 = _flip_some(rng, sc, 0.15)
    plain = {"unphased": synth.write_vcf(sc, os.path.join(d, "unphased.vcf")),
             "phased": synth.write_vcf(sc, os.path.join(d, "phased.vcf"), phased=ph),
             "phased2": synth.write_vcf(sc2, os.path.join(d, "phased2.vcf"), phased=_phase_sets(rng, sc2, 0.1, 2)),
             "partial": synth.write_vcf(sc, os.path.join(d, "partial.vcf"), phased=part)}
    vf = {"plain": plain, "tbi": {k: _index(v) for k, v in plain.items()},
          "csi": {k: _index(v, csi=True) for k, v in plain.items()}}
    reads, tagged = [], []
    for s in names:
        for c in sc.chroms:
            rs = synth.simulate_reads(rng, sc, s, c, rng.randint(4, 7), len_range=(60, 200))
            reads += rs
            for r in rs:
                cov = [i for i, v in enumerate(sc.variants[c]) if r["start"] <= v.pos < r["start"] + _reflen(r) and i in ph[s][c]]
                t = dict(r)
                if cov:
                    t["tags"] = [("HP", r["hap"] + 1), ("PC", 30 * len(cov)), ("PS", ph[s][c][cov[0]])]
                tagged.append(t)
    bam = write_bam_rg(sc, reads, os.path.join(d, "reads.bam"), {}, None)
    tbam = write_bam_rg(sc, tagged, os.path.join(d, "tagged.bam"), {}, None)
    cram = os.path.join(d, "reads.cram")
    pysam.view("-C", "-T", ref, "-o", cram, bam, catch_stdout=False)
    pysam.index(cram)

    def chrom_sel(k):
        order = [sorted(chroms), sorted(chroms, reverse=True), rng.sample(chroms, len(chroms)),
                 rng.sample(chroms, max(2, len(chroms) // 2))][k % 4]
        if k % 4 == 3:
            order = order + [order[0]]          # a name given twice
        out = []
        for c in order:
            out += ["--chromosome", c]
        return out

    def region_sel(k):
        order = [sorted(chroms), sorted(chroms, reverse=True), rng.sample(chroms, len(chroms))][k % 3][:4]
        out = []
        for c in order:
            out += ["--regions", c if rng.random() < 0.5 else f"{c}:{rng.randint(1, 60)}-{rng.randint(150, 400)}"]
        return out
    feat = dict(nsamples=2, nchrom=nchrom)
    R = ["--reference", ref]
    T = "text"
    jobs = []
    k = 0
    smp = names[rng.randrange(2)]
    for form in ("plain", "tbi", "csi"):
        F = vf[form]
        for rep in range(2 if form != "plain" else 1):
            sel = chrom_sel(k)
            k += 1
            jobs.append(Job(f"stats-{form}-chrom{rep}", "stats", sel + ["--sample", smp, "--tsv", "{out}/stats.tsv", "--block-list",
                                                                       "{out}/blocks.tsv", "--gtf", "{out}/blocks.gtf", F["phased"]],
                            {"tsv": ("stats.tsv", T), "block-list": ("blocks.tsv", T), "gtf": ("blocks.gtf", T)},
                            feat=dict(feat, form=f"vcf-{form}", nchrom_selected=len(sel) // 2)))
        jobs.append(Job(f"stats-{form}-all", "stats", ["--tsv", "{out}/stats.tsv", "--block-list", "{out}/blocks.tsv", F["phased"]],
                        {"tsv": ("stats.tsv", T), "block-list": ("blocks.tsv", T)}, feat=dict(feat, form=f"vcf-{form}")))
        jobs.append(Job(f"compare-{form}", "compare", ["--sample", smp, "--tsv-pairwise", "{out}/pair.tsv", "--longest-block-tsv",
                                                      "{out}/longest.tsv", "--switch-error-bed", "{out}/switch.bed",
                                                      F["phased"], F["phased2"]],
                        {"tsv-pairwise": ("pair.tsv", T), "longest-block-tsv": ("longest.tsv", T),
                         "switch-error-bed": ("switch.bed", T)}, feat=dict(feat, form=f"vcf-{form}")))
        sel = chrom_sel(k)
        k += 1
        ext = "vcf.gz" if form != "plain" else "vcf"
        jobs.append(Job(f"phase-{form}", "phase", sel + R + ["-o", "{out}/out." + ext, F["unphased"], bam if form != "csi" else cram],
                        {"vcf": ("out." + ext, T)},
                        feat=dict(feat, form=f"vcf-{form}+{'cram' if form == 'csi' else 'bam'}", out_ext=ext,
                                  nchrom_selected=len(sel) // 2)))
        sel = chrom_sel(k)
        k += 1
        jobs.append(Job(f"genotype-{form}", "genotype", sel + R + ["-o", "{out}/out." + ext, F["unphased"],
                                                                  cram if form == "tbi" else bam],
                        {"vcf": ("out." + ext, T)},
                        feat=dict(feat, form=f"vcf-{form}+{'cram' if form == 'tbi' else 'bam'}", out_ext=ext,
                                  nchrom_selected=len(sel) // 2)))
        sel = chrom_sel(k)
        k += 1
        jobs.append(Job(f"polyphase-{form}", "polyphase", sel + ["--ploidy", "2"] + R + ["-o", "{out}/out." + ext, F["unphased"], bam],
                        {"vcf": ("out." + ext, T)}, dims=("threads",),
                        feat=dict(feat, form=f"vcf-{form}", out_ext=ext, ploidy=2, nchrom_selected=len(sel) // 2)))
        jobs.append(Job(f"unphase-{form}", "unphase", [F["phased"]], {"vcf": ("stdout", T)}, feat=dict(feat, form=f"vcf-{form}")))
        if form != "plain":         # haplotag / haplotagphase require an indexed, compressed VCF
            for rep in range(2):
                sel = region_sel(k)
                k += 1
                incram = rep == 1
                outk = "cram:" + ref if (incram and form == "tbi") else "bam"
                outn = "out.cram" if outk != "bam" else "out.bam"
                jobs.append(Job(f"haplotag-{form}-regions{rep}", "haplotag",
                                sel + R + ["-o", "{out}/" + outn, "--output-haplotag-list", "{out}/list.tsv", F["phased"],
                                           cram if incram else bam],
                                {"alignments": (outn, outk), "haplotag-list": ("list.tsv", T)}, dims=("output_threads",),
                                feat=dict(feat, form=f"vcf-{form}+{'cram' if incram else 'bam'}->{outn[4:]}",
                                          nregions=len(sel) // 2)))
            sel = chrom_sel(k)
            k += 1
            jobs.append(Job(f"haplotagphase-{form}", "haplotagphase", sel + R + ["-o", "{out}/out.vcf.gz", F["partial"], tbam],
                            {"vcf": ("out.vcf.gz", T)}, feat=dict(feat, form=f"vcf-{form}", out_ext="vcf.gz",
                                                                  nchrom_selected=len(sel) // 2)))
    # VCF on standard input
    jobs.append(Job("unphase-stdin", "unphase", ["-"], {"vcf": ("stdout", T)}, feat=dict(feat, form="vcf-stdin"),
                    stdin=plain["phased"]))
    jobs.append(Job("unphase-stdin-gz", "unphase", ["-"], {"vcf": ("stdout", T)}, feat=dict(feat, form="vcf-gz-stdin"),
                    stdin=vf["tbi"]["phased"]))
    for j in jobs:
        j.feat = dict(j.feat, walk=True)
    return jobs


def build_polyploid_ties(rng, d, params):
    """polyphase inputs built for exact ties: ploidy 3-5 with DUPLICATED haplotypes, 3-6 blocks of different sizes
    (a large block first, smaller ones after it), every read covering the same number of variants, error-free
    reads, the same number of reads per haplotype (cluster coverages tie exactly), uniform base quality.  Reads never
    bridge two blocks, so each block is an independent job of the worker pool."""
    os.makedirs(d, exist_ok=True)
    ploidy = params.get("ploidy", 4)
    readlen = params.get("readlen", 4)              # variants per read, the same everywhere
    sizes = list(params.get("blocks", [30, 12, 10]))
    per_hap = list(params.get("reads_per_hap", [max(8, 4 * n // 3) for n in sizes]))
    spacing = 20
    nvar = sum(sizes)
    L = (nvar + 5) * spacing + 200
    ref = list(synth.random_seq(rng, L))
    positions, blocks = [], []
    pos0 = 100
    for n in sizes:
        bpos = [pos0 + i * spacing for i in range(n)]
        pos0 = bpos[-1] + spacing
        blocks.append(bpos)
        positions += bpos
    variants = []
    for p in positions:
        alt = rng.choice([b for b in "ACGT" if b != ref[p]])
        variants.append(synth.Variant(p, ref[p], alt, "snv"))
    used = set()
    samples = [_rand_name(rng, used) for _ in range(params.get("nsamples", 1))]
    sc = synth.Scenario({"chr1": "".join(ref)}, {"chr1": variants}, samples, {x: {"chr1": [(0, 1)] * nvar} for x in samples})
    reff = synth.write_fasta(sc, os.path.join(d, "ref.fa"))
    dup = params.get("duplicate", True)
    lines = synth.vcf_header(sc)
    reads = []
    rid = 0
    gts = {x: [] for x in samples}
    for sample in samples:
      off = 0
      for bi, bpos in enumerate(blocks):
          n = len(bpos)
          haps = [[0] * n for _ in range(ploidy)]
          distinct = ploidy - 1 if dup else ploidy
          for v in range(n):
              while True:
                  col = [rng.randint(0, 1) for _ in range(distinct)]
                  full = col + ([col[0]] if dup else [])          # last haplotype = copy of the first
                  if 0 < sum(full) < ploidy:
                      break
              for h in range(ploidy):
                  haps[h][v] = full[h]
          for v in range(n):
              gts[sample].append("/".join(str(a) for a in sorted(haps[h][v] for h in range(ploidy))))
          # the same start offsets for every haplotype: coverage per haplotype is identical column by column
          starts = [rng.randint(0, n - readlen) for _ in range(per_hap[bi])]
          for h in range(ploidy):
              if not params.get("shared_starts", True):
                  starts = [rng.randint(0, n - readlen) for _ in range(per_hap[bi])]
              for st in starts:
                  a, b = bpos[st] - 5, bpos[st + readlen - 1] + 6
                  alle = [0] * nvar
                  for v in range(n):
                      alle[off + v] = haps[h][v]
                  seq, cig = synth.hap_walk(sc.ref["chr1"], variants, alle, a, b)
                  reads.append(dict(name=f"r{rid:05d}", sample=sample, chrom="chr1", start=a, cigar=cig, seq=seq, qual=40,
                                    hap=h, flag=0))
                  rid += 1
          off += n
    for v, var in enumerate(variants):
        lines.append(f"chr1\t{var.pos + 1}\t.\t{var.ref}\t{var.alt}\t.\tPASS\t.\tGT\t" + "\t".join(gts[x][v] for x in samples))
    vcf = os.path.join(d, "in.vcf")
    with open(vcf, "w") as fh:
        fh.write("\n".join(lines) + "\n")
    bam = synth.write_bam(sc, reads, os.path.join(d, "reads.bam"))
    feat = dict(nsamples=len(samples), ploidy=ploidy, blocks=len(sizes), block_sizes="-".join(map(str, sizes)), tie_rich=True,
                duplicated_haplotype=dup)
    P = str(ploidy)
    jobs = [Job("polyphase-ties", "polyphase", ["--ploidy", P, "--reference", reff, "-o", "{out}/out.vcf", vcf, bam],
                {"vcf": ("out.vcf", "text")}, dims=("threads",), feat=feat),
            Job("polyphase-ties-noref", "polyphase", ["--ploidy", P, "-o", "{out}/out.vcf", vcf, bam],
                {"vcf": ("out.vcf", "text")}, dims=("threads",), feat=dict(feat, options="no --reference"))]
    if params.get("b_sweep"):
        bsens = str(rng.choice([0, 1, 3, 5]))
        jobs.append(Job("polyphase-ties-B", "polyphase", ["-B", bsens, "--ploidy", P, "--reference", reff, "-o", "{out}/out.vcf",
                                                          vcf, bam],
                        {"vcf": ("out.vcf", "text")}, dims=("threads",), feat=dict(feat, options="-B " + bsens)))
    return jobs


def build_polyploid_prephasing(rng, d, params):
    """polyphase --use-prephasing with a MIX of pre-phased and unphased samples in one run: every sample's reads form
    two groups that share a single SNV (an ambiguous joint which the pre-phasing resolves), error-free, 8x per
    haplotype; pre-phased samples list their true haplotypes in a random order in one phase set per chromosome.
    Sample names come from pools so that the iteration order of a set of them depends on the hash seed."""
    os.makedirs(d, exist_ok=True)
    ploidy = params.get("ploidy", 4)
    nsamples = params.get("nsamples", 2)
    nchrom = params.get("nchrom", 1)
    nvar = params.get("nvars", 10)
    joint = params.get("joint", nvar // 2)          # index of the SNV shared by the two read groups
    pool = ["parentA", "parentB", "P1", "P2", "mother", "father", "clone7", "cv_Desiree", "cv_Altus", "S", "T", "sampleX"]
    samples = rng.sample(pool, nsamples)
    prephased = set(params.get("prephased_idx", [1]))
    chroms = [f"chr{x}" for x in rng.sample(["1", "2", "5", "X"], nchrom)]
    spacing = 40
    L = 100 + spacing * nvar + 200
    ref, variants = {}, {}
    for c in chroms:
        ref[c] = synth.random_seq(rng, L)
        variants[c] = [synth.Variant(100 + spacing * i, ref[c][100 + spacing * i],
                                     rng.choice([b for b in "ACGT" if b != ref[c][100 + spacing * i]]), "snv")
                       for i in range(nvar)]
    sc = synth.Scenario(ref, variants, samples, {x: {c: [(0, 1)] * nvar for c in chroms} for x in samples})
    reff = synth.write_fasta(sc, os.path.join(d, "ref.fa"))
    lines = synth.vcf_header(sc)
    reads = []
    for c in chroms:
        haps = {}
        for x in samples:
            hs = [[0] * nvar for _ in range(ploidy)]
            for v in range(nvar):
                while True:
                    col = [rng.randint(0, 1) for _ in range(ploidy)]
                    if 0 < sum(col) < ploidy:
                        break
                for h in range(ploidy):
                    hs[h][v] = col[h]
            haps[x] = hs
        order = {x: rng.sample(range(ploidy), ploidy) for x in samples}
        for v, var in enumerate(variants[c]):
            cols = []
            for k, x in enumerate(samples):
                al = [haps[x][h][v] for h in range(ploidy)]
                if k in prephased:
                    cols.append("|".join(str(al[h]) for h in order[x]) + f":{variants[c][0].pos + 1}")
                else:
                    cols.append("/".join(str(a) for a in sorted(al)) + ":.")
            lines.append(f"{c}\t{var.pos + 1}\t.\t{var.ref}\t{var.alt}\t.\tPASS\t.\tGT:PS\t" + "\t".join(cols))
        p = [v.pos for v in variants[c]]
        groups = [(p[0] - 40, p[joint] + 20), (p[joint] - 20, p[-1] + 40)]
        for x in samples:
            for h in range(ploidy):
                for gi, (a, b) in enumerate(groups):
                    for k in range(params.get("coverage", 8)):
                        seq, cig = synth.hap_walk(ref[c], variants[c], haps[x][h], a + k, b + k)
                        reads.append(dict(name=f"{x}_{c}_h{h}_g{gi}_{k}", sample=x, chrom=c, start=a + k, cigar=cig, seq=seq,
                                          qual=40, hap=h, flag=0))
    vcf = os.path.join(d, "in.vcf")
    with open(vcf, "w") as fh:
        fh.write("\n".join(lines) + "\n")
    bam = write_bam_rg(sc, reads, os.path.join(d, "reads.bam"), {}, None)
    feat = dict(nsamples=nsamples, ploidy=ploidy, nchrom=nchrom, prephased_samples=len(prephased & set(range(nsamples))),
                unphased_samples=nsamples - len(prephased & set(range(nsamples))), mixed_prephasing=True,
                order_names=list(samples))
    P = str(ploidy)
    jobs = [Job("polyphase-use-prephasing-mixed", "polyphase", ["--ploidy", P, "--use-prephasing", "--reference", reff, "-o",
                                                                 "{out}/out.vcf", vcf, bam],
                {"vcf": ("out.vcf", "text")}, dims=("threads",), feat=dict(feat, options="--use-prephasing")),
            Job("polyphase-use-prephasing-mixed-B", "polyphase", ["--ploidy", P, "--use-prephasing", "-B",
                                                                   str(rng.choice([0, 1, 2])), "-o", "{out}/out.vcf", vcf, bam],
                {"vcf": ("out.vcf", "text")}, dims=("threads",), feat=dict(feat, options="--use-prephasing -B (no reference)")),
            Job("polyphase-no-prephasing-mixed", "polyphase", ["--ploidy", P, "--reference", reff, "-o", "{out}/out.vcf", vcf, bam],
                {"vcf": ("out.vcf", "text")}, dims=("threads",), feat=dict(feat, options="(pre-phased input ignored)"))]
    return jobs


BUILDERS = {"polyploid-prephasing": build_polyploid_prephasing, "polyploid-ties": build_polyploid_ties, "input-forms": build_input_forms, "misc": build_misc, "split-ties": build_split_ties, "block-ties": build_block_ties, "ped-coverage": build_ped_coverage, "ped-changes": build_ped_changes, "diploid": build_diploid, "polyploid": build_polyploid, "linked-stress": build_linked_stress,
            "shared-barcode": build_shared_barcode, "undeclared-info": build_undeclared_info}


def build(kind, seed, params, d):
    """(re)generate the input files of a scenario in directory d; returns the list of jobs"""
    rng = random.Random(f"C16/{kind}/{seed}")
    return BUILDERS[kind](rng, d, params)
