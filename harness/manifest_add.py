#!/usr/bin/env python3
"""usage: manifest_add.py Cxx <level text> <level note> <technique> [design_ref]"""
import json, sys
pid, text, note, tech = sys.argv[1:5]
ref = sys.argv[5] if len(sys.argv) > 5 else f"DESIGN.md §6 {pid}"
p = "/verif/MANIFEST.json"
m = json.load(open(p))
m["checks"] = [c for c in m["checks"] if c["property_id"] != pid]
m["checks"].append({
    "property_id": pid,
    "quick_cmd": f"./check {pid} --tier quick",
    "thorough_cmd": f"./check {pid} --tier thorough",
    "evidence_file": f"evidence/{pid}.json",
    "replay_cmd_template": f"./check {pid} --replay {{path}}",
    "engine": "coq",
    "level_claimed": {"category": "proof", "text": text, "design_ref": ref},
    "level_note": note,
    "technique": tech,
})
m["checks"].sort(key=lambda c: c["property_id"])
m["not_applicable"] = [x for x in m.get("not_applicable", []) if x["property_id"] != pid]
for e in m["engines"]:
    if pid not in e["serves_properties"]:
        e["serves_properties"] = sorted(e["serves_properties"] + [pid])
json.dump(m, open(p, "w"), indent=1)
print("claimed:", [c["property_id"] for c in m["checks"]])
