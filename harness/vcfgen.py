"""Generator of small, feature-rich VCF texts for the checks around the phased-VCF writer (C04, C09):
multi-sample, multi-chromosome, extra INFO/FORMAT fields (declared, undeclared-but-predefined and
undeclared-unknown), missing / partial / haploid / triploid genotypes, multi-ALT, symbolic ALT, records
without ALT, duplicate positions, pre-existing PS / HP / PQ phasing, `1/0`-ordered genotypes.
All randomness comes from the `rng` argument."""
from .vcfabs import VcfText

INFO_DEFS = {
    "DP": '##INFO=<ID=DP,Number=1,Type=Integer,Description="Depth">',
    "AF": '##INFO=<ID=AF,Number=A,Type=Float,Description="Allele frequency">',
    "FL": '##INFO=<ID=FL,Number=0,Type=Flag,Description="A flag">',
    "XS": '##INFO=<ID=XS,Number=1,Type=String,Description="Some string">',
    "END": '##INFO=<ID=END,Number=1,Type=Integer,Description="End">',
    "AC": '##INFO=<ID=AC,Number=A,Type=Integer,Description="Allele count">',
    "AN": '##INFO=<ID=AN,Number=1,Type=Integer,Description="Allele number">',
    "SVTYPE": '##INFO=<ID=SVTYPE,Number=1,Type=String,Description="SV type">',
    "XU": '##INFO=<ID=XU,Number=1,Type=Integer,Description="Unknown to whatshap">',
}
PREDEF_INFOS = ["AC", "AN", "END", "SVLEN", "SVTYPE"]
FORMAT_DEFS = {
    "GT": '##FORMAT=<ID=GT,Number=1,Type=String,Description="Genotype">',
    "GQ": '##FORMAT=<ID=GQ,Number=1,Type=Integer,Description="Genotype quality">',
    "DP": '##FORMAT=<ID=DP,Number=1,Type=Integer,Description="Depth">',
    "AD": '##FORMAT=<ID=AD,Number=R,Type=Integer,Description="Allele depths">',
    "XF": '##FORMAT=<ID=XF,Number=1,Type=String,Description="Some text">',
    "FT": '##FORMAT=<ID=FT,Number=1,Type=Float,Description="Some float">',
    "PS": '##FORMAT=<ID=PS,Number=1,Type=Integer,Description="Phase set">',
    "HP": '##FORMAT=<ID=HP,Number=.,Type=String,Description="Haplotype id">',
    "PQ": '##FORMAT=<ID=PQ,Number=1,Type=Float,Description="Phasing quality">',
    "GL": '##FORMAT=<ID=GL,Number=G,Type=Float,Description="Genotype likelihoods">',
    "XG": '##FORMAT=<ID=XG,Number=1,Type=Integer,Description="Unknown to whatshap">',
}
PREDEF_FORMATS = ["GL", "GQ", "GT", "HP", "PQ", "PS", "HS", "AD"]
BASES = "ACGT"


# HP values that are not in whatshap's own `block-haplotype` form
FOREIGN_HP = ["mat,pat", "1,2", "2,1", "h2", "7-1", "a-b,c-d", "3-1,3-2,3-3", "P,M"]

# names in no particular order: sorting against the file order, sharing prefixes, looking like tags or roles
SAMPLE_NAMES = ["S1", "S2", "S3", "S10", "NA12878", "NA12", "child", "mother", "father", "B", "A", "sample_2", "HP", "PS", "s1"]
CHROM_NAMES = ["chrA", "chrB", "chrC", "chr1", "chr11", "chr2", "chr10", "X", "2", "1", "contig_1", "chrUn_x"]


def draw_names(rng, pool, n):
    """n distinct names from the pool in random order (so file order and sorted order differ)"""
    return rng.sample(pool, n)


def _alt_for(rng, kind, ref_base):
    other = [b for b in BASES if b != ref_base]
    if kind == "snv":
        return ref_base, rng.choice(other)
    if kind == "mnp":
        return ref_base + "C", rng.choice(other) + "A"
    if kind == "ins":
        return ref_base, ref_base + rng.choice(["G", "GT", "TTA"])
    if kind == "del":
        return ref_base + rng.choice(["C", "CA"]), ref_base
    if kind == "multi":
        a, b = rng.sample(other, 2)
        return ref_base, a + "," + b
    if kind == "multi_indel":
        return ref_base, ref_base + "T," + rng.choice(other)
    if kind == "sym":
        return ref_base, rng.choice(["<DEL>", "<INS>", "<DUP>", "<*>", "<NON_REF>"])
    if kind == "sym_multi":
        return ref_base, rng.choice(other) + ",<*>"
    if kind == "star":
        return ref_base, "*"
    if kind == "noalt":
        return ref_base, "."
    raise ValueError(kind)


GT_SHAPES_DIPLOID = ["0/1", "0/1", "0/1", "1/0", "0|1", "1|0", "0/0", "1/1", "1|1", "0|0"]
GT_SHAPES_ODD = ["./.", ".", "0/.", ".|1", "./1", "0", "1", "0/1/1", "0|1|1", "0/1|1"]


def gen_vcf(rng, nsamples=None, nchrom=None, nrec=None, allow_odd=True, allow_undeclared=True,
            allow_unknown_undeclared=False, allow_no_gt=True, prephase=None, interleave_chroms=False,
            ploidy_consistent=False, kinds=None):
    """Returns (VcfText, meta). meta: dict(chroms=[...in order of runs], positions={chrom: [0-based pos per record]})."""
    nsamples = nsamples or rng.choice([1, 1, 2, 3, 3, 4])
    nchrom = nchrom or rng.choice([1, 2, 2, 3])
    samples = draw_names(rng, SAMPLE_NAMES, nsamples)
    chroms = draw_names(rng, CHROM_NAMES, nchrom)
    prephase = prephase if prephase is not None else rng.choice([None, None, "PS", "HP", "both", "mixed"])
    kinds = kinds or ["snv"] * 8 + ["mnp", "ins", "del", "multi", "multi_indel", "sym", "sym", "sym_multi", "star", "noalt"]

    info_pool = ["DP", "AF", "FL", "XS"]
    fmt_pool = ["GQ", "DP", "AD", "XF", "FT"]
    used_info, used_fmt = set(), {"GT"}
    undeclared_info, undeclared_fmt = set(), set()
    if allow_undeclared:
        if rng.random() < 0.3:
            undeclared_info |= set(rng.sample(["AC", "AN", "SVTYPE", "END"], rng.randint(1, 2)))
        if rng.random() < 0.3:
            undeclared_fmt |= set(rng.sample(["GQ", "AD", "PS", "HP", "PQ", "GT"], rng.randint(1, 2)))
    unknown = None
    if allow_unknown_undeclared and rng.random() < 0.5:
        unknown = rng.choice(["info", "format"])
    undeclared_contigs = set()
    if allow_undeclared and rng.random() < 0.15:
        undeclared_contigs = set(rng.sample(chroms, rng.randint(1, len(chroms))))

    ps_type = rng.choice(["Integer"] * 12 + ["Float", "String"]) if allow_unknown_undeclared is not None else "Integer"
    vt = VcfText(samples, [])
    positions = {}
    run_order = list(chroms)
    if interleave_chroms and nchrom >= 2:
        run_order = chroms + [chroms[0]]
    nrec_total = 0
    ps_value = {}
    for run_i, c in enumerate(run_order):
        n = nrec if nrec is not None else rng.randint(1, 9)
        p = rng.randint(1, 30) + (5000 if run_i >= len(chroms) else 0)
        for _ in range(n):
            kind = rng.choice(kinds)
            ref, alt = _alt_for(rng, kind, rng.choice(BASES))
            nalt = 0 if alt == "." else len(alt.split(","))
            # INFO
            items = []
            for k in info_pool:
                if rng.random() < 0.25:
                    used_info.add(k)
                    if k == "DP":
                        items.append(f"DP={rng.randint(1, 99)}")
                    elif k == "AF":
                        items.append("AF=" + ",".join(rng.choice(["0.5", "0.25", "1", "0.125"]) for _ in range(max(1, nalt))))
                    elif k == "FL":
                        items.append("FL")
                    else:
                        items.append("XS=" + rng.choice(["foo", "bar_1", "x"]))
            for k in sorted(undeclared_info):
                if rng.random() < 0.5 and k != "END":
                    used_info.add(k)
                    if k == "AC":
                        items.append("AC=" + ",".join(str(rng.randint(0, 4)) for _ in range(max(1, nalt))))
                    elif k == "AN":
                        items.append(f"AN={rng.randint(1, 8)}")
                    else:
                        items.append("SVTYPE=" + rng.choice(["DEL", "INS"]))
            if unknown == "info" and rng.random() < 0.5:
                used_info.add("XU")
                items.append(f"XU={rng.randint(0, 9)}")
            symbolic = any(a.startswith("<") for a in alt.split(","))
            if symbolic and rng.random() < 0.5:
                used_info.add("END")
                items.append(f"END={p + rng.randint(0, 40)}")
            elif not symbolic and rng.random() < 0.04:
                used_info.add("END")
                items.append(f"END={p + len(ref) - 1 + rng.choice([0, 0, 7])}")
            rng.shuffle(items)
            info = ";".join(items) or "."
            # FORMAT
            keys = [k for k in fmt_pool if rng.random() < 0.3]
            if unknown == "format" and rng.random() < 0.5:
                keys.append("XG")
            rng.shuffle(keys)
            pre = []
            if prephase in ("PS", "both") or (prephase == "mixed" and rng.random() < 0.5):
                pre.append("PS")
            if prephase in ("HP", "both") or (prephase == "mixed" and rng.random() < 0.5):
                pre.append("HP")
            if pre and rng.random() < 0.3:
                pre.append("PQ")
            if prephase and rng.random() < 0.25:
                pre = []
            keys = keys + pre
            rng.shuffle(keys)
            has_gt = not (allow_no_gt and rng.random() < 0.012)
            fmt = (["GT"] if has_gt else []) + keys
            if not fmt:
                fmt = ["GQ"]
            used_fmt |= set(fmt)
            calls = []
            for s in samples:
                if allow_odd and rng.random() < 0.15 and not ploidy_consistent:
                    gt = rng.choice(GT_SHAPES_ODD)
                elif allow_odd and rng.random() < 0.08:
                    gt = rng.choice(["./.", "0/.", ".|1", "./1"])
                else:
                    gt = rng.choice(GT_SHAPES_DIPLOID)
                    if nalt >= 2 and rng.random() < 0.5:
                        gt = rng.choice(["1/2", "0/2", "2|1", "2/2", "1|2"])
                vals = []
                for k in fmt:
                    if k == "GT":
                        vals.append(gt)
                    elif rng.random() < 0.12:
                        vals.append(".")
                    elif k == "GQ":
                        vals.append(str(rng.randint(0, 99)))
                    elif k == "DP":
                        vals.append(str(rng.randint(0, 60)))
                    elif k == "AD":
                        vals.append(",".join(str(rng.randint(0, 30)) for _ in range(nalt + 1)))
                    elif k == "XF":
                        vals.append(rng.choice(["a", "bc", "d_e"]))
                    elif k == "FT":
                        vals.append(rng.choice(["0.5", "1.25", "3", "12.5"]))
                    elif k == "XG":
                        vals.append(str(rng.randint(0, 9)))
                    elif k == "PS":
                        key = (s, c)
                        if key not in ps_value or rng.random() < 0.3:
                            ps_value[key] = p
                        vals.append(str(ps_value[key]) + (".5" if ps_type == "Float" and "PS" not in undeclared_fmt and rng.random() < 0.5 else ""))
                    elif k == "HP":
                        key = (s, c)
                        if key not in ps_value or rng.random() < 0.3:
                            ps_value[key] = p
                        b = ps_value[key]
                        r = rng.random()
                        if r < 0.38:
                            vals.append(f"{b}-1,{b}-2")
                        elif r < 0.76:
                            vals.append(f"{b}-2,{b}-1")
                        elif r < 0.9:
                            vals.append(rng.choice(FOREIGN_HP))       # written by another tool
                        else:
                            vals.append(".")
                    elif k == "PQ":
                        vals.append(rng.choice(["42", "3.5", "20", "0.125", "99"]))
                while len(vals) > 1 and vals[-1] == "." and rng.random() < 0.5:
                    vals.pop()          # trailing missing fields may be dropped
                calls.append(":".join(vals))
            vt.add(c, p, ref, alt, ":".join(fmt), calls,
                   id=rng.choice([".", ".", f"rs{p}", f"id{p};x{p}"]),
                   qual=rng.choice([".", ".", "30", "29.5", "500"]),
                   filt=rng.choice([".", "PASS", "PASS", "q10", "q10;s50"]), info=info)
            positions.setdefault(run_i, []).append(p - 1)
            nrec_total += 1
            if rng.random() < 0.12:
                pass                     # duplicate position: keep p
            else:
                p += rng.randint(1, 40) + len(ref)

    # header
    hl = ["##fileformat=VCFv4.2"]
    extra = []
    nph = rng.choice([0, 0, 1, 1, 2])
    for i in range(nph):
        extra.append("##phasing=" + rng.choice(["none", "partial"]))
    if rng.random() < 0.5:
        extra.append("##source=generator v1")
    if rng.random() < 0.3:
        extra.append("##reference=file:///some/ref.fa")
    if rng.random() < 0.3:
        extra.append('##ALT=<ID=DEL,Description="Deletion">')
    if rng.random() < 0.2:
        extra.append('##commandline="(whatshap 1.0) phase -o old.vcf in.vcf reads.bam"')
    extra.append('##FILTER=<ID=q10,Description="Quality below 10">')
    extra.append('##FILTER=<ID=s50,Description="Less than 50% of samples have data">')
    for c in chroms:
        if c not in undeclared_contigs:
            extra.append(f"##contig=<ID={c},length=100000>")
    if rng.random() < 0.3:
        extra.append("##contig=<ID=chrUnused,length=5>")
    for k in sorted(used_info | ({"DP"} if rng.random() < 0.3 else set())):
        if k in undeclared_info or (k == "XU" and unknown == "info"):
            continue
        extra.append(INFO_DEFS[k])
    for k in sorted(used_fmt | ({"GQ"} if rng.random() < 0.3 else set())):
        if k in undeclared_fmt or (k == "XG" and unknown == "format"):
            continue
        line = FORMAT_DEFS[k]
        if k == "AD" and rng.random() < 0.5:
            line = line.replace("Number=R", "Number=.")
        if k == "PS" and ps_type != "Integer":
            line = line.replace("Type=Integer", "Type=" + ps_type)
        if k == "GQ" and rng.random() < 0.2:
            line = line.replace("Type=Integer", "Type=Float")
        extra.append(line)
    rng.shuffle(extra)
    vt.header_lines = hl + extra
    if nrec == 0:
        run_order = []
    meta = {"samples": samples, "chroms": chroms, "runs": run_order, "positions": positions, "prephase": prephase,
            "unknown_undeclared": unknown, "ps_type": ps_type}
    return vt, meta


UNUSABLE_KINDS = ["all_multi_alt", "all_no_alt", "all_indel_only_snvs"]


def make_unusable_chromosome(rng, vt, chrom, kind, enc=None):
    """Turn every record of `chrom` in the VcfText into one that whatshap phase cannot use (multi-ALT / no ALT / not
    an SNV, the latter unusable under --only-snvs), so that the chromosome's variant table is empty; with enc in
    ("PS", "HP") every call of the chromosome additionally carries earlier phase information in that encoding
    (also on homozygous calls and on the unsupported record types)."""
    other = {"A": "C", "C": "G", "G": "T", "T": "A"}
    for row in vt.rows:
        if row[0] != chrom:
            continue
        ref, alts = row[3], row[4].split(",")
        if kind == "all_multi_alt":
            if len(alts) < 2:
                a0 = alts[0] if alts[0] != "." else other.get(ref[0], "A")
                alts = [a0, a0 + "T" if not a0.startswith("<") else "T"]
            gts = ["1|2", "2|1", "0|1", "1|1"]
        elif kind == "all_no_alt":
            alts = ["."]
            gts = ["0|0"]
        else:
            if len(ref) == 1 and alts[0] != "." and all(len(a) == 1 for a in alts):
                ref = ref + "CA"                      # a deletion-like record: not an SNV
            if alts == ["."]:
                alts = ["."]
            gts = ["0|1", "1|0", "1|1"]
        row[3], row[4] = ref, ",".join(alts)
        if enc is None:
            fmt = row[8].split(":")
            for i in range(9, len(row)):               # keep the calls, only make the GT fit the new ALT list
                f = row[i].split(":")
                if fmt[0] == "GT":
                    f[0] = rng.choice(gts).replace("|", "/")
                row[i] = ":".join(f)
            continue
        withpq = rng.random() < 0.3
        if enc == "PS":
            row[8] = "GT:PS" + (":PQ" if withpq else "")
            for i in range(9, len(row)):
                row[i] = rng.choice(gts) + ":7" + (":42" if withpq else "")
        else:
            row[8] = "GT:HP" + (":PQ" if withpq else "")
            for i in range(9, len(row)):
                row[i] = rng.choice(gts).replace("|", "/") + ":" + rng.choice(["7-1,7-2", "7-2,7-1"]) + (":42" if withpq else "")
    for k in ((enc, "PQ") if enc else ()):
        if not any(("ID=" + k + ",") in ln for ln in vt.header_lines):
            vt.header_lines.append(FORMAT_DEFS[k])
