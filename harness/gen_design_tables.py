#!/usr/bin/env python3
"""Regenerate the machine-maintained tables of DESIGN.md (between the BEGIN/END markers) from
known_findings.json, seeded/*/meta.json and MANIFEST.json."""
import glob, json, os, re
V = os.path.dirname(os.path.dirname(os.path.abspath(__file__)))
d = open(os.path.join(V, "DESIGN.md")).read()
kf = json.load(open(os.path.join(V, "known_findings.json")))["findings"]
rows = ["| property | signature | status | commit | what failed |", "|---|---|---|---|---|"]
for f in sorted(kf, key=lambda f: (f["property"], f["signature"])):
    what = f["what"]
    what = re.sub(r"^fixed: property=\S+ \S+ ", "", what).replace("|", "\\|")
    rows.append(f"| {f['property']} | `{f['signature']}` | {f['status']} | {f.get('commit','')} | {what} |")
findings = "\n".join(rows)
rows = ["| seeded change | breaks | needs to manifest | demo fails with / passes without | suite still passes | caught by |", "|---|---|---|---|---|---|"]
for p in sorted(glob.glob(os.path.join(V, "seeded", "*", "meta.json"))):
    m = json.load(open(p))
    caught = ", ".join(m.get("caught_by", [])) or "**missed**"
    rows.append(f"| `{m['seed_id']}` — {m.get('what','')} | {','.join(m['breaks'])} | {m.get('needs_to_manifest','')} | "
                f"{m.get('demo_fails_with')} / {m.get('demo_passes_without')} | {m.get('tests_passed','n/a')} | {caught} |")
seeded = "\n".join(rows)
man = json.load(open(os.path.join(V, "MANIFEST.json")))
claimed = ", ".join(c["property_id"] for c in man["checks"])
na = ", ".join(x["property_id"] for x in man.get("not_applicable", [])) or "none"
status = f"Claimed in MANIFEST.json: {claimed}. Not (yet) claimed: {na}."
def put(name, body):
    global d
    b, e = f"<!-- BEGIN {name} -->", f"<!-- END {name} -->"
    if b not in d:
        raise SystemExit(f"marker {name} missing")
    d = d[:d.index(b) + len(b)] + "\n" + body + "\n" + d[d.index(e):]
# theorem inventory
inv = []
for c in man["checks"]:
    pid = c["property_id"]
    pf = os.path.join(V, "coq", "props", pid + ".v")
    if not os.path.exists(pf):
        continue
    body = open(pf).read()
    names = re.findall(r"^\s*(?:Theorem|Lemma|Corollary)\s+(\w+)", body, re.M)
    ex = len(re.findall(r"^\s*Example\s+\w+", body, re.M))
    full = [n for n in names if not n.endswith("_partial") and "_refuted" not in n]
    part = [n for n in names if n.endswith("_partial")]
    ref = [n for n in names if "_refuted" in n]
    closed = "?"
    ev = os.path.join(V, "evidence", pid + ".json")
    if os.path.exists(ev):
        try:
            th = json.load(open(ev))["coverage"].get("theorems", [])
            closed = f"{sum(1 for t in th if t.get('closed'))}/{len(th)} closed under the global context"
        except Exception:
            pass
    deps = sorted(set(re.findall(r"From WH\.(?:Model|Proofs) Require Import ([^.]+)\.", body)))
    inv.append(f"* **{pid}** — `coq/props/{pid}.v`: {len(names)} theorems ({len(full)} full, {len(part)} `_partial`, {len(ref)} `_refuted` witnesses of pre-fix or unrepaired behaviour), {ex} non-vacuity examples; {closed}.\n"
               f"  imports: {'; '.join(deps)}.\n"
               + ("  partial: " + ", ".join(f"`{n}`" for n in part) + "\n" if part else "")
               + "  full: " + ", ".join(f"`{n}`" for n in full))
inventory = "\n".join(inv)
put("INVENTORY", inventory)
put("FINDINGS", findings)
put("SEEDED", seeded)
put("CLAIMED", status)
open(os.path.join(V, "DESIGN.md"), "w").write(d)
print("DESIGN.md tables regenerated")
