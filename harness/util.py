"""Small shared helpers: scratch directories, running the real CLI from the scratch build."""
import atexit
import os
import shutil
import subprocess
import tempfile

WORK_ROOT = os.environ.get("WHVERIF_WORK_ROOT", "/var/tmp/whverif-work")
PY = "/venv/bin/python"


def workdir(ctx, prefix=None):
    os.makedirs(WORK_ROOT, exist_ok=True)
    d = tempfile.mkdtemp(prefix=(prefix or ctx.pid) + "-", dir=WORK_ROOT)
    if not os.environ.get("WHVERIF_KEEP_WORK"):
        atexit.register(shutil.rmtree, d, ignore_errors=True)
    return d


def run_cli(ctx, args, cwd=None, env_extra=None, timeout=600, hashseed="0"):
    """Run `python -m whatshap <args>` from the scratch build of /repo's working tree.
    Returns (returncode, stdout, stderr)."""
    env = dict(os.environ)
    env["PYTHONPATH"] = ctx.impl
    env["PYTHONHASHSEED"] = str(hashseed)
    env["PYTHONDONTWRITEBYTECODE"] = "1"
    env.pop("WHATSHAP_VERIF_TRACE", None)
    if env_extra:
        env.update(env_extra)
    # a run that hits the time limit on a busy machine is repeated once with a longer limit before it counts as a hang
    for limit in (timeout, min(3 * timeout, timeout + 900)):
        try:
            r = subprocess.run([PY, "-m", "whatshap"] + [str(a) for a in args], cwd=cwd, env=env,
                               stdout=subprocess.PIPE, stderr=subprocess.PIPE, text=True, timeout=limit)
            return r.returncode, r.stdout, r.stderr
        except subprocess.TimeoutExpired as e:
            last = e
    return 124, (last.stdout or b"").decode() if isinstance(last.stdout, bytes) else (last.stdout or ""), "TIMEOUT"


def run_py(ctx, code, cwd=None, env_extra=None, timeout=600, hashseed="0", stdin=None):
    """Run a python snippet against the scratch build in a separate process (isolates C++ aborts)."""
    env = dict(os.environ)
    env["PYTHONPATH"] = ctx.impl + os.pathsep + os.path.dirname(os.path.dirname(os.path.abspath(__file__)))
    env["PYTHONHASHSEED"] = str(hashseed)
    env["PYTHONDONTWRITEBYTECODE"] = "1"
    if env_extra:
        env.update(env_extra)
    r = subprocess.run([PY, "-c", code], cwd=cwd, env=env, input=stdin, stdout=subprocess.PIPE,
                       stderr=subprocess.PIPE, text=True, timeout=timeout)
    return r.returncode, r.stdout, r.stderr


def shrink_list(items, bad):
    """greedy delta debugging: remove elements while bad(items) stays True."""
    items = list(items)
    chunk = max(1, len(items) // 2)
    while chunk >= 1:
        i = 0
        while i < len(items):
            cand = items[:i] + items[i + chunk:]
            if cand != items and bad(cand):
                items = cand
            else:
                i += chunk
        chunk //= 2
    return items
