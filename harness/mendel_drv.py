"""C05 helpers: pedigree instance generators, the child-process driver of the real PedigreeDPTable, the synthetic
family scenarios for `whatshap phase --ped`, and the renderers of Coq case terms (model: coq/model/Mendel.v).

Every random choice comes from an rng handed in by the caller (derived from VERIF_SEED); instances/specs are plain
json-able values so that a replay file reproduces a case exactly.
"""
import itertools
import json
import os
import random
import sys

GENOS = [(0, 0), (0, 1), (1, 1)]


# ------------------------------------------------------------------------------------------- pedigrees
def make_pedigree(rng, kind, extra=False, shuffle=True):
    """kind: 'trio' | 'quartet' | 'threegen'.  Returns dict(n, names (index order), triples [(f, m, c)] as indices,
    kind). Individuals are shuffled so that index order is in general NOT topological (phase.py uses VCF sample order)."""
    if kind == "trio":
        names = ["F", "M", "C"]
        rel = [("F", "M", "C")]
    elif kind == "quartet":
        names = ["F", "M", "C1", "C2"]
        rel = [("F", "M", "C1"), ("F", "M", "C2")]
    elif kind == "quintet":
        names = ["F", "M", "C1", "C2", "C3"]
        rel = [("F", "M", "C1"), ("F", "M", "C2"), ("F", "M", "C3")]
    elif kind == "threegen":
        names = ["GF", "GM", "P", "O", "C"]
        rel = [("GF", "GM", "P"), ("P", "O", "C") if rng.random() < 0.5 else ("O", "P", "C")]
    else:
        raise ValueError(kind)
    if extra:
        names = names + ["X"]
    names = list(names)
    if shuffle:
        rng.shuffle(names)
        rng.shuffle(rel)
    idx = {s: i for i, s in enumerate(names)}
    return {"kind": kind, "n": len(names), "names": names,
            "triples": [[idx[f], idx[m], idx[c]] for f, m, c in rel]}


def topo_order(ped):
    """individual indices, parents before children"""
    parents = {c: (f, m) for f, m, c in ped["triples"]}
    done, out = set(), []

    def visit(i):
        if i in done:
            return
        if i in parents:
            visit(parents[i][0])
            visit(parents[i][1])
        done.add(i)
        out.append(i)
    for i in range(ped["n"]):
        visit(i)
    return out


def consistent_haps(rng, ped, ncols, recomb=0.2):
    """true haplotypes per individual [(a0, a1) per column] obeying Mendel (with recombination)"""
    parents = {c: (f, m) for f, m, c in ped["triples"]}
    haps = {}
    for i in topo_order(ped):
        if i not in parents:
            haps[i] = [(rng.randint(0, 1), rng.randint(0, 1)) for _ in range(ncols)]
        else:
            f, m = parents[i]
            pf, pm = rng.randint(0, 1), rng.randint(0, 1)
            h = []
            for j in range(ncols):
                if j and rng.random() < recomb:
                    pf ^= 1
                if j and rng.random() < recomb:
                    pm ^= 1
                h.append((haps[f][j][pf], haps[m][j][pm]))
            haps[i] = h
    return haps


def py_conflict(ped, col):
    """python mirror of Mendel.col_conflict (search / generation only)"""
    for f, m, c in ped["triples"]:
        gm, gf, gc = col[m], col[f], col[c]
        if not gm or not gf or not gc:
            continue
        c0, c1 = max(gc), min(gc)
        if not ((c0 in gm and c1 in gf) or (c1 in gm and c0 in gf)):
            return True
    return False


def make_reads(rng, ped, ncols, positions, haps=None, max_reads=7, noise=0.15, members=None):
    """reads: [{ind, vars: [[pos, allele, q]]}], at most max_reads in total"""
    reads = []
    members = list(range(ped["n"])) if members is None else members
    budget = max_reads
    for i in members:
        k = rng.choice([0, 0, 1, 1, 2, 3])
        for _ in range(k):
            if budget <= 0:
                break
            s = rng.randrange(ncols)
            e = rng.randrange(s, ncols)
            cols = [j for j in range(s, e + 1) if j in (s, e) or rng.random() < 0.8]
            h = rng.randint(0, 1)
            vs = []
            for j in cols:
                if haps is not None and rng.random() >= noise:
                    a = haps[i][j][h]
                else:
                    a = rng.randint(0, 1)
                vs.append([positions[j], a, rng.choice([0, 1, 5, 10, 20, 30, 30, 40])])
            reads.append({"ind": i, "vars": vs})
            budget -= 1
    return reads


def make_instance(rng, kind=None, ncols=None, mode=None, extra=None, first_col=None, no_reads=None):
    kind = kind or rng.choice(["trio", "trio", "quartet", "quartet", "threegen", "quintet"])
    extra = (rng.random() < 0.25) if extra is None else extra
    ped = make_pedigree(rng, kind, extra=extra)
    n = ped["n"]
    ncols = rng.choice([1, 2, 2, 3, 3, 4, 5]) if ncols is None else ncols
    mode = mode or rng.choice(["consistent", "consistent", "consistent", "any", "missing"])
    positions = sorted(rng.sample(range(10, 400), ncols))
    haps = consistent_haps(rng, ped, ncols, recomb=rng.choice([0.0, 0.2, 0.5]))
    genos = []
    for j in range(ncols):
        col = [sorted(haps[i][j]) for i in range(n)]
        if mode == "any" and rng.random() < 0.4:
            col = [list(rng.choice(GENOS)) for _ in range(n)]
        if mode == "missing" and rng.random() < 0.3:
            col[rng.randrange(n)] = []
        genos.append(col)
    if first_col is not None:
        genos[0] = [list(g) for g in first_col]
    if no_reads is None:
        no_reads = rng.random() < 0.2
    reads = [] if no_reads or ncols == 0 else make_reads(rng, ped, ncols, positions, haps=haps if rng.random() < 0.7 else None)
    recomb = [rng.choice([0, 1, 5, 10, 30, 100]) for _ in range(ncols)]
    return {"ped": ped, "positions": positions, "genos": genos, "reads": reads, "recomb": recomb}


# ------------------------------------------------------------------------------------------- child process
def child_main():
    """stdin: json list of instances; stdout: one json line per instance (flushed), so that the parent can tell which
    instance killed the process (C++ assert)."""
    from whatshap.core import ReadSet, Read, Pedigree, PedigreeDPTable, Genotype, NumericSampleIds
    insts = json.load(sys.stdin)
    for inst in insts:
        ped = inst["ped"]
        try:
            ids = NumericSampleIds()
            p = Pedigree(ids)
            for i, name in enumerate(ped["names"]):
                p.add_individual(name, [Genotype(list(col[i])) for col in inst["genos"]])
            for f, m, c in ped["triples"]:
                p.add_relationship(ped["names"][f], ped["names"][m], ped["names"][c])
            rs = ReadSet()
            for k, r in enumerate(inst["reads"]):
                rd = Read(str(k), 60, 0, ids[ped["names"][r["ind"]]])
                for pos, a, q in r["vars"]:
                    rd.add_variant(pos, a, q)
                rs.add(rd)
            rs.sort()
            order = [int(r.name) for r in rs]
            dp = PedigreeDPTable(rs, inst["recomb"], p, False, inst["positions"])
            srs, tv = dp.get_super_reads()
            out = {"ok": True, "tv": list(tv), "cost": dp.get_optimal_cost(), "order": order,
                   "part": list(dp.get_optimal_partitioning()),
                   "sr": [[[[v.position, v.allele] for v in sr] for sr in s] for s in srs],
                   "sr_ids": [[sr.sample_id for sr in s] for s in srs],
                   "ids": [ids[nm] for nm in ped["names"]]}
        except Exception as e:  # C++ exceptions arrive as RuntimeError
            out = {"ok": False, "err": type(e).__name__, "msg": str(e)[:200]}
        sys.stdout.write(json.dumps(out) + "\n")
        sys.stdout.flush()


CHILD = "from harness.mendel_drv import child_main; child_main()"


def run_direct(ctx, insts, jobs=12, chunk=150):
    """run instances through the real PedigreeDPTable in child processes; returns one result dict per instance
    ({'crash': ...} if the process died on it)."""
    from concurrent.futures import ThreadPoolExecutor
    from .util import run_py
    results = [None] * len(insts)

    def work(lo):
        idxs = list(range(lo, min(lo + chunk, len(insts))))
        while idxs:
            rc, out, err = run_py(ctx, CHILD, stdin=json.dumps([insts[i] for i in idxs]), timeout=1200)
            lines = [l for l in out.split("\n") if l.strip()]
            got = 0
            for i, l in zip(idxs, lines):
                try:
                    results[i] = json.loads(l)
                    got += 1
                except ValueError:
                    break
            if got < len(idxs):
                results[idxs[got]] = {"ok": False, "crash": rc, "msg": err[-300:]}
                idxs = idxs[got + 1:]
            else:
                idxs = []
    with ThreadPoolExecutor(max_workers=jobs) as ex:
        list(ex.map(work, range(0, len(insts), chunk)))
    return results


# ------------------------------------------------------------------------------------------- Coq terms
def _lst(items, ty):
    """Coq list literal; an empty list gets its type so that Coq can infer the element type"""
    return "[" + "; ".join(items) + "]" if items else f"([] : list {ty})"


def geno_term(g):
    return _lst([f"{a}%Z" for a in sorted(g, reverse=True)], "Z")


def genos_term(gs):
    return _lst([geno_term(g) for g in gs], "geno")


def triples_term(ts):
    return _lst([f"({f}, {m}, {c})" for f, m, c in ts], "triple")


def entries_term(es):
    return _lst([f"({i}, {'true' if side else 'false'}, {a}%Z, {q}%Z)" for i, side, a, q in es], "entry")


def zpairs_term(l):
    return _lst([f"({a}%Z, {b}%Z)" for a, b in l], "(Z * Z)")


def direct_case_term(inst, res):
    """(n, ts, [(gs, t, entries, alleles)]) for an instance the implementation solved"""
    ped = inst["ped"]
    n = ped["n"]
    side_of = {}
    for k, orig in enumerate(res["order"]):
        side_of[orig] = res["part"][k]          # 0 = haplotype 0
    cols = []
    for j, pos in enumerate(inst["positions"]):
        es = []
        for k, r in enumerate(inst["reads"]):
            for p, a, q in r["vars"]:
                if p == pos:
                    es.append((r["ind"], side_of[k] == 1, a, q))
        alle = []
        for i in range(n):
            s0 = dict(map(tuple, res["sr"][i][0]))
            s1 = dict(map(tuple, res["sr"][i][1]))
            alle.append((s0.get(pos, -9), s1.get(pos, -9)))
        gs = genos_term(inst["genos"][j])
        cols.append(f"({gs}, {res['tv'][j]}%N, {entries_term(es)}, {zpairs_term(alle)})")
    return f"({n}, {triples_term(ped['triples'])}, " + _lst(cols, "direct_col") + ")"


def conflict_case_term(inst, raised):
    ped = inst["ped"]
    cols = _lst([genos_term(col) for col in inst["genos"]], "(list geno)")
    return f"({ped['n']}, {triples_term(ped['triples'])}, {cols}, {'true' if raised else 'false'})"


# ------------------------------------------------------------------------------------------- python oracle (search only)
def py_sr_column_ok(ped, gs, t, alle):
    """mirror of Mendel.sr_column_ok; used only to look for failing inputs, verdicts come from Coq"""
    for k, (f, m, c) in enumerate(ped["triples"]):
        for h, par, bit in ((0, f, 2 * k), (1, m, 2 * k + 1)):
            a = alle[c][h]
            if a == 3:
                continue
            if a not in (0, 1) or a not in gs[par]:
                return False
            pa = alle[par][0 if (t >> bit) & 1 else 1]
            if pa != 3 and pa != a:
                return False
    for i in range(ped["n"]):
        a, b = alle[i]
        if a == 3 or b == 3:
            continue
        if a not in (0, 1) or b not in (0, 1) or sorted((a, b)) != sorted(gs[i]):
            return False
    return True


# ------------------------------------------------------------------------------------------- CLI scenarios
def random_names(rng, k):
    """k distinct sample names of mixed styles, so that alphabetical order is unrelated to the roles; some share prefixes"""
    out = set()
    letters = "abcdefghijklmnopqrstuvwxyz"
    base = "".join(rng.choice(letters) for _ in range(rng.randint(1, 3)))
    while len(out) < k:
        style = rng.randrange(6)
        if style == 0:
            nm = "NA" + "".join(rng.choice("0123456789") for _ in range(5))
        elif style == 1:
            nm = "".join(rng.choice(letters) for _ in range(rng.randint(2, 8)))
        elif style == 2:
            nm = rng.choice(letters).upper() + "".join(rng.choice(letters) for _ in range(rng.randint(1, 5)))
        elif style == 3:
            nm = rng.choice("123456789") + "".join(rng.choice(letters + "0123456789_") for _ in range(rng.randint(1, 5)))
        elif style == 4:   # shared prefix: s, s1, s10, s2 ...
            nm = base + rng.choice(["", "1", "2", "10", "11", "_1", "a", "ab"])
        else:
            nm = rng.choice(["son", "daughter", "father", "mother", "kid", "dad", "mum", "proband", "sib", "HG", "s"]) \
                + rng.choice(["", "", "1", "2", "_a", "_b", "-x"])
        out.add(nm)
    out = list(out)
    rng.shuffle(out)
    return out


FAMILY_SHAPES = ["1child", "1child", "2child", "2child", "2child", "3child", "threegen", "threegen"]


def make_family(rng, names, shape):
    """pops names; returns {"shape", "members", "trios": [[child, father, mother]]}"""
    fa, mo = names.pop(), names.pop()
    if shape == "threegen":
        # grandparents -> one of the parents; one or two grandchildren
        gf, gm = names.pop(), names.pop()
        trios = [[fa, gf, gm] if rng.random() < 0.5 else [mo, gf, gm]]
        kids = [names.pop() for _ in range(rng.choice([1, 1, 2]))]
        trios += [[k, fa, mo] for k in kids]
        members = [gf, gm, fa, mo] + kids
    else:
        kids = [names.pop() for _ in range(int(shape[0]))]
        trios = [[k, fa, mo] for k in kids]
        members = [fa, mo] + kids
    return {"shape": shape, "members": members, "trios": trios}


def shape_size(shape):
    return {"1child": 3, "2child": 4, "3child": 5, "threegen": 6}[shape]


def make_cli_spec(rng, **kw):
    """families with 1-3 children or three generations (sometimes two independent families), random sample names,
    VCF column order, PED line order and --sample order shuffled independently of each other and of the roles; PED files
    with founder lines, ignored relationships, comments; input genotypes in several spellings; most options of
    `whatshap phase` that do not change the meaning of the property"""
    nfam = kw.get("nfam") or (2 if rng.random() < 0.2 else 1)
    shapes = [kw.get("shape") or rng.choice(FAMILY_SHAPES) for _ in range(nfam)]
    if nfam == 2:
        shapes = [sh if sh in ("1child", "2child") else "2child" for sh in shapes]
    extra = kw.get("extra", rng.random() < 0.3)
    names = random_names(rng, sum(shape_size(sh) for sh in shapes) + (1 if extra else 0) + 3)
    families = [make_family(rng, names, sh) for sh in shapes]
    other = names.pop() if extra else None
    ghosts = [names.pop() for _ in range(3)]            # names that are NOT in the VCF
    members = [x for f in families for x in f["members"]]
    samples = members + ([other] if other else [])
    rng.shuffle(samples)
    big = any(sh in ("3child", "threegen") for sh in shapes)
    # ---- sample selection
    sample_arg = kw.get("sample_arg") or rng.choice(["none", "none", "none", "sample", "use-ped"])
    sample_list = None
    if sample_arg == "sample":
        sample_list = members + ([other] if other and rng.random() < 0.5 else [])
        rng.shuffle(sample_list)
    # ---- PED file
    entries = [("trio", t) for f in families for t in f["trios"]]
    childs = {t[0] for f in families for t in f["trios"]}
    for x in members:
        if x not in childs and rng.random() < 0.4:
            entries.append(("founder", [x, "0", "0"]))
    if other and rng.random() < 0.5:
        # relationship with one unknown parent: ignored by whatshap, `other` stays unrelated
        par = rng.choice(members)
        entries.append(("ignored", [other, par, "0"] if rng.random() < 0.5 else [other, "0", par]))
    if sample_arg != "use-ped" and rng.random() < 0.25:
        # a trio whose members are not all in the VCF: ignored
        entries.append(("ignored", [ghosts[0], rng.choice(members), ghosts[1]]))
    rng.shuffle(entries)
    ped_text, ped_lines = [], []
    if rng.random() < 0.4:
        ped_text.append("#family individual father mother sex phenotype")
    for kind, (c, f, m) in entries:
        sep = rng.choice(["\t", " ", "  ", "\t"])
        famid = rng.choice(["FAM", "F1", "x", c])
        ped_text.append(sep.join([famid, c, f, m, rng.choice(["0", "1", "2"]), rng.choice(["0", "1", "-9"])]))
        if kind == "trio":
            ped_lines.append([c, f, m])
        if rng.random() < 0.1:
            ped_text.append("")
        if rng.random() < 0.1:
            ped_text.append("# comment " + c)
    reads_mode = kw.get("reads_mode") or rng.choice(["all", "all", "some", "none", "children", "parents"])
    if reads_mode == "all":
        reads_for = list(samples)
    elif reads_mode == "none":
        reads_for = []
    elif reads_mode == "children":
        reads_for = [x for x in members if x in childs]
    elif reads_mode == "parents":
        reads_for = [x for x in members if x not in childs]
    else:
        reads_for = [x for x in samples if rng.random() < 0.5]
    nchrom = 1 if big else rng.choice([1, 1, 2])
    cost = kw.get("cost") or rng.choice(["default", "recombrate", "recombrate", "genmap"])
    chromosome_arg = None
    if cost == "genmap":
        chromosome_arg = "chrA"
    elif nchrom == 2 and rng.random() < 0.3:
        chromosome_arg = rng.choice(["chrA", "chrB"])
    spec = {
        "seed": rng.randrange(1 << 40),
        "kind": "+".join(shapes),
        "families": families, "other": other, "samples": samples, "ped_lines": ped_lines, "ped_text": ped_text,
        "members": members, "sample_arg": sample_arg, "sample_list": sample_list,
        "nvars": kw.get("nvars") or (rng.choice([1, 2, 3]) if rng.random() < 0.12
                                      else rng.randint(5, 10 if big or nfam == 2 else 14)),
        "nchrom": nchrom, "chromosome_arg": chromosome_arg,
        "het_fraction": rng.choice([0.4, 0.6, 0.8]),
        "recomb_prob": rng.choice([0.0, 0.0, 0.15, 0.3]),
        "reads_for": reads_for, "reads_mode": reads_mode,
        "depth": rng.choice([2, 4, 10, 25, 60]),
        "len_range": rng.choice([[60, 150], [120, 350], [250, 700]]),
        "cost": cost,
        "recombrate": rng.choice([0.01, 1.26, 1000.0, 100000.0, 3000000.0]),
        "genetic": kw.get("genetic", rng.random() < 0.7),
        "n_conflict": rng.choice([0, 0, 1, 2, 3]),
        "n_missing": rng.choice([0, 0, 1, 2]),
        "n_wrong": rng.choice([0, 0, 1, 2]),     # consistent-looking but untrue genotypes
        "gt_forms": rng.choice([0.0, 0.0, 0.3]),   # probability of an unsorted / pre-phased spelling of an input call
        "tag": kw.get("tag") or rng.choice(["PS", "PS", "HP"]),
        "only_snvs": rng.random() < 0.15,
        "no_reference": rng.random() < 0.15,
        "merge_reads": rng.random() < 0.1,
        "recomb_list": rng.random() < 0.3,
        "phased_input": rng.choice(members) if rng.random() < 0.15 else None,
        "noisy_reads": rng.random() < 0.25,
        # three trios = 64 transmission values: keep the coverage per sample at 1-2
        "downsampling": rng.choice([2, 5, 10]) if big else rng.choice([2, 3, 6, 15, 15]),
    }
    return spec


def parse_gt_text(txt):
    gt = txt.split(":")[0]
    alle = gt.replace("|", "/").split("/")
    if any(a == "." for a in alle):
        return []
    return [int(a) for a in alle]


MISSING_FORMS = ["./.", "./.", ".", ".|.", "0/.", "./1"]


def build_cli_inputs(spec, wd):
    """writes ref.fa, in.vcf, reads.bam, fam.ped (and genmap.txt, phased.vcf); returns (sc, input genotypes
    {(chrom, pos0): {sample: [alleles] or []}}, override texts)"""
    from . import synth
    rng = random.Random(spec["seed"])
    sc = synth.make_scenario(rng, nchrom=spec["nchrom"], nsamples=len(spec["samples"]), nvars=spec["nvars"],
                             sample_names=spec["samples"], het_fraction=spec["het_fraction"],
                             kinds=("snv", "snv", "snv", "ins", "del", "mnp"))
    parents = {}
    for fam in spec["families"]:
        for ch, fa, mo in fam["trios"]:
            parents[ch] = (fa, mo)
    done = set()

    def inherit(x):
        if x in done:
            return
        done.add(x)
        if x in parents:
            fa, mo = parents[x]
            inherit(fa)
            inherit(mo)
            for c in sc.chroms:
                h, _ = synth.inherit(rng, sc.haps[fa][c], sc.haps[mo][c], recomb_prob=spec["recomb_prob"])
                sc.haps[x][c] = h
    for x in sorted(parents):
        inherit(x)
    children = sorted(parents)
    override = {}

    def cur_gt(s, c, i):
        return tuple(sorted(parse_gt_text(override[(s, c, i)]))) if (s, c, i) in override else sc.genotype(s, c, i)
    for c in sc.chroms:
        nv = len(sc.variants[c])
        idxs = list(range(nv))
        rng.shuffle(idxs)
        for _ in range(spec["n_conflict"]):
            if not idxs:
                break
            i = idxs.pop()
            ch = rng.choice(children)
            fa, mo = parents[ch]
            gf, gm = cur_gt(fa, c, i), cur_gt(mo, c, i)
            bad = [g for g in GENOS
                   if not ((max(g) in gm and min(g) in gf) or (min(g) in gm and max(g) in gf))]
            if bad:
                g = rng.choice(bad)
                override[(ch, c, i)] = f"{g[0]}/{g[1]}"
            else:   # both parents het: make a parent homozygous against a homozygous child instead
                gc = cur_gt(ch, c, i)
                if gc[0] == gc[1]:
                    par = rng.choice([fa, mo])
                    override[(par, c, i)] = f"{1 - gc[0]}/{1 - gc[0]}"
        for _ in range(spec["n_missing"]):
            if not idxs:
                break
            i = idxs.pop()
            s = rng.choice(spec["members"])
            override[(s, c, i)] = rng.choice(MISSING_FORMS)
        for _ in range(spec["n_wrong"]):
            if not idxs:
                break
            i = idxs.pop()
            s = rng.choice(spec["members"])
            g = rng.choice(GENOS)
            override[(s, c, i)] = f"{g[0]}/{g[1]}"
        # other spellings of the same genotype: unsorted, already phased
        if spec["gt_forms"]:
            for s in sc.samples:
                for i in range(nv):
                    if rng.random() < spec["gt_forms"]:
                        g = parse_gt_text(override[(s, c, i)]) if (s, c, i) in override else list(sc.genotype(s, c, i))
                        if len(g) != 2:
                            continue
                        a, b = rng.choice([(g[0], g[1]), (g[1], g[0])])
                        override[(s, c, i)] = f"{a}{rng.choice(['/', '|'])}{b}"
    synth.write_fasta(sc, os.path.join(wd, "ref.fa"))
    synth.write_vcf(sc, os.path.join(wd, "in.vcf"), gt_override=override)
    reads = []
    for s in spec["reads_for"]:
        for c in sc.chroms:
            if spec.get("noisy_reads"):
                # half of the reads come from haplotypes with switch errors: conflicting evidence, equal-cost ties
                n1 = spec["depth"] // 2
                reads += synth.simulate_reads(rng, sc, s, c, spec["depth"] - n1, len_range=tuple(spec["len_range"]))
                true = sc.haps[s][c]
                sc.haps[s][c] = [(b, a) if rng.random() < 0.3 else (a, b) for a, b in true]
                reads += synth.simulate_reads(rng, sc, s, c, n1, len_range=tuple(spec["len_range"]),
                                              name_prefix=f"{s}_{c}_sw")
                sc.haps[s][c] = true
            else:
                reads += synth.simulate_reads(rng, sc, s, c, spec["depth"], len_range=tuple(spec["len_range"]))
    if not reads:
        # whatshap rejects an alignment file without any mapped read: add one read of a sample that is not in the VCF
        c = sc.chroms[0]
        reads.append(dict(name="ghost0", sample="ghost-not-in-vcf", chrom=c, start=0, cigar=[("M", 30)],
                          seq=sc.ref[c][:30], qual=30, hap=0, flag=0))
    synth.write_bam(sc, reads, os.path.join(wd, "reads.bam"))
    with open(os.path.join(wd, "fam.ped"), "w") as f:
        f.write("\n".join(spec["ped_text"]) + "\n")
    if spec["phased_input"]:
        s0 = spec["phased_input"]
        phased = {s0: {}}
        for c in sc.chroms:
            nv = len(sc.variants[c])
            cut = nv // 2
            d = {}
            for i in range(nv):
                if sc.genotype(s0, c, i) == (0, 1):
                    d[i] = sc.variants[c][0].pos + 1 if i < cut else sc.variants[c][cut].pos + 1
            phased[s0][c] = d
        synth.write_vcf(sc, os.path.join(wd, "phased.vcf"), phased=phased)
    if spec["cost"] == "genmap":
        L = max(len(sc.ref[c]) for c in sc.chroms)
        pts = sorted(rng.sample(range(1, L + 200), 6))
        cm, lines = 0.0, ["position COMBINED_rate(cM/Mb) Genetic_Map(cM)"]
        for p in pts:
            cm += rng.choice([1e-6, 0.001, 0.5, 5.0, 20.0])
            lines.append(f"{p} 1.0 {cm:.8f}")
        with open(os.path.join(wd, "genmap.txt"), "w") as f:
            f.write("\n".join(lines) + "\n")
    gts = {}
    for c in sc.chroms:
        for i, v in enumerate(sc.variants[c]):
            if spec["only_snvs"] and v.kind != "snv":
                continue          # not considered by the run at all
            d = {}
            for s in sc.samples:
                if (s, c, i) in override:
                    d[s] = parse_gt_text(override[(s, c, i)])
                else:
                    d[s] = list(sc.genotype(s, c, i))
            gts[(c, v.pos)] = d
    return sc, gts, override


def cli_args(spec):
    args = ["phase", "-o", "out.vcf", "--ped", "fam.ped", "--internal-downsampling", str(spec["downsampling"]),
            "--tag", spec["tag"]]
    args += ["--no-reference"] if spec["no_reference"] else ["-r", "ref.fa"]
    if spec["cost"] == "recombrate":
        args += ["--recombrate", repr(spec["recombrate"])]
    elif spec["cost"] == "genmap":
        args += ["--genmap", "genmap.txt"]
    if spec["chromosome_arg"]:
        args += ["--chromosome", spec["chromosome_arg"]]
    if not spec["genetic"]:
        args += ["--no-genetic-haplotyping"]
    if spec["only_snvs"]:
        args += ["--only-snvs"]
    if spec["merge_reads"]:
        args += ["--merge-reads"]
    if spec["recomb_list"]:
        args += ["--recombination-list", "recomb.tsv"]
    if spec["sample_arg"] == "use-ped":
        args += ["--use-ped-samples"]
    elif spec["sample_arg"] == "sample":
        for x in spec["sample_list"]:
            args += ["--sample", x]
    args += ["in.vcf", "reads.bam"]
    if spec["phased_input"]:
        args += ["phased.vcf"]
    return args


def parse_out_calls(path):
    """{(chrom, pos0): {sample: (a, b, ps) | None}}: (allele on haplotype 0, allele on haplotype 1, phase set).
    --tag PS: GT a|b with PS (a phased call without PS gets ps = -1); --tag HP: GT x/y with HP=ps-h,ps-h' giving the
    haplotype number of each listed GT allele (the definition of the tag)."""
    calls = {}
    samples = []
    with open(path) as f:
        for line in f:
            if line.startswith("##"):
                continue
            cols = line.rstrip("\n").split("\t")
            if line.startswith("#"):
                samples = cols[9:]
                continue
            fmt = cols[8].split(":")
            d = {}
            for s, txt in zip(samples, cols[9:]):
                vals = dict(zip(fmt, txt.split(":")))
                gt = vals.get("GT", ".")
                hp = vals.get("HP")
                if "|" in gt:
                    a, b = gt.split("|")
                    ps = vals.get("PS")
                    d[s] = (int(a), int(b), int(ps) if ps not in (None, ".", "") else -1) if "." not in (a, b) else None
                elif hp not in (None, ".", "") and "." not in hp.split(",") and "/" in gt:
                    al = [int(x) for x in gt.split("/")]
                    items = [e.split("-") for e in hp.split(",")]
                    order = [int(h) - 1 for _, h in items]
                    d[s] = (al[order.index(0)], al[order.index(1)], int(items[0][0]))
                else:
                    d[s] = None
            calls[(cols[0], int(cols[1]) - 1)] = d
    return calls


def call_term(c):
    return "None" if c is None else f"(Some ({c[0]}%Z, {c[1]}%Z, {c[2]}%Z))"


def cli_case_term(tr, gts, calls, ts=None, with_tv=True):
    """one traced (chromosome, family) -> (n, ts, genetic, [cli_col]) and bookkeeping.
    ts: triples (f, m, c) as family indices to use (default: the trios of the trace); with_tv=False drops the traced
    transmission values (used when the traced trios are not the PED's trios, so no transmission is reported for them)"""
    fam = tr["family"]
    n = len(fam)
    idx = {s: i for i, s in enumerate(fam)}
    if ts is None:
        ts = [(idx[f], idx[m], idx[c]) for c, f, m in tr["trios"]]
    chrom = tr["chromosome"]
    acc = {p: j for j, p in enumerate(tr["accessible_positions"])}
    num2idx = {tr["numeric_ids"][s]: idx[s] for s in fam}
    covered = set()
    per_pos = {}
    for k, r in enumerate(tr["reads"]):
        side = tr["partitioning"][k] == 1
        i = num2idx[r["sample_id"]]
        for p, a, q in r["variants"]:
            covered.add(p)
            per_pos.setdefault(p, []).append((i, side, a, q))
    sr = []
    for s in tr["superreads"]:
        sr.append((dict((p, a) for p, a, _ in s[0]), dict((p, a) for p, a, _ in s[1])))
    cols, meta = [], []
    positions = sorted(p for (c, p) in gts if c == chrom)
    for p in positions:
        gs = [gts[(chrom, p)][s] for s in fam]
        cs = [calls.get((chrom, p), {}).get(s) for s in fam]
        tval = None
        if p in acc:
            tval = tr["transmission_vector"][acc[p]] if with_tv else None
            alle = [(sr[i][0].get(p, -9), sr[i][1].get(p, -9)) for i in range(n)]
        else:
            alle = []
        tv = f"(Some {tval}%N)" if tval is not None else "None"
        gst = genos_term(gs)
        cst = _lst([call_term(c) for c in cs], "call")
        cols.append(f"({gst}, {cst}, {tv}, {'true' if p in covered else 'false'}, {'true' if p in acc else 'false'}, "
                    f"{entries_term(per_pos.get(p, []))}, {zpairs_term(alle)})")
        meta.append({"pos": p, "gs": gs, "calls": cs, "acc": p in acc, "tv": tval})
    term = (f"({n}, {triples_term(ts)}, {'true' if tr['genetic_haplotyping'] else 'false'}, "
            + _lst(cols, "cli_col") + ")")
    return term, meta, ts
