"""C08 helpers: instance generator, driver of the real GenotypeDPTable (child process), rendering of
instances as Coq terms, and a python *oracle* (Fractions) that re-states the HMM posterior.  The oracle is
used only to search for failing inputs; every verdict comes from Coq (GUIDE.md)."""
import itertools
import json
from fractions import Fraction

from .coqeval import Raw, term, Nat

QUALS = [0, 10, 20, 30, 7, 13]


# ------------------------------------------------------------------ numeric tables
# The C++ computes p_q = pow(10, -q/10.0L) (p_0 = 0.9999) and the recombination probability
# pow(10, -recombcost/10) in long double.  `pow` is external to the model: the tables are supplied as rationals
# within 1e-15 (relative) of those values -- the exact decimal when the exponent is an integer, otherwise a
# continued-fraction approximant of the double (smallest denominator bound 10^10, 10^12, ... reaching 1e-15).  (Exact binary expansions of the
# doubles would make the exact evaluation in Coq ~100x slower without changing any verdict: the comparison
# tolerance is 1e-9.)
def _pow10(e10):
    """10^(-e10/10) as a rational"""
    if e10 % 10 == 0:
        return Fraction(1, 10 ** (e10 // 10))
    x = 10.0 ** (-e10 / 10.0)
    d = 10 ** 10
    while True:
        fr = Fraction(x).limit_denominator(d)
        if abs(fr - Fraction(x)) <= Fraction(x) / 10 ** 15:
            return fr
        d *= 100


def phred_prob(q):
    if q == 0:
        return Fraction(9999, 10000)
    return _pow10(q)


def recomb_prob(rc):
    return _pow10(rc)


def prior_fraction(x):
    """a prior given to the implementation as a double -> the rational used by the model: the simplest rational
    within 2e-15 (relative) of the double (exact for dyadic values; 1/3.0 -> 1/3, 0.65 -> 13/20, ...)."""
    fx = Fraction(x)
    if fx == 0:
        return fx
    for d in (10 ** 3, 10 ** 6, 10 ** 9):
        fr = fx.limit_denominator(d)
        if abs(fr - fx) <= abs(fx) * 2 / 10 ** 15:
            return fr
    return fx


# ------------------------------------------------------------------ instances
def make_instance(rng, nind=1, trios=(), max_reads=6, max_cols=6, quals=QUALS, prior_mode=None, holes=True,
                  uncovered=False, recomb_choices=(0, 1, 3, 10, 20, 30), blank_ok=True, min_reads=1, min_cols=2):
    """A read matrix over columns 0..ncols-1: every read covers >= 2 columns (a C++ assert requires it),
    reads sorted by first column; priors per individual and column; one recombination cost per column."""
    ncols = rng.randint(min_cols, max_cols)
    nreads = rng.randint(min_reads, max_reads)
    reads = []
    for _ in range(nreads):
        a = rng.randrange(0, ncols - 1)
        b = rng.randint(a + 1, ncols - 1)
        cols = [a] + [c for c in range(a + 1, b) if not (holes and rng.random() < 0.25)] + [b]
        vs = [[c, rng.randint(0, 1), rng.choice(quals)] for c in cols]
        reads.append({"sample": rng.randrange(nind), "vars": vs})
    reads.sort(key=lambda r: r["vars"][0][0])
    covered = sorted({v[0] for r in reads for v in r["vars"]})
    if uncovered:
        cols = list(range(ncols))
    else:
        # compact to covered columns (as run_genotype does with accessible positions)
        remap = {c: i for i, c in enumerate(covered)}
        for r in reads:
            for v in r["vars"]:
                v[0] = remap[v[0]]
        ncols = len(covered)
    pm = prior_mode or rng.choice(["uniform", "third", "dyadic", "dyadic", "skew"])
    if pm == "nice":
        pm = rng.choice(["uniform", "third", "dyadic"])
    priors = []
    for _ in range(nind):
        row = []
        for _ in range(ncols):
            if pm == "uniform":
                row.append([0.25, 0.5, 0.25])
            elif pm == "third":
                row.append([1 / 3.0, 1 / 3.0, 1 / 3.0])
            elif pm == "dyadic":
                a = rng.randint(1, 14)
                b = rng.randint(1, 15 - a)
                row.append([a / 16.0, b / 16.0, (16 - a - b) / 16.0])
            elif pm == "zero":
                # hard priors: one or two genotypes excluded (never all three)
                t = [rng.choice([0.0, 0.5, 1.0]) for _ in range(3)]
                if not any(t):
                    t[rng.randrange(3)] = 1.0
                row.append(t)
            else:
                # not normalised, one small entry (the code normalises the assignment weights itself)
                row.append([rng.choice([0.001, 0.5, 0.9]), rng.choice([0.01, 0.3]), rng.choice([0.001, 0.2, 0.7])])
        priors.append(row)
    recomb = [rng.choice(recomb_choices) for _ in range(ncols)]
    return {"ncols": ncols, "nind": nind, "trios": [list(t) for t in trios], "reads": reads, "priors": priors,
            "recomb": recomb}


def make_profile_instance(rng, nind=1, trios=(), min_cols=9, max_cols=20, max_reads=12, levels=(0, 1, 2, 3, 4),
                          quals=QUALS, prior_mode=None, recomb_choices=(0, 1, 3, 10, 20, 30), nice_above=12):
    """Long read matrices with a NON-uniform coverage profile: the per-column target coverage is piecewise
    constant with short segments (1-3 columns) whose levels are drawn from `levels` (dips and peaks next to each
    other), reads of varying length are laid out greedily to follow it (a read ends where the target drops), some
    columns stay uncovered.  All columns are kept (positions given explicitly), so that with >= 9 columns the sqrt
    check-pointing stores every 3rd/4th backward column and re-computes the others from wide and narrow ones."""
    n = rng.randint(min_cols, max_cols)
    if n > nice_above:
        # long matrices: decimal error probabilities / priors keep the exact rationals of the model small
        quals, prior_mode, recomb_choices = [10, 20, 30, 0, 10, 20], "nice", (0, 10, 20, 30)
    target = []
    while len(target) < n:
        lv = rng.choice(levels)
        if target and lv == target[-1]:
            lv = rng.choice(levels)
        target += [lv] * rng.randint(1, 3)
    target = target[:n]
    cov = [0] * n
    reads = []
    for c in range(n - 1):
        while cov[c] < target[c] and len(reads) < max_reads:
            e = c + 1
            while e + 1 < n and target[e + 1] > cov[e + 1] and rng.random() < 0.8:
                e += 1
            cols = [c] + [x for x in range(c + 1, e) if rng.random() >= 0.15] + [e]
            reads.append({"sample": rng.randrange(nind), "vars": [[x, rng.randint(0, 1), rng.choice(quals)] for x in cols]})
            for x in range(c, e + 1):
                cov[x] += 1
    if not reads:
        reads.append({"sample": 0, "vars": [[0, 1, 10], [1, 0, 10]]})
    reads.sort(key=lambda r: r["vars"][0][0])
    pm = prior_mode or rng.choice(["uniform", "third", "dyadic", "dyadic", "skew"])
    if pm == "nice":
        pm = rng.choice(["uniform", "third", "dyadic"])
    priors = []
    for _ in range(nind):
        row = []
        for _ in range(n):
            if pm == "uniform":
                row.append([0.25, 0.5, 0.25])
            elif pm == "third":
                row.append([1 / 3.0, 1 / 3.0, 1 / 3.0])
            elif pm == "dyadic":
                a = rng.randint(1, 14)
                b = rng.randint(1, 15 - a)
                row.append([a / 16.0, b / 16.0, (16 - a - b) / 16.0])
            else:
                row.append([rng.choice([0.001, 0.5, 0.9]), rng.choice([0.01, 0.3]), rng.choice([0.001, 0.2, 0.7])])
        priors.append(row)
    return {"ncols": n, "nind": nind, "trios": [list(t) for t in trios], "reads": reads, "priors": priors,
            "recomb": [rng.choice(recomb_choices) for _ in range(n)]}


def make_wide_instance(rng, k, nind=1, trios=(), quals=(10, 20, 30, 0, 10, 20), ncols=3):
    """k reads that are ALL active in the middle column(s) (coverage k, 2^k bipartitions: beyond any batch size of the
    Gray-code enumeration), at least one of them spanning a middle column without covering it (BLANK entry) and followed
    in read order by reads that do cover it; decimal qualities and priors keep the model's exact rationals small."""
    mid = list(range(1, ncols - 1))
    reads = []
    for _ in range(k):
        kind = rng.choice(["full", "full", "gap", "left", "right"])
        if kind == "full":
            cols = list(range(ncols))
        elif kind == "gap":
            drop = set(rng.sample(mid, rng.randint(1, len(mid))))
            cols = [c for c in range(ncols) if c not in drop]
        elif kind == "left":
            cols = list(range(0, ncols - 1))
        else:
            cols = list(range(1, ncols))
        reads.append({"sample": rng.randrange(nind), "vars": [[c, rng.randint(0, 1), rng.choice(quals)] for c in cols]})
    reads.sort(key=lambda r: r["vars"][0][0])
    # force a gapped read early in read order with a covering read after it
    gi = rng.randrange(0, max(1, k // 2))
    g0 = reads[gi]
    g0["vars"] = [[0, rng.randint(0, 1), rng.choice(quals)], [ncols - 1, rng.randint(0, 1), rng.choice(quals)]]
    reads[-1]["vars"] = [[c, rng.randint(0, 1), rng.choice(quals)] for c in range(reads[-1]["vars"][0][0], ncols)]
    if len(reads[-1]["vars"]) < 2:
        reads[-1]["vars"] = [[c, rng.randint(0, 1), rng.choice(quals)] for c in range(ncols - 2, ncols)]
    reads.sort(key=lambda r: r["vars"][0][0])
    pm = rng.choice(["uniform", "third", "dyadic"])
    priors = []
    for _ in range(nind):
        row = []
        for _ in range(ncols):
            if pm == "uniform":
                row.append([0.25, 0.5, 0.25])
            elif pm == "third":
                row.append([1 / 3.0, 1 / 3.0, 1 / 3.0])
            else:
                a = rng.randint(1, 14)
                b = rng.randint(1, 15 - a)
                row.append([a / 16.0, b / 16.0, (16 - a - b) / 16.0])
        priors.append(row)
    return {"ncols": ncols, "nind": nind, "trios": [list(t) for t in trios], "reads": reads, "priors": priors,
            "recomb": [rng.choice((0, 10, 20, 30)) for _ in range(ncols)]}


def make_threegen_instance(rng, sibling=False, order="top-down", one_read=False):
    """three generations: grandparents 0,1 -> parent 2; parent 2 and the married-in parent 3 -> child 4 (and sibling 5).
    `order` is the order in which the relationships are registered (add_relationship): top-down, bottom-up or mixed.
    One or two reads over two columns (one of them of a grandchild, one of a grandparent), decimal numbers."""
    nind = 6 if sibling else 5
    lower = (2, 3) if rng.random() < 0.5 else (3, 2)          # the middle parent is father or mother
    trios = [(0, 1, 2), lower + (4,)] + ([lower + (5,)] if sibling else [])
    if order == "bottom-up":
        trios = trios[::-1]
    elif order == "mixed":
        trios = [trios[1], trios[0]] + trios[2:] if not sibling else [trios[2], trios[0], trios[1]]
    quals = [10, 20, 30]
    who = [rng.choice([4, 5] if sibling else [4]), rng.choice([0, 1])]
    if one_read or rng.random() < 0.4:
        who = who[:1]
    reads = [{"sample": s, "vars": [[0, rng.randint(0, 1), rng.choice(quals)], [1, rng.randint(0, 1), rng.choice(quals)]]}
             for s in who]
    pm = rng.choice(["uniform", "dyadic"])
    priors = []
    for _ in range(nind):
        row = []
        for _ in range(2):
            if pm == "uniform":
                row.append([0.25, 0.5, 0.25])
            else:
                a = rng.randint(1, 14)
                b = rng.randint(1, 15 - a)
                row.append([a / 16.0, b / 16.0, (16 - a - b) / 16.0])
        priors.append(row)
    return {"ncols": 2, "nind": nind, "trios": [list(t) for t in trios], "reads": reads, "priors": priors,
            "recomb": [rng.choice((10, 20, 30)) for _ in range(2)]}


def pedigree_shape(inst):
    """'single' | 'trio' | 'quartet' | '3gen[+sib]:<registration order>' (order: is every trio registered after the
    trio in which one of its parents is the child? top-down; before? bottom-up; else mixed)"""
    tr = [tuple(t) for t in inst["trios"]]
    if not tr:
        return "single" if inst["nind"] == 1 else "unrelated"
    child_pos = {c: k for k, (_, _, c) in enumerate(tr)}
    rel = []
    for k, (f, m, c) in enumerate(tr):
        for p in (f, m):
            if p in child_pos:
                rel.append("down" if child_pos[p] < k else "up")
    if not rel:
        return "trio" if len(tr) == 1 else "quartet"
    order = "top-down" if all(r == "down" for r in rel) else ("bottom-up" if all(r == "up" for r in rel) else "mixed")
    return ("3gen+sib:" if len(tr) > 2 else "3gen:") + order


def gap_before_cover(inst):
    """largest coverage of a column in which some active read has a BLANK entry and a later read (in read order)
    covers the column (0 if there is no such column)"""
    best = 0
    for col in active_columns(inst):
        seen_gap = False
        hit = False
        for e in col:
            if e[2] is None:
                seen_gap = True
            elif seen_gap:
                hit = True
        if hit:
            best = max(best, len(col))
    return best


def permute_individuals(rng, inst):
    """relabel the individuals by a random permutation (the child need not be the last individual, the father not
    the first): trios, read samples and prior rows are mapped consistently"""
    n = inst["nind"]
    perm = list(range(n))
    rng.shuffle(perm)
    out = dict(inst)
    out["trios"] = [[perm[f], perm[m], perm[c]] for f, m, c in inst["trios"]]
    out["reads"] = [dict(r, sample=perm[r["sample"]]) for r in inst["reads"]]
    pri = [None] * n
    for i in range(n):
        pri[perm[i]] = inst["priors"][i]
    out["priors"] = pri
    return out


def shape_tallies(inst):
    """features of an instance for the coverage tallies"""
    import math
    cols = active_columns(inst)
    cov = [len(c) for c in cols]
    starts = [r["vars"][0][0] for r in inst["reads"]]
    t = {"k=%d" % math.isqrt(inst["ncols"]): 1, "maxcov=%d" % (max(cov) if cov else 0): 1}
    if any(c == 0 for c in cov):
        t["has-uncovered-column"] = 1
    if any(e[2] is None for c in cols for e in c):
        t["has-gap-entry"] = 1
    if len(set(starts)) < len(starts):
        t["has-equal-start-reads"] = 1
    if inst["nind"] > 1 and len({r["sample"] for r in inst["reads"]}) < inst["nind"]:
        t["has-individual-without-reads"] = 1
    if inst["trios"] and any(c != max(f, m, c) or f > m for f, m, c in inst["trios"]):
        t["pedigree-roles-permuted"] = 1
    if any(v[2] >= 40 for r in inst["reads"] for v in r["vars"]):
        t["has-quality>=40"] = 1
    if any(v[2] >= 256 for r in inst["reads"] for v in r["vars"]):
        t["has-quality>=256"] = 1
    if any(x == 0 for row in inst["priors"] for tr in row for x in tr):
        t["has-zero-prior"] = 1
    if any(rc >= 40 for rc in inst["recomb"]):
        t["has-recombcost>=40"] = 1
    if inst.get("positions_none"):
        t["positions=None"] = 1
    if not inst["reads"]:
        t["empty-readset"] = 1
    t["pedigree=" + pedigree_shape(inst)] = 1
    gb = gap_before_cover(inst)
    if gb:
        t["gap-then-covering-read@cov=%d" % gb] = 1
    return t


def checkpoint_profile(inst):
    """does the instance exercise re-computation from mixed wide/narrow columns: k = floor(sqrt(n)) >= 3 and some
    check-point block [mk, (m+1)k) has a column with <= 2 reads at offset >= 2 and a column with > 2 reads left of it"""
    import math
    n = inst["ncols"]
    k = math.isqrt(n)
    if k < 3:
        return False
    cov = [len(c) for c in active_columns(inst)]
    for b in range(0, n, k):
        blk = cov[b:b + k]
        for off in range(2, len(blk)):
            if blk[off] <= 2 and any(x > 2 for x in blk[:off]):
                return True
    return False


def inst_key(inst):
    return json.dumps(inst, sort_keys=True)


def active_columns(inst):
    """per column: list of (read id, sample, allele or None, quality) for the reads r with first<=c<=last, in
    read order (what ColumnIterator / BackwardColumnIterator deliver, BLANK entries as allele None)."""
    cols = []
    for c in range(inst["ncols"]):
        col = []
        for rid, r in enumerate(inst["reads"]):
            first, last = r["vars"][0][0], r["vars"][-1][0]
            if first <= c <= last:
                e = [v for v in r["vars"] if v[0] == c]
                if e:
                    col.append((rid, r["sample"], e[0][1], e[0][2]))
                else:
                    col.append((rid, r["sample"], None, 0))
        cols.append(col)
    return cols


# ------------------------------------------------------------------ driver (runs inside the child process)
DRIVER = r'''
import sys, json
from whatshap.core import ReadSet, Read, Pedigree, NumericSampleIds, PhredGenotypeLikelihoods, GenotypeDPTable, Genotype
def run_one(inst):
    ids = NumericSampleIds()
    names = ["ind%d" % i for i in range(inst["nind"])]
    for n in names:
        ids[n]
    rs = ReadSet()
    for k, r in enumerate(inst["reads"]):
        read = Read("read%03d" % k, 50, 0, ids[names[r["sample"]]])
        for c, a, q in r["vars"]:
            read.add_variant(position=(c + 1) * 10, allele=a, quality=q)
        rs.add(read)
    ped = Pedigree(ids)
    n = inst["ncols"]
    for i, nm in enumerate(names):
        ped.add_individual(nm, [Genotype([]) for _ in range(n)], [PhredGenotypeLikelihoods(list(p)) for p in inst["priors"][i]])
    for f, m, c in inst["trios"]:
        ped.add_relationship(names[f], names[m], names[c])
    positions = None if inst.get("positions_none") else [(c + 1) * 10 for c in range(n)]
    t = GenotypeDPTable(ids, rs, list(inst["recomb"]), ped, positions)
    out = []
    for nm in names:
        row = []
        for c in range(n):
            gl = t.get_genotype_likelihoods(nm, c)
            row.append([float(x).hex() for x in gl])
        out.append(row)
    # the table is queried a second time, in reverse order: the answers must not depend on the query history
    for i in reversed(range(len(names))):
        for c in reversed(range(n)):
            again = [float(x).hex() for x in t.get_genotype_likelihoods(names[i], c)]
            if again != out[i][c]:
                raise RuntimeError("get_genotype_likelihoods depends on the query history: %r then %r" % (out[i][c], again))
    return out
insts = json.load(sys.stdin)
for k, inst in enumerate(insts):
    try:
        res = {"ok": run_one(inst)}
    except Exception as e:
        res = {"exc": type(e).__name__ + ": " + str(e)}
    sys.stdout.write(json.dumps(res) + "\n")
    sys.stdout.flush()
'''


def run_impl(ctx, insts, chunk=200):
    """Run the real GenotypeDPTable on the instances (child processes; a C++ abort is isolated and reported as
    {"crash": rc}).  Returns one dict per instance: {"ok": [[ [hex,hex,hex] per column ] per individual]} |
    {"exc": str} | {"crash": returncode}."""
    from .util import run_py
    results = []
    for off in range(0, len(insts), chunk):
        part = insts[off:off + chunk]
        results += _run_part(ctx, part, run_py)
    return results


def _run_part(ctx, part, run_py):
    rc, out, err = run_py(ctx, DRIVER, stdin=json.dumps(part), timeout=1200)
    lines = [json.loads(l) for l in out.splitlines() if l.strip()]
    if rc == 0 and len(lines) == len(part):
        return lines
    # a crash: the first len(lines) instances are fine, instance len(lines) killed the process
    res = lines[:len(part)]
    if len(res) < len(part):
        res.append({"crash": rc, "stderr": err[-400:]})
        rest = part[len(res):]
        if rest:
            res += _run_part(ctx, rest, run_py)
    return res


def hex_to_fraction(h):
    return Fraction(float.fromhex(h))


# ------------------------------------------------------------------ oracle (python Fractions; search only)
def h2p(nind, trios, tv):
    """PedigreePartitions: partition index of (individual, haplotype) for a transmission value."""
    child_of = {c: k for k, (f, m, c) in enumerate(trios)}
    res = [None] * nind
    p = 0
    for i in range(nind):
        if i not in child_of:
            res[i] = (p, p + 1)
            p += 2

    def rec(i):
        if res[i] is not None:
            return
        k = child_of[i]
        f, m, _ = trios[k]
        rec(f)
        rec(m)
        res[i] = (res[f][0 if (tv >> (2 * k)) & 1 else 1], res[m][0 if (tv >> (2 * k + 1)) & 1 else 1])
    for i in range(nind):
        rec(i)
    return res


class Oracle:
    def __init__(self, inst):
        self.inst = inst
        self.n = inst["ncols"]
        self.nind = inst["nind"]
        self.trios = [tuple(t) for t in inst["trios"]]
        self.T = 4 ** len(self.trios)
        self.npart = 2 * (self.nind - len(self.trios))
        self.A = 1 << self.npart
        self.cols = active_columns(inst)
        self.parts = [h2p(self.nind, self.trios, tv) for tv in range(self.T)]
        self.trans = [self._trans(c) for c in range(self.n)]
        self.paa = [self._paa(c) for c in range(self.n)]

    def _trans(self, c):
        r = recomb_prob(self.inst["recomb"][c])
        k = 2 * len(self.trios)
        bern = [r ** x * (1 - r) ** (k - x) for x in range(k + 1)]
        rows = []
        for i in range(self.T):
            row = [bern[bin(i ^ j).count("1")] for j in range(self.T)]
            s = sum(row)
            rows.append([x / s for x in row])
        return rows

    def geno(self, i, a, ind):
        p0, p1 = self.parts[i][ind]
        return ((a >> p0) & 1) + ((a >> p1) & 1)

    def _paa(self, c):
        res = []
        for i in range(self.T):
            probs, vecs, counts = [], [], {}
            for a in range(self.A):
                gv = tuple(self.geno(i, a, ind) for ind in range(self.nind))
                p = Fraction(1)
                for ind in range(self.nind):
                    p *= prior_fraction(self.inst["priors"][ind][c][gv[ind]])
                probs.append(p)
                vecs.append(gv)
                counts[gv] = counts.get(gv, 0) + 1
            probs = [p / counts[v] for p, v in zip(probs, vecs)]
            s = sum(probs)
            res.append([p / s for p in probs])
        return res

    def emission(self, c, x, i, a):
        """x: tuple of bits for the active reads of column c (bit=1 <-> haplotype 0 of the read's individual)"""
        cost = Fraction(1)
        for (rid, smp, al, q), b in zip(self.cols[c], x):
            if al is None:
                continue
            hap = 0 if b else 1
            part = self.parts[i][smp][hap]
            allele = (a >> part) & 1
            p = phred_prob(q)
            obs = 0 if al == 0 else 1
            cost *= (1 - p) if allele == obs else p
        return cost

    def local(self, c, x, i):
        return [self.emission(c, x, i, a) * self.paa[c][i][a] for a in range(self.A)]

    def posterior_bruteforce(self):
        """sum over global bipartitions, transmission paths, with the allele assignments summed per column
        (distributivity); exact posterior per individual and column."""
        R = len(self.inst["reads"])
        n = self.n
        num = [[[Fraction(0)] * 3 for _ in range(n)] for _ in range(self.nind)]
        tot = Fraction(0)
        for beta in itertools.product((0, 1), repeat=R):
            xs = [tuple(beta[e[0]] for e in self.cols[c]) for c in range(n)]
            loc = [[self.local(c, xs[c], i) for i in range(self.T)] for c in range(n)]
            locsum = [[sum(loc[c][i]) for i in range(self.T)] for c in range(n)]
            for tau in itertools.product(range(self.T), repeat=n):
                w = Fraction(1)
                for c in range(n):
                    if c > 0:
                        w *= self.trans[c][tau[c - 1]][tau[c]]
                ws = [locsum[c][tau[c]] for c in range(n)]
                full = w
                for v in ws:
                    full *= v
                tot += full
                if full == 0:
                    continue
                for c in range(n):
                    if ws[c] == 0:
                        rest = w
                        for c2 in range(n):
                            if c2 != c:
                                rest *= ws[c2]
                    else:
                        rest = full / ws[c]
                    for a in range(self.A):
                        v = rest * loc[c][tau[c]][a]
                        for ind in range(self.nind):
                            num[ind][c][self.geno(tau[c], a, ind)] += v
        return [[[v / tot for v in num[ind][c]] for c in range(n)] for ind in range(self.nind)]

    def forward_backward(self):
        """plain (unscaled, no projections) forward-backward over the same state space, column by column with
        dictionaries keyed by the shared read bits; fast reference for larger instances."""
        n = self.n
        ids = [[e[0] for e in col] for col in self.cols]
        fw = []   # fw[c][(x,i)] = forward incl. column c local factor, per allele-assignment list
        prev = None
        for c in range(n):
            k = len(ids[c])
            shared_prev = [j for j, r in enumerate(ids[c]) if c > 0 and r in ids[c - 1]]
            cur = {}
            for x in itertools.product((0, 1), repeat=k):
                key_prev = tuple(x[j] for j in shared_prev)
                for i in range(self.T):
                    if c == 0:
                        s = Fraction(1)
                    else:
                        s = sum(prev.get((key_prev, j), 0) * self.trans[c][j][i] for j in range(self.T))
                    cur[(x, i)] = [s * v for v in self.local(c, x, i)]
            fw.append(cur)
            if c + 1 < n:
                shared_next = [j for j, r in enumerate(ids[c]) if r in ids[c + 1]]
                proj = {}
                for (x, i), vs in cur.items():
                    key = (tuple(x[j] for j in shared_next), i)
                    proj[key] = proj.get(key, 0) + sum(vs)
                prev = proj
        bw = [None] * n  # bw[c][(key of bits shared with c+1, i)]
        nxt = None
        for c in range(n - 1, 0, -1):
            k = len(ids[c])
            shared_prev = [j for j, r in enumerate(ids[c]) if r in ids[c - 1]]
            shared_next = [j for j, r in enumerate(ids[c]) if c + 1 < n and r in ids[c + 1]]
            proj = {}
            for x in itertools.product((0, 1), repeat=k):
                kp = tuple(x[j] for j in shared_prev)
                kn = tuple(x[j] for j in shared_next)
                for i in range(self.T):
                    b = Fraction(1) if c == n - 1 else nxt[(kn, i)]
                    s = sum(self.local(c, x, i)) * b
                    for j in range(self.T):
                        proj[(kp, j)] = proj.get((kp, j), 0) + s * self.trans[c][j][i]
            bw[c - 1] = proj
            nxt = proj
        out = [[None] * n for _ in range(self.nind)]
        for c in range(n):
            shared_next = [j for j, r in enumerate(ids[c]) if c + 1 < n and r in ids[c + 1]]
            num = [[Fraction(0)] * 3 for _ in range(self.nind)]
            tot = Fraction(0)
            for (x, i), vs in fw[c].items():
                b = Fraction(1) if c == n - 1 else bw[c][(tuple(x[j] for j in shared_next), i)]
                for a, v in enumerate(vs):
                    tot += v * b
                    for ind in range(self.nind):
                        num[ind][self.geno(i, a, ind)] += v * b
            for ind in range(self.nind):
                out[ind][c] = [v / tot for v in num[ind]]
        return out


def rel_close(a, b, tol=Fraction(1, 10 ** 9)):
    return abs(a - b) <= tol * max(abs(b), Fraction(1, 10 ** 30)) or abs(a - b) <= Fraction(1, 10 ** 30)


# ------------------------------------------------------------------ rendering for Coq (BigQ evaluation)
COQ_HEADER = """From Bignums Require Import BigQ.
From Coq Require Import QArith.
From mathcomp Require Import ssreflect ssrfun ssrbool eqtype ssrnat div seq.
From WH.Model Require Import GenotypeHMM GenotypeCall.
Set Implicit Arguments.
Unset Strict Implicit.
Close Scope Q_scope.
Open Scope nat_scope.
"""


def qlit(fr):
    fr = Fraction(fr)
    if fr.numerator < 0:
        return f"(BigQ.of_Q (({fr.numerator})%Z # {fr.denominator}%positive)%Q)"
    return f"(BigQ.of_Q ({fr.numerator}%Z # {fr.denominator}%positive)%Q)"


def qraw(fr):
    fr = Fraction(fr)
    if fr.numerator < 0:
        return f"(({fr.numerator})%Z # {fr.denominator}%positive)%Q"
    return f"({fr.numerator}%Z # {fr.denominator}%positive)%Q"


def nat_list(xs):
    return "[:: " + "; ".join(str(x) for x in xs) + "]" if xs else "[::]"


def coq_list(xs):
    return "[:: " + "; ".join(xs) + "]" if xs else "[::]"


def inst_term(inst):
    """the instance as a term of type `inst bigQ` (GenotypeHMM.Inst)."""
    cols = active_columns(inst)
    cterms = []
    for c, col in enumerate(cols):
        ents = []
        for rid, smp, al, q in col:
            a = "None" if al is None else ("(Some false)" if al == 0 else "(Some true)")
            p = qlit(phred_prob(q)) if al is not None else qlit(phred_prob(0))
            ents.append(f"Entry {rid} {smp} {a} {p}")
        pri = coq_list([coq_list([qlit(prior_fraction(x)) for x in inst["priors"][ind][c]]) for ind in range(inst["nind"])])
        cterms.append(f"Column {coq_list(ents)} {pri} {qlit(recomb_prob(inst['recomb'][c]))}")
    trios = coq_list([f"({f}, {m}, {ch})" for f, m, ch in inst["trios"]])
    return f"(@Inst bigQ (Ped {inst['nind']} {trios}) {coq_list(cterms)})"


def impl_term(res):
    """implementation output [individual][column][genotype] (hex doubles) -> [column][individual][genotype] of Q"""
    nind, ncols = len(res), len(res[0]) if res else 0
    return "(" + coq_list([coq_list([coq_list([qraw(hex_to_fraction(h)) for h in res[ind][c]]) for ind in range(nind)])
                           for c in range(ncols)]) + " : seq (seq (seq Q)))"
