"""Generator and file writers for the C10 (haplotag) correspondence check.

A *case* is a json-able dict that fully determines the input files and the command line:
  ref {chrom: seq}, chroms [..], variants {chrom: [[pos0, ref, alt]]}, samples [..] (VCF columns), ploidy,
  calls {sample: {chrom: [{"gt": [..]|None, "phased": bool, "ps": int|None}]}}, rgs [{"ID","SM"}],
  alns [placed alignment dicts], tail [unplaced unmapped], opts {...}, swap {sample, ps, perm}|None.
Every random choice is drawn from the rng handed in.
"""
import os

from . import synth

OPMAP = {"M": 0, "I": 1, "D": 2, "N": 3, "S": 4, "H": 5, "P": 6, "=": 7, "X": 8}


# ------------------------------------------------------------------------------------------ calls
def gen_calls(rng, ploidy, vs):
    n = len(vs)
    if n == 0:
        return []
    nblocks = rng.choice([1, 1, 2, 3])
    if rng.random() < 0.3:
        block = [rng.randrange(nblocks) for _ in range(n)]
    else:
        cuts = sorted(rng.sample(range(1, n), min(nblocks - 1, n - 1))) if n > 1 else []
        block, b = [], 0
        for i in range(n):
            while b < len(cuts) and i >= cuts[b]:
                b += 1
            block.append(b)
    natural = rng.random() < 0.7
    ps_of = {}
    for i in range(n):
        if block[i] not in ps_of:
            ps_of[block[i]] = vs[i][0] + 1 if natural else rng.randint(1, 40) * 1000 + block[i]
    calls = []
    for i in range(n):
        x = rng.random()
        het = [0] * ploidy
        while len(set(het)) < 2:
            het = [rng.randint(0, 1) for _ in range(ploidy)]
        hom = [rng.randint(0, 1)] * ploidy
        if x < 0.78:
            calls.append({"gt": het, "phased": True, "ps": ps_of[block[i]]})
        elif x < 0.84:
            calls.append({"gt": sorted(het), "phased": False, "ps": None})
        elif x < 0.90:
            calls.append({"gt": hom, "phased": True, "ps": ps_of[block[i]]})
        elif x < 0.95:
            calls.append({"gt": hom, "phased": False, "ps": None})
        else:
            calls.append({"gt": het, "phased": True, "ps": None})     # phased, PS missing
    return calls


# ------------------------------------------------------------------------------------------ reads
def _pick_interval(rng, vobjs, L, length, lo=None):
    for _ in range(60):
        s = rng.randint(0, max(0, L - length - 1)) if lo is None else lo
        e = min(L - 1, s + length)
        while s < e and not synth.legal_boundary(vobjs, s):
            s += 1
        while e > s and not synth.legal_boundary(vobjs, e):
            e -= 1
        if e - s >= 12:
            return s, e
        if lo is not None:
            return None
    return None


def _quals(rng, n):
    x = rng.random()
    if x < 0.4:
        return [rng.choice([10, 20, 30, 30, 40])] * n
    if x < 0.7:
        return [rng.randint(2, 41) for _ in range(n)]
    return [rng.choice([15, 30]) for _ in range(n)]


def _pfx(case, sample, what="names"):
    """prefix that makes read names / barcodes sample specific — empty when the case shares them between samples"""
    return "" if case.get("shared_" + what) else str(sample)


def gen_reads(rng, case, sample, chrom, n, rgs_of_sample):
    ref = case["ref"][chrom]
    vs = case["variants"][chrom]
    vobjs = [synth.Variant(p, r, a, "x") for p, r, a in vs]
    calls = (case["calls"].get(sample) or case["calls"][case["samples"][0]])[chrom]
    ploidy = case["ploidy"]
    haps = [[(c["gt"][h] if c["gt"] is not None else 0) for c in calls] for h in range(ploidy)]
    L = len(ref)
    out = []
    for k in range(n):
        name = f"{_pfx(case, sample)}_{chrom}_r{k}"
        h = rng.randrange(ploidy)
        alleles = list(haps[h])
        truth = h                                # the read is an error-free copy of haplotype h (None otherwise)
        if vs and rng.random() < 0.3:            # chimeric read: switches to another haplotype
            h2 = rng.choice([x for x in range(ploidy) if x != h])
            cut = rng.randrange(len(vs) + 1)
            alleles = alleles[:cut] + haps[h2][cut:]
            truth = None
        if vs and rng.random() < 0.1:            # sequencing errors at variant sites
            for i in range(len(vs)):
                if rng.random() < 0.3:
                    alleles[i] = 1 - alleles[i]
            truth = None
        length = rng.choice([rng.randint(40, 120), rng.randint(100, 320)])
        if out and rng.random() < 0.3:           # clump: starts within a few bases of the previous read
            iv = _pick_interval(rng, vobjs, L, length, lo=max(0, out[-1]["start"] + rng.randint(-12, 12)))
        else:
            iv = _pick_interval(rng, vobjs, L, length)
        if iv is None:
            continue
        s, e = iv
        seq, cig = synth.hap_walk(ref, vobjs, alleles, s, e)
        if rng.random() < 0.12 and e - s > 60:   # spliced read: reference skip (N) in the middle
            m1 = rng.randint(s + 15, e - 30)
            m2 = m1 + rng.randint(8, max(9, (e - m1) // 2))
            if m2 < e - 12 and all(synth.legal_boundary(vobjs, x) for x in (m1, m2)):
                seq1, cig1 = synth.hap_walk(ref, vobjs, alleles, s, m1)
                seq2, cig2 = synth.hap_walk(ref, vobjs, alleles, m2, e)
                seq, cig = seq1 + seq2, cig1 + [("N", m2 - m1)] + cig2
        if rng.random() < 0.15:                  # soft / hard clips
            k = rng.randint(1, 8)
            if rng.random() < 0.5:
                seq, cig = synth.random_seq(rng, k) + seq, [("S", k)] + list(cig)
            else:
                seq, cig = seq + synth.random_seq(rng, k), list(cig) + [("S", k)]
            if rng.random() < 0.3:
                cig = [("H", rng.randint(1, 20))] + list(cig)
        rg = rng.choice(rgs_of_sample) if rgs_of_sample else None
        a = dict(name=name, chrom=chrom, start=s, cigar=[list(x) for x in cig], seq=seq, quals=_quals(rng, len(seq)),
                 flag=0, mapq=rng.choice([60, 60, 60, 60, 60, 30, 20, 19, 5]), rg=rg, tags=[], sample=sample, truth=truth)
        if rng.random() < 0.2:                  # proper pair; the mate follows after a gap
            gap = rng.randint(5, 60)
            iv2 = _pick_interval(rng, vobjs, L, rng.randint(40, 140), lo=e + gap)
            if iv2 and iv2[0] >= e:
                s2, e2 = iv2
                seq2, cig2 = synth.hap_walk(ref, vobjs, alleles, s2, e2)
                same_strand = rng.random() < 0.5    # same orientation => the reader merges both mates
                a.update(flag=0x1 | 0x2 | 0x40 | (0 if same_strand else 0x20), mate_start=s2)
                b = dict(name=name, chrom=chrom, start=s2, cigar=[list(x) for x in cig2], seq=seq2,
                         quals=_quals(rng, len(seq2)), flag=0x1 | 0x2 | 0x80 | (0 if same_strand else 0x10),
                         mapq=a["mapq"], rg=rg, tags=[], sample=sample, mate_start=s)
                out += [a, b]
                continue
        out.append(a)
    return out


def bx_trap(rng, case, sample, chrom, rgs_of_sample, d):
    """Three reads of one barcode: anchor A, a read F that starts beyond the cut-off d of A (and of N), and a spliced
    read N that starts within d of A but skips F's first variant, so that in the read set (ordered by first covered
    variant) the far read F is listed between A and N.  N copies another haplotype than A with low base qualities: the
    cloud {A, N} is decided by A, N alone would get the other haplotype."""
    ref = case["ref"][chrom]
    vs = case["variants"][chrom]
    vobjs = [synth.Variant(p, r, a, "x") for p, r, a in vs]
    calls = (case["calls"].get(sample) or case["calls"][case["samples"][0]])[chrom]
    pl = case["ploidy"]
    ok = [i for i in range(len(vs) - 2)
          if vs[i + 1][0] - (vs[i][0] + len(vs[i][1])) >= d + 12 and vs[i][0] >= 12 and vs[i + 2][0] + 20 < len(ref)
          and all(calls[j]["phased"] and calls[j]["ps"] is not None and len(set(calls[j]["gt"])) > 1 for j in (i, i + 2))]
    if not ok:
        return []
    i = rng.choice(ok)
    h = rng.randrange(pl)
    cand = [x for x in range(pl) if calls[i + 2]["gt"][x] != calls[i + 2]["gt"][h]]
    if not cand:
        return []
    h2 = rng.choice(cand)
    hap = lambda x: [(c["gt"][x] if c["gt"] is not None else 0) for c in calls]

    def legal(p, step):
        while 0 < p < len(ref) - 1 and not synth.legal_boundary(vobjs, p):
            p += step
        return p
    a_s = legal(vs[i][0] - rng.randint(2, 8), -1)
    a_e = legal(vs[i + 2][0] + len(vs[i + 2][1]) + rng.randint(3, 15), 1)
    n_s = legal(vs[i][0] + len(vs[i][1]) + rng.randint(1, 3), 1)
    f_s = legal(n_s + d + rng.randint(1, 4), 1)
    if not (a_s >= 0 and n_s - a_s <= d and f_s - n_s > d and f_s - a_s > d and f_s <= vs[i + 1][0]):
        return []
    m1 = legal(min(f_s, vs[i + 1][0]) - rng.randint(0, 2), -1)          # N: [n_s, m1) skip [m1, m2) then [m2, n_e)
    m2 = legal(vs[i + 1][0] + len(vs[i + 1][1]) + rng.randint(1, 4), 1)
    n_e = legal(vs[i + 2][0] + len(vs[i + 2][1]) + rng.randint(2, 10), 1)
    f_e = legal(vs[i + 1][0] + len(vs[i + 1][1]) + rng.randint(2, 12), 1)
    if not (n_s + 3 <= m1 <= vs[i + 1][0] and m2 <= vs[i + 2][0] and m2 < n_e <= len(ref) - 1 and a_e <= len(ref) - 1 and f_e < m2 + 40):
        return []
    out = []
    rg = rng.choice(rgs_of_sample) if rgs_of_sample else None
    bx = f"BX{_pfx(case, sample, 'bx')}-{chrom}trap"

    def mk(tag, segs, alle, q):
        seq, cig = "", []
        for k, (x, y) in enumerate(segs):
            sq, cg = synth.hap_walk(ref, vobjs, alle, x, y)
            if k:
                cig.append(("N", x - segs[k - 1][1]))
            seq += sq
            cig += cg
        return dict(name=f"{_pfx(case, sample)}_{chrom}_trap{tag}", chrom=chrom, start=segs[0][0], cigar=[list(z) for z in cig], seq=seq,
                    quals=[q] * len(seq), flag=0, mapq=60, rg=rg, tags=[["BX", bx]], sample=sample)
    try:
        out.append(mk("A", [(a_s, a_e)], hap(h), 40))
        out.append(mk("N", [(n_s, m1), (m2, n_e)], hap(h2), 12))
        out.append(mk("F", [(f_s, f_e)], hap(rng.randrange(pl)), 30))
    except AssertionError:
        return []
    return out


def decorate(rng, case, alns):
    """secondary / supplementary / duplicate / placed-unmapped records, BX tags, stale HP/PS/PC tags."""
    extra = []
    chroms = case.get("normal_chroms") or case["chroms"]
    for a in list(alns):
        x = rng.random()
        if x < 0.10:                             # secondary copy
            b = dict(a)
            b["flag"] = (a["flag"] & ~0x1 & ~0x2 & ~0x40 & ~0x80 & ~0x20) | 0x100
            b["truth"] = None
            b.pop("mate_start", None)
            b["tags"] = list(a["tags"])
            extra.append(b)
        elif x < 0.24:                           # supplementary piece (same name), sometimes on another chromosome
            c2 = rng.choice(chroms) if rng.random() < 0.3 else a["chrom"]
            L2 = len(case["ref"][c2])
            vobjs = [synth.Variant(p, r, al, "x") for p, r, al in case["variants"][c2]]
            iv = _pick_interval(rng, vobjs, L2, rng.randint(30, 90))
            if iv:
                s, e = iv
                calls = (case["calls"].get(a["sample"]) or case["calls"][case["samples"][0]])[c2]
                h = rng.randrange(case["ploidy"])
                alle = [(c["gt"][h] if c["gt"] is not None else 0) for c in calls]
                seq, cig = synth.hap_walk(case["ref"][c2], vobjs, alle, s, e)
                b = dict(name=a["name"], chrom=c2, start=s, cigar=[list(z) for z in cig], seq=seq,
                         quals=_quals(rng, len(seq)), flag=0x800 | (0x10 if rng.random() < 0.3 else 0), mapq=a["mapq"], rg=a["rg"],
                         tags=[], sample=a["sample"])
                extra.append(b)
        elif x < 0.30:
            a["flag"] |= 0x400                   # duplicate
        elif x < 0.38:                           # placed but unmapped (mate stored under its partner's coordinates)
            b = dict(name=a["name"] + "_um", chrom=a["chrom"], start=a["start"], cigar=[], seq=a["seq"][:20],
                     quals=[30] * len(a["seq"][:20]), flag=rng.choice([0x4, 0x1 | 0x4 | 0x80]), mapq=0, rg=a["rg"],
                     tags=[], sample=a["sample"], mate_start=a["start"])
            extra.append(b)
    alns = alns + extra
    # BX tags: barcodes are namespaced per sample; some barcodes shared by several reads
    by_sample = {}
    for a in alns:
        by_sample.setdefault(a["sample"], []).append(a)
    if case["bx"] and case.get("bx_mode") == "clustered":
        # clouds by position: the reads of a barcode lie in clusters of diameter <= d, clusters >= 2d apart, so
        # that cloud membership does not depend on the processing order (d = the run's cut-off when small)
        d = case.get("cutoff_hint") or 150
        d = d if 20 <= d <= 400 else 150
        for s, lst in by_sample.items():
            for c in chroms:
                prim = [a for a in lst if a["chrom"] == c and (a["flag"] & ~0x400) == 0]
                for k in range(rng.randint(1, 2)):
                    free = [a for a in prim if not any(t[0] == "BX" for t in a["tags"])]
                    if not free:
                        break
                    centers = [rng.choice(free)["start"]]
                    far = [a["start"] for a in free if all(abs(a["start"] - x) >= 3 * d for x in centers)]
                    while far and len(centers) < 3:
                        centers.append(rng.choice(far))
                        far = [x for x in far if all(abs(x - y) >= 3 * d for y in centers)]
                    for a in free:
                        if any(abs(a["start"] - x) <= d // 2 for x in centers) and rng.random() < 0.9:
                            a["tags"].append(["BX", f"BX{_pfx(case, s, 'bx')}-{c}{k}"])
        # records that share the name of a barcoded read (secondary / supplementary) mostly carry it too
        named = {(a["sample"], a["name"]): t[1] for a in alns for t in a["tags"] if t[0] == "BX"}
        for a in alns:
            key = (a["sample"], a["name"])
            if key in named and not any(t[0] == "BX" for t in a["tags"]) and rng.random() < 0.8:
                a["tags"].append(["BX", named[key]])
        # a few barcoded records that cover no variant (placed-unmapped ones): BX fall back
        for a in alns:
            if a["flag"] & 0x4 and not any(t[0] == "BX" for t in a["tags"]) and rng.random() < 0.3:
                a["tags"].append(["BX", f"BX{_pfx(case, a['sample'], 'bx')}-{a['chrom']}0"])
    elif case["bx"]:
        for s, lst in by_sample.items():
            nbar = rng.randint(1, 3)
            names = sorted({a["name"] for a in lst})
            bar = {}
            for nme in names:
                if rng.random() < 0.55:
                    bar[nme] = f"BX{_pfx(case, s, 'bx')}-{rng.randrange(nbar)}"
            for a in lst:
                if a["name"] in bar and rng.random() < 0.95:
                    a["tags"].append(["BX", bar[a["name"]]])
    for a in alns:
        if rng.random() < 0.25:
            for t in rng.sample(["HP", "PS", "PC"], rng.randint(1, 3)):
                a["tags"].append([t, rng.randint(1, 3) if t == "HP" else rng.randint(1, 5000)])
        if rng.random() < 0.3:
            a["tags"].append(["NM", rng.randint(0, 9)])
        if rng.random() < 0.1:
            a["tags"].append(["XS", "free text"])
        if rng.random() < 0.5:
            a["tags"] += typed_tags(rng)
        rng.shuffle(a["tags"])                   # stale HP/PS/PC anywhere among the other tags
    return alns


TYPED_POOL = [("tp", "A", lambda r: r.choice("PSIi")), ("XH", "H", lambda r: r.choice(["1AE3", "00FF", "AB"])),
              ("Xc", "c", lambda r: r.randint(-100, 100)), ("XC", "C", lambda r: r.randint(0, 200)),
              ("Xs", "s", lambda r: r.choice([-3, 7, -30000])), ("Xt", "S", lambda r: r.choice([3, 60000])),
              ("Xi", "i", lambda r: r.choice([-5, 5, 100000])), ("XI", "I", lambda r: r.choice([5, 70000])),
              ("Xf", "f", lambda r: r.choice([1.5, -0.25, 3.0])), ("Xd", "d", lambda r: r.choice([2.5, 1e-3])),
              ("XZ", "Z", lambda r: r.choice(["text", "1", "P"])),
              ("Bc", "B:b", lambda r: [-1, 2]), ("BC", "B:B", lambda r: [1, 200]), ("Bs", "B:h", lambda r: [-300, 2]),
              ("BS", "B:H", lambda r: [1, 2, 60000]), ("Bi", "B:i", lambda r: [-70000]), ("BI", "B:I", lambda r: [7, 70000]),
              ("Bf", "B:f", lambda r: [1.5, 0.25])]


def typed_tags(rng):
    """1-5 tags with explicit SAM types (values that would be stored differently if re-typed from the python value:
    small integers in wide types, characters, hex strings, doubles, typed arrays)"""
    return [[t, f(rng), ty] for t, ty, f in rng.sample(TYPED_POOL, rng.randint(1, 5))]


def _set_tags(a, rg, tags):
    import array
    if rg:
        a.set_tag("RG", rg, "Z")
    for e in tags:
        if len(e) == 2:
            a.set_tag(e[0], e[1])
        elif e[2].startswith("B:"):
            a.set_tag(e[0], array.array(e[2][2:], e[1]))
        else:
            a.set_tag(e[0], e[1], e[2])


# ------------------------------------------------------------------------------------------ regions
def _bridge_read(rng, case):
    """a long, clean, unpaired, non-barcoded read of a processed sample: error-free copy of a haplotype that one phased
    heterozygous SNV tells from all others; no other phase set and no non-SNV variant in its reach"""
    o = case.get("opts") or {}
    rg_of = {}
    for g in case["rgs"]:
        rg_of.setdefault(g.get("SM"), g["ID"])
    sams = [x for x in (o.get("samples") or case["samples"]) if x in case["samples"] and (x in rg_of or not case["rgs"])]
    if o.get("ignore_read_groups") and len(o.get("samples") or []) != 1:
        return None
    rng.shuffle(sams)
    for smp in sams:
        for chrom in rng.sample(case["normal_chroms"], len(case["normal_chroms"])):
            vs = case["variants"][chrom]
            calls = case["calls"][smp][chrom]
            ref = case["ref"][chrom]

            def bad(j, ps):        # a variant the read must stay clear of
                snv = len(vs[j][1]) == 1 and len(vs[j][2]) == 1
                c = calls[j]
                other_ps = c["phased"] and c["ps"] is not None and len(set(c["gt"])) > 1 and c["ps"] != ps
                return (not snv) or other_ps
            idx = [i for i, c in enumerate(calls) if c["phased"] and c["ps"] is not None and len(set(c["gt"])) > 1
                   and len(vs[i][1]) == 1 and len(vs[i][2]) == 1 and any(c["gt"].count(x) == 1 for x in c["gt"])]
            rng.shuffle(idx)
            for i in idx:
                c = calls[i]
                h = rng.choice([x for x in range(len(c["gt"])) if c["gt"].count(c["gt"][x]) == 1])
                lo, hi = 1, len(ref) - 2
                for j in range(len(vs)):
                    if j != i and bad(j, c["ps"]):
                        if vs[j][0] < vs[i][0]:
                            lo = max(lo, vs[j][0] + len(vs[j][1]) + 7)
                        else:
                            hi = min(hi, vs[j][0] - 7)
                st = max(lo, vs[i][0] - rng.randint(30, 140))
                en = min(hi, vs[i][0] + rng.randint(30, 140))
                if vs[i][0] - st < 14 or en - vs[i][0] < 15:
                    continue
                vobjs = [synth.Variant(p, r, a, "x") for p, r, a in vs]
                while st < vs[i][0] - 14 and not synth.legal_boundary(vobjs, st):
                    st += 1
                while en > vs[i][0] + 15 and not synth.legal_boundary(vobjs, en):
                    en -= 1
                if not (synth.legal_boundary(vobjs, st) and synth.legal_boundary(vobjs, en)):
                    continue
                alle = [(cc["gt"][h] if cc["gt"] is not None else 0) for cc in calls]
                seq, cig = synth.hap_walk(ref, vobjs, alle, st, en)
                return dict(name=f"{_pfx(case, smp)}_{chrom}_bridge", chrom=chrom, start=st, cigar=[list(x) for x in cig], seq=seq,
                            quals=[30] * len(seq), flag=0, mapq=60, rg=rg_of.get(smp), tags=[], sample=smp, truth=h,
                            bridge_built=True)
    return None


def gen_regions(rng, case, kind):
    """kind in: chrom, sorted-far, sorted-near, overlapping, unsorted, chrom-order, open, mixed"""
    chroms = case["chroms"]
    L = {c: len(case["ref"][c]) for c in chroms}

    def cuts(c, k):
        return sorted(rng.sample(range(2, L[c] - 2), k))
    c = rng.choice(chroms)
    if kind == "chrom":
        sel = rng.sample(chroms, rng.randint(1, len(chroms)))
        return [x for x in chroms if x in sel]
    if kind == "open":
        return [f"{c}:{rng.randint(1, L[c] // 2)}"]
    if kind == "single":
        a, b = cuts(c, 2)
        return [f"{c}:{a}-{b}"]
    if kind in ("sorted-far", "sorted-near", "unsorted"):
        out = []
        for cc in ([c] if rng.random() < 0.6 else list(chroms)):
            if kind == "sorted-near":            # small gaps (reads span them), sometimes adjacent regions
                k = rng.choice([2, 2, 3])
                p = cuts(cc, 2 * k)
                q = [p[0]]
                for i in range(k - 1):
                    e = max(q[-1] + 1, p[2 * i + 1])
                    q += [e, e + rng.choice([1, 1, 2, 5, 10, 30])]
                q.append(max(q[-1] + 5, p[-1]))
                p = q
            else:                                # two regions at the two ends of the chromosome, wide gap
                k = 2
                a = rng.randint(1, max(2, L[cc] // 10))
                b = rng.randint(a + 1, max(a + 2, L[cc] // 8))
                d = rng.randint(L[cc] - L[cc] // 8, L[cc] - 3)
                e = rng.randint(d + 1, L[cc] - 1)
                p = [a, b, d, e]
                if rng.random() < 0.3 and L[cc] > 900:
                    m = L[cc] // 2
                    p = [a, b, m - 5, m + 5, d, e]
                    k = 3
            regs = [f"{cc}:{p[2 * i]}-{p[2 * i + 1]}" for i in range(k)]
            if kind == "unsorted":
                regs.reverse()
            out += regs
        return out
    if kind == "overlapping":
        a, b, d, e = cuts(c, 4)
        return rng.choice([[f"{c}:{a}-{d}", f"{c}:{b}-{e}"], [f"{c}:{a}-{e}", f"{c}:{b}-{d}"], [f"{c}", f"{c}:{a}-{b}"],
                           [f"{c}:{a}-{b}", f"{c}:{a}-{b}"]])
    if kind == "edge":                           # region boundaries exactly at / next to an alignment's start or end
        cand = [a for a in case["alns"] if a["cigar"]]
        if not cand:
            return [c]
        a = rng.choice(cand)
        st = a["start"] + 1                       # 1-based first aligned base
        en = a["start"] + sum(n for o, n in a["cigar"] if o in "MDN=X")    # 1-based last aligned base
        Lc = L[a["chrom"]]
        lo, hi = max(1, st - rng.randint(20, 80)), min(Lc, en + rng.randint(20, 80))
        opts_ = [(lo, st - 1), (lo, st), (en, hi), (en + 1, hi), (st, st), (en, en), (st, en), (st + 1, en - 1)]
        x, y = rng.choice([o for o in opts_ if 1 <= o[0] <= o[1] <= Lc] or [(1, Lc)])
        regs = [f"{a['chrom']}:{x}-{y}"]
        if rng.random() < 0.4 and y + 2 < Lc:     # a second region right behind it (adjacent or one base apart)
            z = y + rng.choice([1, 2])
            regs.append(f"{a['chrom']}:{z}-{min(Lc, z + rng.randint(5, 200))}")
        return regs
    if kind == "bridge":
        # two regions on one contig separated by a gap, placed relative to a long alignment that bridges the gap: the earlier
        # region ends (0-based exclusive end) at start-1 / start / start+1 of the alignment, the later region starts in front of
        # the alignment's variants or at last base-1 / last base / last base+1; optionally a third region further right
        built = _bridge_read(rng, case)
        if built is not None and rng.random() < 0.8:
            case["alns"].append(built)
            cand = [built]
        else:
            cand = [a for a in case["alns"] if a["cigar"] and a["flag"] & ~0x400 == 0 and a["mapq"] >= 20
                    and sum(n for o, n in a["cigar"] if o in "MDN=X") >= 60]
            cand = [a for a in cand if a.get("truth") is not None] or cand
        if not cand:
            return [c]
        a = rng.choice(cand)
        Lc = L[a["chrom"]]
        st0 = a["start"]
        last1 = st0 + sum(n for o, n in a["cigar"] if o in "MDN=X")     # 1-based last aligned base
        d1 = rng.choice([-1, 0, 0, 0, 1])
        e1 = st0 + d1                                   # 1-based inclusive end = 0-based exclusive end of region 1
        if e1 < 2:
            return [c]
        lo = max(1, e1 - rng.randint(1, 120))
        inner = [v[0] + 1 for v in case["variants"][a["chrom"]] if st0 + 12 < v[0] + 1 < last1 - 12]
        if inner and rng.random() < (0.85 if a.get("bridge_built") else 0.6):
            s2 = max(e1 + 2, inner[0] - rng.randint(0, 8))
            case["bridge"] = f"end{d1:+d}/before-variants"
        else:
            d2 = rng.choice([-1, 0, 1])
            s2 = max(e1 + 2, last1 + d2)
            case["bridge"] = f"end{d1:+d}/last{d2:+d}"
        if s2 >= Lc:
            return [c]
        hi = min(Lc, max(s2, last1) + rng.randint(0, 150))
        regs = [f"{a['chrom']}:{lo}-{e1}", f"{a['chrom']}:{s2}-{hi}"]
        if rng.random() < 0.3 and hi + 3 < Lc:
            regs.append(f"{a['chrom']}:{hi + 2}" + ("" if rng.random() < 0.5 else f"-{Lc}"))
        if rng.random() < 0.2:
            rng.shuffle(regs)
        return regs
    if kind == "chrom-order":
        return list(reversed(chroms))
    if kind == "special":                        # regions covering the contig that holds only unmapped records
        if "chrU" not in chroms:
            return [c]
        other = [x for x in chroms if x != "chrU"]
        o = rng.choice(other)
        return rng.choice([["chrU"], [o, "chrU"], ["chrU", o], [f"chrU:1-{L['chrU']}"], ["chrU:1"],
                           [f"chrU:1-{L['chrU'] // 2}", f"chrU:{L['chrU'] // 2 + 1}-{L['chrU']}"], list(chroms)])
    return [c]


# ------------------------------------------------------------------------------------------ whole case
def _multi_gt(rng, ploidy, nalt=2):
    """genotype text of a record the reader must not use: phased, with a PS, alleles 0..nalt"""
    g = [rng.randint(0, nalt) for _ in range(ploidy)]
    if len(set(g)) < 2:
        g[0] = (g[0] + 1) % (nalt + 1)
    return {"gt": g, "ps": rng.randint(1, 9) * 7}


def gen_case(rng, region_kind=None, big=False, special=None, shared=None):
    """special: None (random) | "unmapped-only-last" | "unmapped-only-middle" | "none".
    shared: None (random) | True: at least two samples in the BAM whose reads share names and barcodes."""
    ploidy = rng.choice([2, 2, 2, 3, 4])
    nchrom = rng.choice([1, 2, 2, 3])
    chroms = ["chrA", "chrB", "chrC"][:nchrom]
    normal = list(chroms)
    # special contigs: chrU holds only placed-but-unmapped records (mates stored under the coordinates of a
    # filtered partner), chrE holds no record at all; anywhere in the header, also as last contig
    if special is None:
        special = rng.choice(["none"] * 5 + ["unmapped-only-last", "unmapped-only-middle", "unmapped-only-middle"])
    if special == "unmapped-only-last":
        chroms = chroms + ["chrU"]
    elif special == "unmapped-only-middle":
        chroms.insert(rng.randrange(len(chroms)), "chrU")
    if rng.random() < 0.2:
        chroms.insert(rng.randrange(len(chroms) + (0 if special == "unmapped-only-last" else 1)), "chrE")
    # sample names: VCF column order is the order drawn here, which need not be the sorted order; names share
    # prefixes / sort against their position
    pool = rng.choice([["S1", "S2", "S3"], ["S1", "S2", "S3"], ["zeta", "Alpha", "mid-1"], ["S10", "S1", "S1a"],
                       ["b", "B", "a"], ["NA12878", "NA12", "child"]])
    samples = pool[:rng.choice([2, 3] if shared else [1, 1, 2, 3])]
    cutoff = rng.choice([None, 0, 10, 25, 40, 40, 150, 400, 50000])
    case = {"ploidy": ploidy, "chroms": chroms, "samples": samples, "ref": {}, "variants": {}, "calls": {},
            "bx": rng.random() < 0.65, "normal_chroms": normal, "cutoff_hint": cutoff,
            "bx_mode": rng.choice(["random", "clustered", "clustered"]),
            "phase_tag": "HP" if rng.random() < 0.15 else "PS"}
    if shared is None:
        shared = len(samples) > 1 and rng.random() < 0.2
    # read names / barcodes shared between the samples of the BAM (the tool files decisions per sample)
    case["shared_names"] = bool(shared) and (shared is True or rng.random() < 0.85)
    case["shared_bx"] = bool(shared) and rng.random() < 0.7
    if shared:
        case["bx"] = case["bx"] or rng.random() < 0.7
    for c in chroms:
        nv = 0 if rng.random() < 0.08 else rng.randint(3, 12 if big else 9)
        L = 300 + nv * rng.randint(60, 110)
        case["ref"][c] = synth.random_seq(rng, L)
        kinds = ("snv",) if rng.random() < 0.5 else ("snv", "snv", "ins", "del", "mnp")
        vs = synth.make_variants(rng, case["ref"][c], nv, kinds=kinds, min_gap=rng.choice([12, 25, 40])) if nv else []
        case["variants"][c] = [[v.pos, v.ref, v.alt] for v in vs]
    for s in samples:
        case["calls"][s] = {c: gen_calls(rng, ploidy, case["variants"][c]) for c in chroms}
    # extra VCF records: multi-ALT records (skipped by the reader) directly in front of a biallelic record at the
    # same POS ("twin") or alone; a second biallelic record at an occupied POS (the reader keeps the first)
    case["extra_records"] = {}
    for c in chroms:
        ex = []
        vs = case["variants"][c]
        occupied = {v[0] for v in vs}
        for i, (pos, ref, alt) in enumerate(vs):
            x = rng.random()
            if x < 0.15:
                other = [b for b in synth.BASES if b not in (ref[0], alt[0])]
                ex.append({"pos": pos, "ref": ref, "alts": [alt if len(alt) == len(ref) == 1 else other[0], other[1]],
                           "where": "before", "i": i, "gts": {sm: _multi_gt(rng, ploidy) for sm in samples}})
            elif x < 0.20 and len(ref) == 1 and len(alt) == 1:
                other = [b for b in synth.BASES if b not in (ref, alt)]
                ex.append({"pos": pos, "ref": ref, "alts": [other[0]], "where": "after", "i": i,
                           "gts": {sm: _multi_gt(rng, ploidy, nalt=1) for sm in samples}})
        for _ in range(rng.choice([0, 0, 1])):
            pos = rng.randint(5, len(case["ref"][c]) - 5)
            if all(abs(pos - q) > 6 for q in occupied):
                r0 = case["ref"][c][pos]
                other = [b for b in synth.BASES if b != r0]
                ex.append({"pos": pos, "ref": r0, "alts": other[:2], "where": "lone", "i": None,
                           "gts": {sm: _multi_gt(rng, ploidy) for sm in samples}})
                occupied.add(pos)
        case["extra_records"][c] = ex
    case["vcf_extra_contig"] = rng.choice([None, None, None, "first", "last"])
    # read groups
    ignore_rg = rng.random() < 0.2
    bam_samples = list(samples)
    if rng.random() < 0.15 and not ignore_rg and not shared:
        bam_samples = bam_samples[:-1] or bam_samples       # a VCF sample without reads
    rgs = []
    rgs_of = {}
    header_rg = not (ignore_rg and rng.random() < 0.5)
    if header_rg:
        for s in bam_samples:
            ids = [f"rg{s}{x}" for x in "abc"[:rng.choice([1, 1, 2, 3])]]
            rgs_of[s] = ids
            rgs += [{"ID": i, "SM": s} for i in ids]
        if rng.random() < 0.15:                   # a read group without SM (its reads belong to no sample)
            rgs.append({"ID": "rgNoSM"})
            rgs_of["__nosm__"] = ["rgNoSM"]
        rng.shuffle(rgs)                          # read groups of one sample need not be adjacent in the header
    alns = []
    empty_chrom = rng.choice(normal) if (nchrom > 1 and rng.random() < 0.1) else None
    case["normal_chroms"] = [c for c in normal if c != empty_chrom]
    for s in bam_samples:
        for c in chroms:
            if c == empty_chrom or c in ("chrU", "chrE"):
                continue
            n = rng.randint(3, 16 if big else 9)
            alns += gen_reads(rng, case, s, c, n, rgs_of.get(s))
    if "__nosm__" in rgs_of:
        alns += gen_reads(rng, case, "__nosm__", rng.choice(case["normal_chroms"]), 3, ["rgNoSM"])
    if header_rg and not ignore_rg and rng.random() < 0.2:   # a read group of a sample that is not in the VCF
        rgs.append({"ID": "rgX", "SM": "SX"})
        case["calls"]["SX"] = case["calls"][samples[0]]
        alns += gen_reads(rng, case, "SX", normal[0], 3, ["rgX"])
        del case["calls"]["SX"]
    alns = decorate(rng, case, alns)
    case["bx_traps"] = 0
    if case["bx"] and cutoff is not None and 5 <= cutoff <= 150:
        for sm in bam_samples:
            for c in case["normal_chroms"]:
                if rng.random() < 0.7:
                    tr = bx_trap(rng, case, sm, c, rgs_of.get(sm), cutoff)
                    case["bx_traps"] += bool(tr)
                    alns += tr
    if "chrU" in chroms:
        LU = len(case["ref"]["chrU"])
        for k in range(rng.randint(1, 4)):
            sm = rng.choice(bam_samples)
            seq = synth.random_seq(rng, rng.randint(15, 40))
            st = rng.randint(0, LU - 2)
            paired = rng.random() < 0.6      # unmapped mate of a (filtered) mapped read: mate fields point to itself
            u = dict(name=f"{_pfx(case, sm)}_chrU_um{k}", chrom="chrU", start=st, cigar=[], seq=seq, quals=[30] * len(seq),
                     flag=(0x1 | 0x4 | rng.choice([0x40, 0x80])) if paired else 0x4, mapq=0,
                     rg=(rgs_of.get(sm) or [None])[0], tags=[], sample=sm)
            if paired:
                u["mate_start"] = st
            if rng.random() < 0.4:
                u["tags"] += [["HP", rng.randint(1, 2)], ["PS", rng.randint(1, 999)]]
            if case["bx"] and rng.random() < 0.4:
                u["tags"].append(["BX", f"BX{_pfx(case, sm, 'bx')}-0"])
            if rng.random() < 0.5:
                u["tags"] += typed_tags(rng)
                rng.shuffle(u["tags"])
            alns.append(u)
    tail = []
    for k in range(rng.choice([0, 0, 1, 3])):
        s = rng.choice(bam_samples)
        t = dict(name=f"unmapped{k}", seq=synth.random_seq(rng, rng.randint(10, 40)), rg=(rgs_of.get(s) or [None])[0], tags=[])
        if rng.random() < 0.4:
            t["tags"] += [["HP", rng.randint(1, 2)], ["PS", rng.randint(1, 999)]]
        if rng.random() < 0.3:
            t["tags"].append(["BX", f"BX{_pfx(case, s, 'bx')}-0"])
        if rng.random() < 0.5:
            t["tags"] += typed_tags(rng)
            rng.shuffle(t["tags"])
        tail.append(t)
    case["rgs"], case["alns"], case["tail"] = rgs, alns, tail
    # options
    opts = {"ploidy": ploidy, "ignore_read_groups": ignore_rg, "tag_supplementary": rng.random() < 0.5,
            "ignore_linked_read": rng.random() < 0.25, "cutoff": cutoff,
            "no_reference": rng.random() < 0.5, "output_threads": rng.choice([1, 1, 2, 4]),
            "haplotag_list": rng.random() < 0.7, "list_gz": rng.random() < 0.25, "samples": None, "regions": None}
    if ignore_rg:
        opts["samples"] = [rng.choice(samples)] if rng.random() < 0.85 or len(samples) == 1 else rng.sample(samples, 2)
    elif rng.random() < 0.25:
        opts["samples"] = rng.sample(samples, rng.randint(1, len(samples)))
    if region_kind is None:
        region_kind = rng.choice(["none"] * 9 + ["chrom", "chrom", "single", "open", "sorted-far", "sorted-far",
                                                 "sorted-near", "overlapping", "unsorted", "chrom-order", "edge", "edge", "bridge", "bridge"])
    case["opts"] = opts
    if region_kind != "none":
        opts["regions"] = gen_regions(rng, case, region_kind)
    case["region_kind"] = region_kind
    # haplotype permutation of one phase set of one used sample
    used = [s for s in (opts["samples"] or samples)]
    cands = sorted({(s, c["ps"]) for s in used for ch in chroms for c in case["calls"][s][ch]
                    if c["phased"] and c["ps"] is not None and len(set(c["gt"])) > 1})
    case["swap"] = None
    if cands:
        s, ps = rng.choice(cands)
        perm = list(range(ploidy))
        while perm == list(range(ploidy)):
            rng.shuffle(perm)
        case["swap"] = {"sample": s, "ps": ps, "perm": perm}
    return case


# ------------------------------------------------------------------------------------------ writers
def _hp_text(gt, ps):
    """GT (ascending, unphased) and HP value that VcfReader decodes to the phase vector gt in block ps"""
    g = sorted(gt)
    used, order = set(), [None] * len(g)
    for i, a in enumerate(gt):                    # haplotype i takes a not yet used index j of g with g[j] == a
        j = next(j for j in range(len(g)) if g[j] == a and j not in used)
        used.add(j)
        order[j] = i
    return "/".join(str(x) for x in g), ",".join(f"{ps}-{o + 1}" for o in order)


def vcf_records(case, chrom, swap=None):
    """records of one contig in file order: (pos0, ref, [alts], {sample: call text}, kind, variant index)"""
    hp = case.get("phase_tag") == "HP"
    ex = case.get("extra_records", {}).get(chrom, [])
    out = []

    def extra_line(e):
        cols = {}
        for s in case["samples"]:
            g = e["gts"][s]
            cols[s] = ("/".join(str(x) for x in g["gt"]) + ":.") if hp else ("|".join(str(x) for x in g["gt"]) + f":{g['ps']}")
        return (e["pos"], e["ref"], e["alts"], cols, "multi" if len(e["alts"]) > 1 else "dup", e["i"])
    lone = sorted((e for e in ex if e["where"] == "lone"), key=lambda e: e["pos"])
    for i, (pos, ref, alt) in enumerate(case["variants"][chrom]):
        while lone and lone[0]["pos"] < pos:
            out.append(extra_line(lone.pop(0)))
        for e in ex:
            if e["where"] == "before" and e["i"] == i:
                out.append(extra_line(e))
        cols = {}
        for s in case["samples"]:
            call = case["calls"][s][chrom][i]
            gt = call["gt"]
            if swap and swap["sample"] == s and call["phased"] and call["ps"] == swap["ps"]:
                gt = [gt[j] for j in swap["perm"]]
            het = len(set(gt)) > 1
            if hp:
                if call["phased"] and het and call["ps"] is not None:
                    g, h = _hp_text(gt, call["ps"])
                    cols[s] = g + ":" + h
                else:
                    cols[s] = "/".join(str(x) for x in sorted(gt)) + ":."
            else:
                sep = "|" if call["phased"] else "/"
                cols[s] = sep.join(str(x) for x in gt) + ":" + ("." if call["ps"] is None else str(call["ps"]))
        out.append((pos, ref, [alt], cols, "variant", i))
        for e in ex:
            if e["where"] == "after" and e["i"] == i:
                out.append(extra_line(e))
    out += [extra_line(e) for e in lone]
    return out


def expected_rows(case, chrom, sample):
    """the variant table column the reader must deliver for `sample` (all biallelic records, the first one per POS):
    [(pos0, homozygous, None | (block, [alleles]))]"""
    rows, seen = [], set()
    hp = case.get("phase_tag") == "HP"
    for pos, ref, alts, cols, kind, i in vcf_records(case, chrom):
        if len(alts) > 1 or pos in seen:
            continue
        seen.add(pos)
        if kind == "variant":
            call = case["calls"][sample][chrom][i]
            gt = call["gt"]
            het = len(set(gt)) > 1
            ph = (call["ps"], list(gt)) if (call["phased"] and het and call["ps"] is not None) else None
            rows.append((pos, not het, ph))
        else:                                        # a biallelic extra record that comes first at its POS: not generated
            raise AssertionError("extra biallelic record precedes the variant")
    return rows


def write_vcf(case, path, swap=None):
    import pysam
    hp = case.get("phase_tag") == "HP"
    contigs = list(case["chroms"])
    extra = case.get("vcf_extra_contig")
    if extra:
        contigs = (["chrV"] + contigs) if extra == "first" else (contigs + ["chrV"])
    lines = ["##fileformat=VCFv4.2"]
    lines += [f"##contig=<ID={c},length={len(case['ref'][c]) if c in case['ref'] else 500}>" for c in contigs]
    lines.append('##FORMAT=<ID=GT,Number=1,Type=String,Description="Genotype">')
    if hp:
        lines.append('##FORMAT=<ID=HP,Number=.,Type=String,Description="Phasing haplotype identifier">')
    else:
        lines.append('##FORMAT=<ID=PS,Number=1,Type=Integer,Description="Phase set">')
    lines.append("#CHROM\tPOS\tID\tREF\tALT\tQUAL\tFILTER\tINFO\tFORMAT\t" + "\t".join(case["samples"]))
    fmt = "GT:HP" if hp else "GT:PS"
    for c in contigs:
        if c == "chrV":                              # a contig that only the VCF knows (phased records, never used)
            for k, pos in enumerate((40, 90, 160)):
                g = [0] * (case["ploidy"] - 1) + [1]
                txt = ("/".join(map(str, g)) + f":{pos}-" + f",{pos}-".join(str(j + 1) for j in range(case["ploidy"]))) if hp \
                    else ("|".join(map(str, g)) + ":41")
                lines.append(f"chrV\t{pos + 1}\t.\tA\tC\t.\tPASS\t.\t{fmt}\t" + "\t".join([txt] * len(case["samples"])))
            continue
        for pos, ref, alts, cols, kind, i in vcf_records(case, c, swap):
            lines.append(f"{c}\t{pos + 1}\t.\t{ref}\t{','.join(alts)}\t.\tPASS\t.\t{fmt}\t"
                         + "\t".join(cols[s] for s in case["samples"]))
    with open(path, "w") as f:
        f.write("\n".join(lines) + "\n")
    pysam.tabix_compress(path, path + ".gz", force=True)
    pysam.tabix_index(path + ".gz", preset="vcf", force=True)
    return path + ".gz"


def write_fasta(case, path):
    import pysam
    with open(path, "w") as f:
        for c in case["chroms"]:
            f.write(f">{c}\n")
            s = case["ref"][c]
            for i in range(0, len(s), 60):
                f.write(s[i:i + 60] + "\n")
    pysam.faidx(path)
    return path


def write_bam(case, path):
    import pysam
    header = {"HD": {"VN": "1.6", "SO": "coordinate"},
              "SQ": [{"SN": c, "LN": len(case["ref"][c])} for c in case["chroms"]]}
    if case["rgs"]:
        header["RG"] = [dict(r) for r in case["rgs"]]
    tid = {c: i for i, c in enumerate(case["chroms"])}
    rs = sorted(case["alns"], key=lambda r: (tid[r["chrom"]], r["start"]))
    with pysam.AlignmentFile(path, "wb", header=header) as out:
        for r in rs:
            a = pysam.AlignedSegment(out.header)
            a.query_name = r["name"]
            a.query_sequence = r["seq"]
            a.flag = r["flag"]
            a.reference_id = tid[r["chrom"]]
            a.reference_start = r["start"]
            a.mapping_quality = r["mapq"]
            if r["cigar"]:
                a.cigartuples = [(OPMAP[o], n) for o, n in r["cigar"]]
            a.query_qualities = pysam.qualitystring_to_array("".join(chr(33 + q) for q in r["quals"]))
            if "mate_start" in r:
                a.next_reference_id = tid[r["chrom"]]
                a.next_reference_start = r["mate_start"]
            _set_tags(a, r.get("rg"), r["tags"])
            out.write(a)
        for u in case["tail"]:
            a = pysam.AlignedSegment(out.header)
            a.query_name = u["name"]
            a.query_sequence = u["seq"]
            a.flag = 4
            a.query_qualities = pysam.qualitystring_to_array("I" * len(u["seq"]))
            _set_tags(a, u.get("rg"), u["tags"])
            out.write(a)
    pysam.index(path)
    return path


def materialize(case, d):
    os.makedirs(d, exist_ok=True)
    files = {"vcf": write_vcf(case, os.path.join(d, "in.vcf")),
             "ref": write_fasta(case, os.path.join(d, "ref.fa")),
             "bam": write_bam(case, os.path.join(d, "in.bam"))}
    if case.get("swap"):
        files["vcf_swapped"] = write_vcf(case, os.path.join(d, "swapped.vcf"), swap=case["swap"])
    return files


def list_path(case, d):
    return os.path.join(d, "list.tsv.gz" if case["opts"].get("list_gz") else "list.tsv")


def cli_args(case, files, vcf_key, out_bam, out_list):
    o = case["opts"]
    args = ["haplotag", "-o", out_bam]
    if o["no_reference"]:
        args.append("--no-reference")
    else:
        args += ["--reference", files["ref"]]
    for r in o["regions"] or []:
        args += ["--regions", r]
    if o["ignore_linked_read"]:
        args.append("--ignore-linked-read")
    if o["cutoff"] is not None:
        args += ["--linked-read-distance-cutoff", str(o["cutoff"])]
    if o["ignore_read_groups"]:
        args.append("--ignore-read-groups")
    for s in o["samples"] or []:
        args += ["--sample", s]
    if o["haplotag_list"] and out_list:
        args += ["--output-haplotag-list", out_list]
    if o["tag_supplementary"]:
        args.append("--tag-supplementary")
    if o["ploidy"] != 2 or True:
        args += ["--ploidy", str(o["ploidy"])]
    if o["output_threads"] != 1:
        args += ["--output-threads", str(o["output_threads"])]
    args += [files[vcf_key], files["bam"]]
    return args
