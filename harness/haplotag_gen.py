"""Generator and file writers for the C10 (haplotag) correspondence check.

A *case* is a json-able dict that fully determines the input files and the command line:
  ref {chrom: seq}, chroms [..], variants {chrom: [[pos0, ref, alt]]}, samples [..] (VCF columns), ploidy,
  calls {sample: {chrom: [{"gt": [..]|None, "phased": bool, "ps": int|None}]}}, rgs [{"ID","SM"}],
  alns [placed alignment dicts], tail [unplaced unmapped], opts {...}, swap {sample, ps, perm}|None.
Every random choice is drawn from the rng handed in.
"""
import os

from . import synth

OPMAP = {"M": 0, "I": 1, "D": 2, "N": 3, "S": 4, "H": 5, "P": 6, "=": 7, "X": 8}


# ------------------------------------------------------------------------------------------ calls
def gen_calls(rng, ploidy, vs):
    n = len(vs)
    if n == 0:
        return []
    nblocks = rng.choice([1, 1, 2, 3])
    if rng.random() < 0.3:
        block = [rng.randrange(nblocks) for _ in range(n)]
    else:
        cuts = sorted(rng.sample(range(1, n), min(nblocks - 1, n - 1))) if n > 1 else []
        block, b = [], 0
        for i in range(n):
            while b < len(cuts) and i >= cuts[b]:
                b += 1
            block.append(b)
    natural = rng.random() < 0.7
    ps_of = {}
    for i in range(n):
        if block[i] not in ps_of:
            ps_of[block[i]] = vs[i][0] + 1 if natural else rng.randint(1, 40) * 1000 + block[i]
    calls = []
    for i in range(n):
        x = rng.random()
        het = [0] * ploidy
        while len(set(het)) < 2:
            het = [rng.randint(0, 1) for _ in range(ploidy)]
        hom = [rng.randint(0, 1)] * ploidy
        if x < 0.78:
            calls.append({"gt": het, "phased": True, "ps": ps_of[block[i]]})
        elif x < 0.84:
            calls.append({"gt": sorted(het), "phased": False, "ps": None})
        elif x < 0.90:
            calls.append({"gt": hom, "phased": True, "ps": ps_of[block[i]]})
        elif x < 0.95:
            calls.append({"gt": hom, "phased": False, "ps": None})
        else:
            calls.append({"gt": het, "phased": True, "ps": None})     # phased, PS missing
    return calls


# ------------------------------------------------------------------------------------------ reads
def _pick_interval(rng, vobjs, L, length, lo=None):
    for _ in range(60):
        s = rng.randint(0, max(0, L - length - 1)) if lo is None else lo
        e = min(L - 1, s + length)
        while s < e and not synth.legal_boundary(vobjs, s):
            s += 1
        while e > s and not synth.legal_boundary(vobjs, e):
            e -= 1
        if e - s >= 12:
            return s, e
        if lo is not None:
            return None
    return None


def _quals(rng, n):
    x = rng.random()
    if x < 0.4:
        return [rng.choice([10, 20, 30, 30, 40])] * n
    if x < 0.7:
        return [rng.randint(2, 41) for _ in range(n)]
    return [rng.choice([15, 30]) for _ in range(n)]


def gen_reads(rng, case, sample, chrom, n, rgs_of_sample):
    ref = case["ref"][chrom]
    vs = case["variants"][chrom]
    vobjs = [synth.Variant(p, r, a, "x") for p, r, a in vs]
    calls = case["calls"][sample][chrom]
    ploidy = case["ploidy"]
    haps = [[(c["gt"][h] if c["gt"] is not None else 0) for c in calls] for h in range(ploidy)]
    L = len(ref)
    out = []
    for k in range(n):
        name = f"{sample}_{chrom}_r{k}"
        h = rng.randrange(ploidy)
        alleles = list(haps[h])
        if vs and rng.random() < 0.3:            # chimeric read: switches to another haplotype
            h2 = rng.choice([x for x in range(ploidy) if x != h])
            cut = rng.randrange(len(vs) + 1)
            alleles = alleles[:cut] + haps[h2][cut:]
        if vs and rng.random() < 0.1:            # sequencing errors at variant sites
            for i in range(len(vs)):
                if rng.random() < 0.3:
                    alleles[i] = 1 - alleles[i]
        length = rng.choice([rng.randint(40, 120), rng.randint(100, 320)])
        iv = _pick_interval(rng, vobjs, L, length)
        if iv is None:
            continue
        s, e = iv
        seq, cig = synth.hap_walk(ref, vobjs, alleles, s, e)
        rg = rng.choice(rgs_of_sample) if rgs_of_sample else None
        a = dict(name=name, chrom=chrom, start=s, cigar=[list(x) for x in cig], seq=seq, quals=_quals(rng, len(seq)),
                 flag=0, mapq=rng.choice([60, 60, 60, 60, 60, 30, 20, 19, 5]), rg=rg, tags=[], sample=sample)
        if rng.random() < 0.2:                  # proper pair; the mate follows after a gap
            gap = rng.randint(5, 60)
            iv2 = _pick_interval(rng, vobjs, L, rng.randint(40, 140), lo=e + gap)
            if iv2 and iv2[0] >= e:
                s2, e2 = iv2
                seq2, cig2 = synth.hap_walk(ref, vobjs, alleles, s2, e2)
                same_strand = rng.random() < 0.5    # same orientation => the reader merges both mates
                a.update(flag=0x1 | 0x2 | 0x40 | (0 if same_strand else 0x20), mate_start=s2)
                b = dict(name=name, chrom=chrom, start=s2, cigar=[list(x) for x in cig2], seq=seq2,
                         quals=_quals(rng, len(seq2)), flag=0x1 | 0x2 | 0x80 | (0 if same_strand else 0x10),
                         mapq=a["mapq"], rg=rg, tags=[], sample=sample, mate_start=s)
                out += [a, b]
                continue
        out.append(a)
    return out


def decorate(rng, case, alns):
    """secondary / supplementary / duplicate / placed-unmapped records, BX tags, stale HP/PS/PC tags."""
    extra = []
    chroms = case.get("normal_chroms") or case["chroms"]
    for a in list(alns):
        x = rng.random()
        if x < 0.10:                             # secondary copy
            b = dict(a)
            b["flag"] = (a["flag"] & ~0x1 & ~0x2 & ~0x40 & ~0x80 & ~0x20) | 0x100
            b.pop("mate_start", None)
            b["tags"] = list(a["tags"])
            extra.append(b)
        elif x < 0.24:                           # supplementary piece (same name), sometimes on another chromosome
            c2 = rng.choice(chroms) if rng.random() < 0.3 else a["chrom"]
            L2 = len(case["ref"][c2])
            vobjs = [synth.Variant(p, r, al, "x") for p, r, al in case["variants"][c2]]
            iv = _pick_interval(rng, vobjs, L2, rng.randint(30, 90))
            if iv:
                s, e = iv
                calls = (case["calls"].get(a["sample"]) or case["calls"][case["samples"][0]])[c2]
                h = rng.randrange(case["ploidy"])
                alle = [(c["gt"][h] if c["gt"] is not None else 0) for c in calls]
                seq, cig = synth.hap_walk(case["ref"][c2], vobjs, alle, s, e)
                b = dict(name=a["name"], chrom=c2, start=s, cigar=[list(z) for z in cig], seq=seq,
                         quals=_quals(rng, len(seq)), flag=0x800 | (0x10 if rng.random() < 0.3 else 0), mapq=a["mapq"], rg=a["rg"],
                         tags=[], sample=a["sample"])
                extra.append(b)
        elif x < 0.30:
            a["flag"] |= 0x400                   # duplicate
        elif x < 0.38:                           # placed but unmapped (mate stored under its partner's coordinates)
            b = dict(name=a["name"] + "_um", chrom=a["chrom"], start=a["start"], cigar=[], seq=a["seq"][:20],
                     quals=[30] * len(a["seq"][:20]), flag=rng.choice([0x4, 0x1 | 0x4 | 0x80]), mapq=0, rg=a["rg"],
                     tags=[], sample=a["sample"], mate_start=a["start"])
            extra.append(b)
    alns = alns + extra
    # BX tags: barcodes are namespaced per sample; some barcodes shared by several reads
    by_sample = {}
    for a in alns:
        by_sample.setdefault(a["sample"], []).append(a)
    if case["bx"]:
        for s, lst in by_sample.items():
            nbar = rng.randint(1, 3)
            names = sorted({a["name"] for a in lst})
            bar = {}
            for nme in names:
                if rng.random() < 0.55:
                    bar[nme] = f"BX{s}-{rng.randrange(nbar)}"
            for a in lst:
                if a["name"] in bar and rng.random() < 0.95:
                    a["tags"].append(["BX", bar[a["name"]]])
    for a in alns:
        if rng.random() < 0.25:
            for t in rng.sample(["HP", "PS", "PC"], rng.randint(1, 3)):
                a["tags"].append([t, rng.randint(1, 3) if t == "HP" else rng.randint(1, 5000)])
        if rng.random() < 0.3:
            a["tags"].append(["NM", rng.randint(0, 9)])
        if rng.random() < 0.1:
            a["tags"].append(["XS", "free text"])
    return alns


# ------------------------------------------------------------------------------------------ regions
def gen_regions(rng, case, kind):
    """kind in: chrom, sorted-far, sorted-near, overlapping, unsorted, chrom-order, open, mixed"""
    chroms = case["chroms"]
    L = {c: len(case["ref"][c]) for c in chroms}

    def cuts(c, k):
        return sorted(rng.sample(range(2, L[c] - 2), k))
    c = rng.choice(chroms)
    if kind == "chrom":
        sel = rng.sample(chroms, rng.randint(1, len(chroms)))
        return [x for x in chroms if x in sel]
    if kind == "open":
        return [f"{c}:{rng.randint(1, L[c] // 2)}"]
    if kind == "single":
        a, b = cuts(c, 2)
        return [f"{c}:{a}-{b}"]
    if kind in ("sorted-far", "sorted-near", "unsorted"):
        out = []
        for cc in ([c] if rng.random() < 0.6 else list(chroms)):
            if kind == "sorted-near":            # small gaps (reads span them), sometimes adjacent regions
                k = rng.choice([2, 2, 3])
                p = cuts(cc, 2 * k)
                q = [p[0]]
                for i in range(k - 1):
                    e = max(q[-1] + 1, p[2 * i + 1])
                    q += [e, e + rng.choice([1, 1, 2, 5, 10, 30])]
                q.append(max(q[-1] + 5, p[-1]))
                p = q
            else:                                # two regions at the two ends of the chromosome, wide gap
                k = 2
                a = rng.randint(1, max(2, L[cc] // 10))
                b = rng.randint(a + 1, max(a + 2, L[cc] // 8))
                d = rng.randint(L[cc] - L[cc] // 8, L[cc] - 3)
                e = rng.randint(d + 1, L[cc] - 1)
                p = [a, b, d, e]
                if rng.random() < 0.3 and L[cc] > 900:
                    m = L[cc] // 2
                    p = [a, b, m - 5, m + 5, d, e]
                    k = 3
            regs = [f"{cc}:{p[2 * i]}-{p[2 * i + 1]}" for i in range(k)]
            if kind == "unsorted":
                regs.reverse()
            out += regs
        return out
    if kind == "overlapping":
        a, b, d, e = cuts(c, 4)
        return rng.choice([[f"{c}:{a}-{d}", f"{c}:{b}-{e}"], [f"{c}:{a}-{e}", f"{c}:{b}-{d}"], [f"{c}", f"{c}:{a}-{b}"],
                           [f"{c}:{a}-{b}", f"{c}:{a}-{b}"]])
    if kind == "chrom-order":
        return list(reversed(chroms))
    if kind == "special":                        # regions covering the contig that holds only unmapped records
        if "chrU" not in chroms:
            return [c]
        other = [x for x in chroms if x != "chrU"]
        o = rng.choice(other)
        return rng.choice([["chrU"], [o, "chrU"], ["chrU", o], [f"chrU:1-{L['chrU']}"], ["chrU:1"],
                           [f"chrU:1-{L['chrU'] // 2}", f"chrU:{L['chrU'] // 2 + 1}-{L['chrU']}"], list(chroms)])
    return [c]


# ------------------------------------------------------------------------------------------ whole case
def gen_case(rng, region_kind=None, big=False, special=None):
    """special: None (random) | "unmapped-only-last" | "unmapped-only-middle" | "none"."""
    ploidy = rng.choice([2, 2, 2, 3, 4])
    nchrom = rng.choice([1, 2, 2, 3])
    chroms = ["chrA", "chrB", "chrC"][:nchrom]
    normal = list(chroms)
    # special contigs: chrU holds only placed-but-unmapped records (mates stored under the coordinates of a
    # filtered partner), chrE holds no record at all; anywhere in the header, also as last contig
    if special is None:
        special = rng.choice(["none"] * 5 + ["unmapped-only-last", "unmapped-only-middle", "unmapped-only-middle"])
    if special == "unmapped-only-last":
        chroms = chroms + ["chrU"]
    elif special == "unmapped-only-middle":
        chroms.insert(rng.randrange(len(chroms)), "chrU")
    if rng.random() < 0.2:
        chroms.insert(rng.randrange(len(chroms) + (0 if special == "unmapped-only-last" else 1)), "chrE")
    samples = ["S1", "S2", "S3"][:rng.choice([1, 1, 2, 3])]
    case = {"ploidy": ploidy, "chroms": chroms, "samples": samples, "ref": {}, "variants": {}, "calls": {},
            "bx": rng.random() < 0.6, "normal_chroms": normal}
    for c in chroms:
        nv = 0 if rng.random() < 0.08 else rng.randint(3, 12 if big else 9)
        L = 300 + nv * rng.randint(60, 110)
        case["ref"][c] = synth.random_seq(rng, L)
        kinds = ("snv",) if rng.random() < 0.5 else ("snv", "snv", "ins", "del", "mnp")
        vs = synth.make_variants(rng, case["ref"][c], nv, kinds=kinds, min_gap=rng.choice([12, 25, 40])) if nv else []
        case["variants"][c] = [[v.pos, v.ref, v.alt] for v in vs]
    for s in samples:
        case["calls"][s] = {c: gen_calls(rng, ploidy, case["variants"][c]) for c in chroms}
    # read groups
    ignore_rg = rng.random() < 0.2
    bam_samples = list(samples)
    if rng.random() < 0.15 and not ignore_rg:
        bam_samples = bam_samples[:-1] or bam_samples       # a VCF sample without reads
    rgs = []
    rgs_of = {}
    header_rg = not (ignore_rg and rng.random() < 0.5)
    if header_rg:
        for s in bam_samples:
            ids = [f"rg{s}a"] + ([f"rg{s}b"] if rng.random() < 0.4 else [])
            rgs_of[s] = ids
            rgs += [{"ID": i, "SM": s} for i in ids]
    alns = []
    empty_chrom = rng.choice(normal) if (nchrom > 1 and rng.random() < 0.1) else None
    case["normal_chroms"] = [c for c in normal if c != empty_chrom]
    for s in bam_samples:
        for c in chroms:
            if c == empty_chrom or c in ("chrU", "chrE"):
                continue
            n = rng.randint(3, 16 if big else 9)
            alns += gen_reads(rng, case, s, c, n, rgs_of.get(s))
    if header_rg and not ignore_rg and rng.random() < 0.2:   # a read group of a sample that is not in the VCF
        rgs.append({"ID": "rgX", "SM": "SX"})
        case["calls"]["SX"] = case["calls"][samples[0]]
        alns += gen_reads(rng, case, "SX", normal[0], 3, ["rgX"])
        del case["calls"]["SX"]
    alns = decorate(rng, case, alns)
    if "chrU" in chroms:
        LU = len(case["ref"]["chrU"])
        for k in range(rng.randint(1, 4)):
            sm = rng.choice(bam_samples)
            seq = synth.random_seq(rng, rng.randint(15, 40))
            st = rng.randint(0, LU - 2)
            paired = rng.random() < 0.6      # unmapped mate of a (filtered) mapped read: mate fields point to itself
            u = dict(name=f"{sm}_chrU_um{k}", chrom="chrU", start=st, cigar=[], seq=seq, quals=[30] * len(seq),
                     flag=(0x1 | 0x4 | rng.choice([0x40, 0x80])) if paired else 0x4, mapq=0,
                     rg=(rgs_of.get(sm) or [None])[0], tags=[], sample=sm)
            if paired:
                u["mate_start"] = st
            if rng.random() < 0.4:
                u["tags"] += [["HP", rng.randint(1, 2)], ["PS", rng.randint(1, 999)]]
            if case["bx"] and rng.random() < 0.4:
                u["tags"].append(["BX", f"BX{sm}-0"])
            alns.append(u)
    tail = []
    for k in range(rng.choice([0, 0, 1, 3])):
        s = rng.choice(bam_samples)
        t = dict(name=f"unmapped{k}", seq=synth.random_seq(rng, rng.randint(10, 40)), rg=(rgs_of.get(s) or [None])[0], tags=[])
        if rng.random() < 0.4:
            t["tags"] += [["HP", rng.randint(1, 2)], ["PS", rng.randint(1, 999)]]
        if rng.random() < 0.3:
            t["tags"].append(["BX", f"BX{s}-0"])
        tail.append(t)
    case["rgs"], case["alns"], case["tail"] = rgs, alns, tail
    # options
    opts = {"ploidy": ploidy, "ignore_read_groups": ignore_rg, "tag_supplementary": rng.random() < 0.5,
            "ignore_linked_read": rng.random() < 0.3, "cutoff": rng.choice([None, 0, 40, 150, 400, 50000]),
            "no_reference": rng.random() < 0.5, "output_threads": rng.choice([1, 1, 2, 4]),
            "haplotag_list": rng.random() < 0.7, "samples": None, "regions": None}
    if ignore_rg:
        opts["samples"] = [rng.choice(samples)] if rng.random() < 0.85 or len(samples) == 1 else rng.sample(samples, 2)
    elif rng.random() < 0.25:
        opts["samples"] = rng.sample(samples, rng.randint(1, len(samples)))
    if region_kind is None:
        region_kind = rng.choice(["none"] * 9 + ["chrom", "chrom", "single", "open", "sorted-far", "sorted-far",
                                                 "sorted-near", "overlapping", "unsorted", "chrom-order"])
    if region_kind != "none":
        opts["regions"] = gen_regions(rng, case, region_kind)
    case["region_kind"] = region_kind
    case["opts"] = opts
    # haplotype permutation of one phase set of one used sample
    used = [s for s in (opts["samples"] or samples)]
    cands = sorted({(s, c["ps"]) for s in used for ch in chroms for c in case["calls"][s][ch]
                    if c["phased"] and c["ps"] is not None and len(set(c["gt"])) > 1})
    case["swap"] = None
    if cands:
        s, ps = rng.choice(cands)
        perm = list(range(ploidy))
        while perm == list(range(ploidy)):
            rng.shuffle(perm)
        case["swap"] = {"sample": s, "ps": ps, "perm": perm}
    return case


# ------------------------------------------------------------------------------------------ writers
def write_vcf(case, path, swap=None):
    import pysam
    lines = ["##fileformat=VCFv4.2"]
    lines += [f"##contig=<ID={c},length={len(case['ref'][c])}>" for c in case["chroms"]]
    lines.append('##FORMAT=<ID=GT,Number=1,Type=String,Description="Genotype">')
    lines.append('##FORMAT=<ID=PS,Number=1,Type=Integer,Description="Phase set">')
    lines.append("#CHROM\tPOS\tID\tREF\tALT\tQUAL\tFILTER\tINFO\tFORMAT\t" + "\t".join(case["samples"]))
    for c in case["chroms"]:
        for i, (pos, ref, alt) in enumerate(case["variants"][c]):
            cols = []
            for s in case["samples"]:
                call = case["calls"][s][c][i]
                gt = call["gt"]
                if swap and swap["sample"] == s and call["phased"] and call["ps"] == swap["ps"]:
                    gt = [gt[j] for j in swap["perm"]]
                sep = "|" if call["phased"] else "/"
                cols.append(sep.join(str(x) for x in gt) + ":" + ("." if call["ps"] is None else str(call["ps"])))
            lines.append(f"{c}\t{pos + 1}\t.\t{ref}\t{alt}\t.\tPASS\t.\tGT:PS\t" + "\t".join(cols))
    with open(path, "w") as f:
        f.write("\n".join(lines) + "\n")
    pysam.tabix_compress(path, path + ".gz", force=True)
    pysam.tabix_index(path + ".gz", preset="vcf", force=True)
    return path + ".gz"


def write_fasta(case, path):
    import pysam
    with open(path, "w") as f:
        for c in case["chroms"]:
            f.write(f">{c}\n")
            s = case["ref"][c]
            for i in range(0, len(s), 60):
                f.write(s[i:i + 60] + "\n")
    pysam.faidx(path)
    return path


def write_bam(case, path):
    import pysam
    header = {"HD": {"VN": "1.6", "SO": "coordinate"},
              "SQ": [{"SN": c, "LN": len(case["ref"][c])} for c in case["chroms"]]}
    if case["rgs"]:
        header["RG"] = [dict(r) for r in case["rgs"]]
    tid = {c: i for i, c in enumerate(case["chroms"])}
    rs = sorted(case["alns"], key=lambda r: (tid[r["chrom"]], r["start"]))
    with pysam.AlignmentFile(path, "wb", header=header) as out:
        for r in rs:
            a = pysam.AlignedSegment(out.header)
            a.query_name = r["name"]
            a.query_sequence = r["seq"]
            a.flag = r["flag"]
            a.reference_id = tid[r["chrom"]]
            a.reference_start = r["start"]
            a.mapping_quality = r["mapq"]
            if r["cigar"]:
                a.cigartuples = [(OPMAP[o], n) for o, n in r["cigar"]]
            a.query_qualities = pysam.qualitystring_to_array("".join(chr(33 + q) for q in r["quals"]))
            if "mate_start" in r:
                a.next_reference_id = tid[r["chrom"]]
                a.next_reference_start = r["mate_start"]
            tags = ([("RG", r["rg"])] if r.get("rg") else []) + [(t, v) for t, v in r["tags"]]
            a.set_tags(tags)
            out.write(a)
        for u in case["tail"]:
            a = pysam.AlignedSegment(out.header)
            a.query_name = u["name"]
            a.query_sequence = u["seq"]
            a.flag = 4
            a.query_qualities = pysam.qualitystring_to_array("I" * len(u["seq"]))
            a.set_tags(([("RG", u["rg"])] if u.get("rg") else []) + [(t, v) for t, v in u["tags"]])
            out.write(a)
    pysam.index(path)
    return path


def materialize(case, d):
    os.makedirs(d, exist_ok=True)
    files = {"vcf": write_vcf(case, os.path.join(d, "in.vcf")),
             "ref": write_fasta(case, os.path.join(d, "ref.fa")),
             "bam": write_bam(case, os.path.join(d, "in.bam"))}
    if case.get("swap"):
        files["vcf_swapped"] = write_vcf(case, os.path.join(d, "swapped.vcf"), swap=case["swap"])
    return files


def cli_args(case, files, vcf_key, out_bam, out_list):
    o = case["opts"]
    args = ["haplotag", "-o", out_bam]
    if o["no_reference"]:
        args.append("--no-reference")
    else:
        args += ["--reference", files["ref"]]
    for r in o["regions"] or []:
        args += ["--regions", r]
    if o["ignore_linked_read"]:
        args.append("--ignore-linked-read")
    if o["cutoff"] is not None:
        args += ["--linked-read-distance-cutoff", str(o["cutoff"])]
    if o["ignore_read_groups"]:
        args.append("--ignore-read-groups")
    for s in o["samples"] or []:
        args += ["--sample", s]
    if o["haplotag_list"] and out_list:
        args += ["--output-haplotag-list", out_list]
    if o["tag_supplementary"]:
        args.append("--tag-supplementary")
    if o["ploidy"] != 2 or True:
        args += ["--ploidy", str(o["ploidy"])]
    if o["output_threads"] != 1:
        args += ["--output-threads", str(o["output_threads"])]
    args += [files[vcf_key], files["bam"]]
    return args
