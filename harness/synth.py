"""Synthetic sequencing data shared by the CLI-level checks: reference FASTA, variants (SNV / insertion /
deletion / MNP), true diploid haplotypes per sample (optionally related through a pedigree with
recombination), error-free reads with canonical CIGARs, and writers for FASTA / VCF / BAM.

Every random choice comes from the `rng` passed in (derived from VERIF_SEED by the framework).
Positions are 0-based internally; VCF output is 1-based.
"""
import os

BASES = "ACGT"


class Variant:
    __slots__ = ("pos", "ref", "alt", "kind")

    def __init__(self, pos, ref, alt, kind):
        self.pos, self.ref, self.alt, self.kind = pos, ref, alt, kind

    def __repr__(self):
        return f"Variant({self.pos},{self.ref}>{self.alt})"

    def to_json(self):
        return [self.pos, self.ref, self.alt, self.kind]


class Scenario:
    """ref: {chrom: str}; variants: {chrom: [Variant sorted by pos]};
    haps: {sample: {chrom: [(a0, a1) per variant]}} true haplotype alleles (0 = ref, 1 = alt)."""

    def __init__(self, ref, variants, samples, haps):
        self.ref, self.variants, self.samples, self.haps = ref, variants, samples, haps
        self.chroms = list(ref)

    def genotype(self, sample, chrom, i):
        a, b = self.haps[sample][chrom][i]
        return tuple(sorted((a, b)))

    def to_json(self):
        return {"ref": self.ref, "variants": {c: [v.to_json() for v in vs] for c, vs in self.variants.items()},
                "samples": self.samples, "haps": {s: {c: [list(x) for x in h] for c, h in d.items()} for s, d in self.haps.items()}}

    @staticmethod
    def from_json(d):
        return Scenario(d["ref"], {c: [Variant(*v) for v in vs] for c, vs in d["variants"].items()}, d["samples"],
                        {s: {c: [tuple(x) for x in h] for c, h in dd.items()} for s, dd in d["haps"].items()})


def random_seq(rng, n, avoid_homopolymer=True):
    out = []
    for _ in range(n):
        c = rng.choice(BASES)
        while avoid_homopolymer and out and out[-1] == c:
            c = rng.choice(BASES)
        out.append(c)
    return "".join(out)


def make_variants(rng, ref, n, kinds=("snv", "ins", "del", "mnp"), min_gap=25, margin=40, max_len=4):
    """n well-separated variants on `ref` (at least min_gap reference bases between the spans of two variants;
    insertions/deletions are built so that they cannot be shifted: the inserted/deleted sequence differs in its
    first base from the base following it on the reference and in its last base from the anchor)."""
    out = []
    L = len(ref)
    pos = margin + rng.randint(0, min_gap)
    while len(out) < n and pos < L - margin - max_len - 2:
        kind = rng.choice(kinds)
        if kind == "snv":
            alt = rng.choice([b for b in BASES if b != ref[pos]])
            v = Variant(pos, ref[pos], alt, kind)
            span = 1
        elif kind == "mnp":
            k = rng.randint(2, max(2, max_len))
            r = ref[pos:pos + k]
            alt = "".join(rng.choice([b for b in BASES if b != c]) for c in r)
            v = Variant(pos, r, alt, kind)
            span = k
        elif kind == "ins":
            k = rng.randint(1, max_len)
            anchor = ref[pos]
            nxt = ref[pos + 1]
            ins = random_seq(rng, k)
            tries = 0
            while (ins[0] == nxt or ins[-1] == anchor) and tries < 50:
                ins = random_seq(rng, k)
                tries += 1
            if ins[0] == nxt or ins[-1] == anchor:
                pos += 1
                continue
            v = Variant(pos, anchor, anchor + ins, kind)
            span = 1
        else:  # deletion of ref[pos+1 : pos+1+k]
            k = rng.randint(1, max_len)
            anchor = ref[pos]
            dele = ref[pos + 1:pos + 1 + k]
            after = ref[pos + 1 + k]
            if dele[0] == after or dele[-1] == anchor:
                pos += 1
                continue
            v = Variant(pos, anchor + dele, anchor, kind)
            span = k + 1
        out.append(v)
        pos += span + min_gap + rng.randint(0, 3 * min_gap)
    return out


def make_scenario(rng, nchrom=1, nsamples=1, nvars=8, chrom_len=None, kinds=("snv", "ins", "del", "mnp"),
                  het_fraction=0.8, min_gap=25, sample_names=None, chrom_names=None):
    chroms = chrom_names or [f"chr{chr(65 + i)}" for i in range(nchrom)]
    samples = sample_names or [f"S{i + 1}" for i in range(nsamples)]
    ref, variants = {}, {}
    for c in chroms:
        L = chrom_len or (200 + nvars * (min_gap * 3 + 10))
        ref[c] = random_seq(rng, L)
        variants[c] = make_variants(rng, ref[c], nvars, kinds=kinds, min_gap=min_gap)
    haps = {}
    for s in samples:
        haps[s] = {}
        for c in chroms:
            hs = []
            for _ in variants[c]:
                if rng.random() < het_fraction:
                    hs.append(rng.choice([(0, 1), (1, 0)]))
                else:
                    hs.append(rng.choice([(0, 0), (1, 1)]))
            haps[s][c] = hs
    return Scenario(ref, variants, samples, haps)


def inherit(rng, father_h, mother_h, recomb_prob=0.0):
    """child haplotypes (paternal, maternal) from the parents' haplotype allele lists, with optional
    recombination; returns (child_haps, transmission) where transmission[i] = (which paternal hap, which maternal hap)."""
    n = len(father_h)
    pf, pm = rng.randint(0, 1), rng.randint(0, 1)
    child, trans = [], []
    for i in range(n):
        if i > 0 and rng.random() < recomb_prob:
            pf ^= 1
        if i > 0 and rng.random() < recomb_prob:
            pm ^= 1
        child.append((father_h[i][pf], mother_h[i][pm]))
        trans.append((pf, pm))
    return child, trans


def hap_walk(ref, variants, alleles, start, end):
    """Sequence and canonical CIGAR of haplotype (alleles[i] in {0,1} for variants[i]) over the reference
    interval [start, end). Variants must lie fully inside or fully outside the interval (caller's job).
    Returns (seq, cigar[(op, len)], with op in 'MID')."""
    seq, cig = [], []

    def push(op, n):
        if n <= 0:
            return
        if cig and cig[-1][0] == op:
            cig[-1] = (op, cig[-1][1] + n)
        else:
            cig.append((op, n))
    p = start
    for v, a in zip(variants, alleles):
        vend = v.pos + len(v.ref)
        if vend <= start or v.pos >= end:
            continue
        assert v.pos >= start and vend <= end, "variant straddles read boundary"
        seq.append(ref[p:v.pos])
        push("M", v.pos - p)
        if a == 0:
            seq.append(v.ref)
            push("M", len(v.ref))
        elif len(v.ref) == len(v.alt):
            seq.append(v.alt)
            push("M", len(v.alt))
        elif len(v.alt) > len(v.ref):       # insertion after the anchor base
            seq.append(v.alt)
            push("M", 1)
            push("I", len(v.alt) - 1)
        else:                               # deletion after the anchor base
            seq.append(v.alt)
            push("M", 1)
            push("D", len(v.ref) - 1)
        p = vend
    seq.append(ref[p:end])
    push("M", end - p)
    return "".join(seq), cig


def legal_boundary(variants, p, alleles=None, is_end=False):
    """a read may start/end at reference offset p iff p is not strictly inside a variant's footprint.
    A read may END exactly behind the last reference base of a variant (p == pos+len(ref)) when its CIGAR then ends in M:
    the read carries REF there, or the variant is an SNV/MNP (needs `alleles`); otherwise that offset is excluded so that
    no CIGAR ends in I or D. A read may start exactly on a variant's first base."""
    for k, v in enumerate(variants):
        vend = v.pos + len(v.ref)
        if v.pos < p < vend:
            return False
        if p == vend:
            if is_end and alleles is not None and (alleles[k] == 0 or len(v.ref) == len(v.alt)):
                continue
            return False
    return True


def simulate_reads(rng, sc, sample, chrom, n_reads, len_range=(60, 200), name_prefix=None, qual=30,
                   paired_fraction=0.0, insert_range=(30, 120), edge_fraction=0.0, softclip_fraction=0.0):
    """Error-free reads of `sample` on `chrom`. Each read copies one true haplotype. Returns list of dicts:
    name, sample, chrom, start (0-based), cigar [(op,len)], seq, qual (int), hap, flag, mate info for pairs."""
    ref = sc.ref[chrom]
    vs = sc.variants[chrom]
    haps = sc.haps[sample][chrom]
    L = len(ref)
    reads = []
    prefix = name_prefix or f"{sample}_{chrom}_r"

    def pick_interval(lo_start, hi_start, length, alleles=None):
        for _ in range(50):
            s = rng.randint(lo_start, max(lo_start, hi_start))
            e = min(L - 1, s + length)
            if alleles is not None and vs and rng.random() < edge_fraction:
                # snap one end onto a variant edge: first aligned base = first base of a variant, or
                # last aligned base = last reference base of a variant
                v = rng.choice(vs)
                if rng.random() < 0.5:
                    s = v.pos
                    e = min(L - 1, s + length)
                else:
                    e = v.pos + len(v.ref)
                    s = max(0, e - length)
            while s < e and not legal_boundary(vs, s):
                s += 1
            while e > s and not legal_boundary(vs, e, alleles, True):
                e -= 1
            if e - s >= 10:
                return s, e
        return None

    for k in range(n_reads):
        h = rng.randint(0, 1)
        alleles = [x[h] for x in haps]
        length = rng.randint(*len_range)
        iv = pick_interval(0, L - length - 1, length, alleles)
        if iv is None:
            continue
        s, e = iv
        seq, cig = hap_walk(ref, vs, alleles, s, e)
        name = f"{prefix}{k}"
        if rng.random() < paired_fraction:
            gap = rng.randint(*insert_range)
            iv2 = pick_interval(e + gap, e + gap, rng.randint(*len_range), alleles)
            if iv2 and iv2[0] >= e:
                s2, e2 = iv2
                seq2, cig2 = hap_walk(ref, vs, alleles, s2, e2)
                reads.append(dict(name=name, sample=sample, chrom=chrom, start=s, cigar=cig, seq=seq, qual=qual, hap=h,
                                  flag=0x1 | 0x2 | 0x40 | 0x20, mate_start=s2))
                reads.append(dict(name=name, sample=sample, chrom=chrom, start=s2, cigar=cig2, seq=seq2, qual=qual, hap=h,
                                  flag=0x1 | 0x2 | 0x80 | 0x10, mate_start=s))
                continue
        reads.append(dict(name=name, sample=sample, chrom=chrom, start=s, cigar=cig, seq=seq, qual=qual, hap=h, flag=0))
    if softclip_fraction > 0:
        # random soft-clipped bases in front of / behind the aligned part (they are not part of the alignment)
        for r in reads:
            if rng.random() < softclip_fraction:
                a, b = rng.randint(0, 6), rng.randint(0, 6)
                r["seq"] = random_seq(rng, a) + r["seq"] + random_seq(rng, b)
                r["cigar"] = ([("S", a)] if a else []) + list(r["cigar"]) + ([("S", b)] if b else [])
    return reads


# ---------------------------------------------------------------------------------------- writers
def write_fasta(sc, path):
    with open(path, "w") as f:
        for c in sc.chroms:
            f.write(f">{c}\n")
            s = sc.ref[c]
            for i in range(0, len(s), 60):
                f.write(s[i:i + 60] + "\n")
    import pysam
    pysam.faidx(path)
    return path


def vcf_header(sc, extra_lines=(), contigs=True, gl=False):
    lines = ["##fileformat=VCFv4.2"]
    if contigs:
        lines += [f"##contig=<ID={c},length={len(sc.ref[c])}>" for c in sc.chroms]
    lines.append('##FORMAT=<ID=GT,Number=1,Type=String,Description="Genotype">')
    lines.append('##FORMAT=<ID=PS,Number=1,Type=Integer,Description="Phase set">')
    if gl:
        lines.append('##FORMAT=<ID=GL,Number=G,Type=Float,Description="Genotype likelihoods">')
    lines += list(extra_lines)
    lines.append("#CHROM\tPOS\tID\tREF\tALT\tQUAL\tFILTER\tINFO\tFORMAT\t" + "\t".join(sc.samples))
    return lines


def write_vcf(sc, path, phased=None, gt_override=None, extra_header=(), info="."):
    """Unphased VCF of the true genotypes (ascending allele order, '/'), or phased per sample when
    phased = {sample: {chrom: {variant_index: ps_value}}} (GT written as a|b of the true haplotypes, PS tag).
    gt_override = {(sample, chrom, i): 'text'} replaces a call verbatim."""
    lines = vcf_header(sc, extra_header)
    for c in sc.chroms:
        for i, v in enumerate(sc.variants[c]):
            calls = []
            anyps = phased is not None
            for s in sc.samples:
                a, b = sc.haps[s][c][i]
                key = (s, c, i)
                if gt_override and key in gt_override:
                    calls.append(gt_override[key])
                    continue
                ps = phased.get(s, {}).get(c, {}).get(i) if phased else None
                if ps is not None:
                    calls.append(f"{a}|{b}:{ps}")
                else:
                    lo, hi = sorted((a, b))
                    calls.append(f"{lo}/{hi}" + (":." if anyps else ""))
            fmt = "GT:PS" if anyps else "GT"
            lines.append(f"{c}\t{v.pos + 1}\t.\t{v.ref}\t{v.alt}\t.\tPASS\t{info}\t{fmt}\t" + "\t".join(calls))
    with open(path, "w") as f:
        f.write("\n".join(lines) + "\n")
    return path


def write_ped(path, trios, family="FAM"):
    """trios: [(child, father, mother)]"""
    with open(path, "w") as f:
        for ch, fa, mo in trios:
            f.write(f"{family}\t{ch}\t{fa}\t{mo}\t0\t1\n")
    return path


def write_bam(sc, reads, path, read_groups=True, sort=True, extra_tags=None, unmapped=(), rg_per_sample=1, rg_ids=None):
    """Write reads (dicts from simulate_reads; optional keys: mapq, tags [(tag, value)], flag) as an indexed BAM.
    One read group per sample (ID = sample, SM = sample) unless read_groups is False.
    rg_ids: optional {default id -> id written to the file} (read-group ids only mean something inside their file)."""
    import pysam
    rg_ids = rg_ids or {}
    header = {"HD": {"VN": "1.6", "SO": "coordinate" if sort else "unsorted"},
              "SQ": [{"SN": c, "LN": len(sc.ref[c])} for c in sc.chroms]}
    if read_groups:
        samples = []
        for r in reads:
            if r["sample"] not in samples:
                samples.append(r["sample"])
        for s in sc.samples:
            if s not in samples:
                samples.append(s)
        if rg_per_sample <= 1:
            header["RG"] = [{"ID": rg_ids.get(s, s), "SM": s} for s in samples]
        else:
            # several read groups per sample, interleaved in the header (A.0, B.0, A.1, B.1, ...); a read uses the
            # group given by r["rg"] (index) or, by default, a stable function of its name
            header["RG"] = [{"ID": rg_ids.get(f"{s}.{k}", f"{s}.{k}"), "SM": s} for k in range(rg_per_sample) for s in samples]
    opmap = {"M": 0, "I": 1, "D": 2, "N": 3, "S": 4, "H": 5, "P": 6, "=": 7, "X": 8}
    tid = {c: i for i, c in enumerate(sc.chroms)}
    rs = list(reads)
    if sort:
        rs.sort(key=lambda r: (tid[r["chrom"]], r["start"]))
    tmp = path + ".unsorted.bam" if False else path
    with pysam.AlignmentFile(tmp, "wb", header=header) as out:
        for r in rs:
            a = pysam.AlignedSegment(out.header)
            a.query_name = r["name"]
            a.query_sequence = r["seq"]
            a.flag = r.get("flag", 0)
            a.reference_id = tid[r["chrom"]]
            a.reference_start = r["start"]
            a.mapping_quality = r.get("mapq", 60)
            a.cigartuples = [(opmap[o], n) for o, n in r["cigar"]]
            q = r.get("qual", 30)
            a.query_qualities = pysam.qualitystring_to_array(chr(33 + q) * len(r["seq"])) if isinstance(q, int) else q
            if "mate_start" in r:
                a.next_reference_id = tid[r["chrom"]]
                a.next_reference_start = r["mate_start"]
            tags = []
            if read_groups:
                if rg_per_sample <= 1:
                    tags.append(("RG", rg_ids.get(r["sample"], r["sample"])))
                else:
                    k = r.get("rg", sum(map(ord, r["name"])) % rg_per_sample)
                    tags.append(("RG", rg_ids.get(f"{r['sample']}.{k}", f"{r['sample']}.{k}")))
            tags += list(r.get("tags", []))
            if extra_tags:
                tags += list(extra_tags)
            a.set_tags(tags)
            out.write(a)
        for u in unmapped:
            a = pysam.AlignedSegment(out.header)
            a.query_name = u["name"]
            a.query_sequence = u["seq"]
            a.flag = 4
            a.query_qualities = pysam.qualitystring_to_array("I" * len(u["seq"]))
            if read_groups and "sample" in u:
                a.set_tags([("RG", u["sample"])])
            out.write(a)
    pysam.index(path)
    return path


def truth_alleles(sc, sample, chrom):
    """{1-based pos: (allele on hap0, allele on hap1)}"""
    return {v.pos + 1: sc.haps[sample][chrom][i] for i, v in enumerate(sc.variants[chrom])}


# ---------------------------------------------------------------------------------------- polyploid data (added for C15)
class PolyVariant:
    """Variant with one or more ALT alleles; allele index 0 = ref, a >= 1 = alts[a-1]."""
    __slots__ = ("pos", "ref", "alts", "kind")

    def __init__(self, pos, ref, alts, kind):
        self.pos, self.ref, self.alts, self.kind = pos, ref, list(alts), kind

    def __repr__(self):
        return f"PolyVariant({self.pos},{self.ref}>{','.join(self.alts)})"

    def to_json(self):
        return [self.pos, self.ref, self.alts, self.kind]


class PolyScenario:
    """ref: {chrom: str}; variants: {chrom: [PolyVariant sorted by pos]}; ploidy k;
    haps: {sample: {chrom: [tuple of k allele indices per variant]}} (true haplotypes, column-wise)."""

    def __init__(self, ref, variants, samples, ploidy, haps):
        self.ref, self.variants, self.samples, self.ploidy, self.haps = ref, variants, samples, ploidy, haps
        self.chroms = list(ref)

    def genotype(self, sample, chrom, i):
        return tuple(sorted(self.haps[sample][chrom][i]))

    def to_json(self):
        return {"ref": self.ref, "variants": {c: [v.to_json() for v in vs] for c, vs in self.variants.items()},
                "samples": self.samples, "ploidy": self.ploidy,
                "haps": {s: {c: [list(x) for x in h] for c, h in d.items()} for s, d in self.haps.items()}}

    @staticmethod
    def from_json(d):
        return PolyScenario(d["ref"], {c: [PolyVariant(*v) for v in vs] for c, vs in d["variants"].items()},
                            d["samples"], d["ploidy"],
                            {s: {c: [tuple(x) for x in h] for c, h in dd.items()} for s, dd in d["haps"].items()})


def make_poly_scenario(rng, ploidy, nsamples=1, nvars=12, nchrom=1, kinds=("snv", "ins", "del", "mnp"),
                       multiallelic_fraction=0.25, het_fraction=0.85, collapse_prob=0.4, min_gap=25,
                       sample_names=None, chrom_names=None, chrom_len=None):
    """Polyploid scenario: k true haplotypes per sample. A fraction of the SNVs gets a second/third ALT allele.
    With probability collapse_prob (per sample and chromosome) one haplotype is made identical to another one on a
    random interval of the variants (possibly all of them) - a collapsed region. het_fraction of the columns are
    drawn heterozygous (at least two different alleles among the k), the others homozygous."""
    chroms = chrom_names or [f"chr{chr(65 + i)}" for i in range(nchrom)]
    samples = sample_names or [f"S{i + 1}" for i in range(nsamples)]
    ref, variants = {}, {}
    for c in chroms:
        L = chrom_len or (200 + nvars * (min_gap * 3 + 10))
        ref[c] = random_seq(rng, L)
        vs = []
        for v in make_variants(rng, ref[c], nvars, kinds=kinds, min_gap=min_gap):
            alts = [v.alt]
            if v.kind == "snv" and rng.random() < multiallelic_fraction:
                others = [b for b in BASES if b != v.ref and b != v.alt]
                rng.shuffle(others)
                alts += others[:rng.choice([1, 1, 2])]
            vs.append(PolyVariant(v.pos, v.ref, alts, v.kind))
        variants[c] = vs
    haps = {}
    for s in samples:
        haps[s] = {}
        for c in chroms:
            cols = []
            for v in variants[c]:
                na = 1 + len(v.alts)
                if rng.random() < het_fraction:
                    while True:
                        col = [rng.randrange(na) for _ in range(ploidy)]
                        if len(set(col)) > 1:
                            break
                else:
                    col = [rng.randrange(na)] * ploidy
                cols.append(col)
            n = len(cols)
            if n and ploidy >= 2 and rng.random() < collapse_prob:
                for _ in range(rng.choice([1, 1, 2])):
                    i, j = rng.sample(range(ploidy), 2)
                    a = rng.randrange(n)
                    b = rng.randint(a + 1, n) if rng.random() < 0.7 else n
                    if rng.random() < 0.3:
                        a = 0
                    for p in range(a, b):
                        cols[p][j] = cols[p][i]
            haps[s][c] = [tuple(col) for col in cols]
    return PolyScenario(ref, variants, samples, ploidy, haps)


def simulate_poly_reads(rng, sc, sample, chrom, n_reads, len_range=(150, 400), hap_weights=None, hotspots=None,
                        name_prefix=None, qual=30):
    """Error-free reads of a polyploid sample. hap_weights: relative coverage of the k haplotypes (uneven coverage);
    hotspots: list of (lo, hi, weight) reference intervals from which read starts are preferentially drawn.
    Returns read dicts as simulate_reads (hap = index of the copied haplotype)."""
    ref = sc.ref[chrom]
    vs = sc.variants[chrom]
    cols = sc.haps[sample][chrom]
    k = sc.ploidy
    L = len(ref)
    w = list(hap_weights) if hap_weights else [1.0] * k
    prefix = name_prefix or f"{sample}_{chrom}_r"
    reads = []
    for n in range(n_reads):
        h = rng.choices(range(k), weights=w)[0]
        length = rng.randint(*len_range)
        if hotspots and rng.random() < 0.7:
            lo, hi, _ = rng.choices(hotspots, weights=[x[2] for x in hotspots])[0]
            s = rng.randint(max(0, lo - length // 2), max(0, min(hi, L - 12)))
        else:
            s = rng.randint(0, max(0, L - length - 1))
        e = min(L - 1, s + length)
        while s < e and not legal_boundary(vs, s):
            s += 1
        while e > s and not legal_boundary(vs, e):
            e -= 1
        if e - s < 10:
            continue
        tmp_vs, tmp_al = [], []
        for v, col in zip(vs, cols):
            a = col[h]
            tmp_vs.append(Variant(v.pos, v.ref, v.alts[a - 1] if a > 0 else v.alts[0], v.kind))
            tmp_al.append(0 if a == 0 else 1)
        seq, cig = hap_walk(ref, tmp_vs, tmp_al, s, e)
        reads.append(dict(name=f"{prefix}{n}", sample=sample, chrom=chrom, start=s, end=e, cigar=cig, seq=seq,
                          qual=qual, hap=h, flag=0))
    return reads


def write_poly_vcf(sc, path, phased=None, gt_override=None, extra_header=(), info=".", extra_format=None):
    """VCF of the true polyploid genotypes (ascending alleles joined by '/'). phased = {sample: {chrom: {i: ps}}}
    writes the true haplotype alleles joined by '|' with PS for the listed variant indices.
    gt_override = {(sample, chrom, i): 'text'} replaces a call verbatim. extra_format = (key, header_line, fn(sample, chrom, i) -> text)
    appends one more FORMAT field to every call."""
    lines = vcf_header(sc, extra_header)
    if extra_format:
        lines.insert(len(lines) - 1, extra_format[1])
    for c in sc.chroms:
        for i, v in enumerate(sc.variants[c]):
            calls = []
            anyps = phased is not None
            for s in sc.samples:
                col = sc.haps[s][c][i]
                key = (s, c, i)
                if gt_override and key in gt_override:
                    call = gt_override[key]
                else:
                    ps = phased.get(s, {}).get(c, {}).get(i) if phased else None
                    if ps is not None:
                        call = "|".join(map(str, col)) + f":{ps}"
                    else:
                        call = "/".join(map(str, sorted(col))) + (":." if anyps else "")
                if extra_format:
                    call += ":" + extra_format[2](s, c, i)
                calls.append(call)
            fmt = ("GT:PS" if anyps else "GT") + (":" + extra_format[0] if extra_format else "")
            lines.append(f"{c}\t{v.pos + 1}\t.\t{v.ref}\t{','.join(v.alts)}\t.\tPASS\t{info}\t{fmt}\t" + "\t".join(calls))
    with open(path, "w") as f:
        f.write("\n".join(lines) + "\n")
    return path
