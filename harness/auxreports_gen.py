"""C20 helpers: synthetic multi-chromosome / multi-family runs of `whatshap phase` with the three auxiliary
lists, parsing of the trace / list files / VCFs, and rendering of one run as a Coq `case` term
(coq/model/AuxReports.v).  All randomness comes from the rng passed in."""
import json
import os

from . import synth
from .coqeval import Raw, term
from .util import run_cli

READ_HEADER = "\t".join(["#readname", "source_id", "sample", "phaseset", "haplotype", "covered_variants",
                         "first_variant_pos", "last_variant_pos"])
GT_HEADER = "\t".join(["#sample", "chromosome", "position", "REF", "ALT", "old_gt", "new_gt"])
REC_HEADER = " ".join(["#child_id", "chromosome", "position1", "position2", "transmitted_hap_father1",
                       "transmitted_hap_father2", "transmitted_hap_mother1", "transmitted_hap_mother2",
                       "recombination_cost"])



# ---------------------------------------------------------------------------------------- scenario
STRUCTURES = ["two_trios", "trio_single", "quartet_single", "quartet", "two_trios", "trio_two_singles",
              "three_singles", "two_trios_single", "trio_single", "three_gen", "three_gen_single", "three_gen_maternal"]
NAME_POOLS = [
    ["s1", "s10", "s1a", "s2", "S2", "s02", "s100", "s1_b"],          # shared prefixes, case, numeric order
    ["zeta", "Alpha", "mid", "alpha", "omega", "Beta", "m", "zz"],     # sorting against role
    ["NA12878", "NA12891", "NA12892", "HG002", "HG003", "HG004", "HG005", "NA1289"],
    ["child", "mother", "father", "kid2", "dad2", "mum2", "other", "another"],   # role words used against their role
]
CHROM_POOLS = [["chrA", "chrB", "chrC"], ["2", "10", "X"], ["ctgB", "ctgA", "ctg_c"], ["chr10", "chr2", "chr1"]]
ROLES = {
    "two_trios": (["K1", "F1", "M1", "K2", "F2", "M2"], [("K1", "F1", "M1"), ("K2", "F2", "M2")]),
    "trio_single": (["K1", "F1", "M1", "U1"], [("K1", "F1", "M1")]),
    "trio_single_first": (["A0", "K1", "F1", "M1"], [("K1", "F1", "M1")]),
    "quartet_single": (["K1", "K2", "F1", "M1", "U1"], [("K1", "F1", "M1"), ("K2", "F1", "M1")]),
    "quartet": (["K1", "K2", "F1", "M1"], [("K1", "F1", "M1"), ("K2", "F1", "M1")]),
    "trio_two_singles": (["K1", "F1", "M1", "U1", "U2"], [("K1", "F1", "M1")]),
    "three_singles": (["U1", "U2", "U3"], []),
    "two_trios_single": (["K1", "F1", "M1", "K2", "F2", "M2", "U1"], [("K1", "F1", "M1"), ("K2", "F2", "M2")]),
    # three generations: F1 is the child of GF x GM and the father of K1 (upper trio listed first here;
    # the order of the PED lines is a separate dimension)
    "three_gen": (["K1", "F1", "M1", "GF", "GM"], [("F1", "GF", "GM"), ("K1", "F1", "M1")]),
    "three_gen_single": (["K1", "F1", "M1", "GF", "GM", "U1"], [("F1", "GF", "GM"), ("K1", "F1", "M1")]),
    "three_gen_maternal": (["K1", "F1", "M1", "GF", "GM"], [("M1", "GF", "GM"), ("K1", "F1", "M1")]),
}


def make_spec(rng, force=None):
    """A json-able description of one scenario (everything needed to rebuild its files)."""
    force = force or {}
    structure = force.get("structure") or rng.choice(STRUCTURES)
    spec = {
        "seed": rng.randrange(1 << 30),
        "structure": structure,
        "nchrom": force.get("nchrom") or rng.choice([1, 2, 2, 3]),
        "nvars": rng.randint(6, 11),
        "nreads": rng.choice([rng.randint(4, 9), rng.randint(10, 20), rng.randint(20, 32)]),
        "recomb_prob": rng.choice([0.0, 0.15, 0.25, 0.35]),
        "gt_error": rng.choice([0.08, 0.15, 0.25]),
        # probability that a record gets wrong genotypes in two or more samples at once
        "multi_change": rng.choice([0.0, 0.15, 0.3]),
        "gl": rng.random() < 0.5,
        "kinds": rng.choice([["snv"], ["snv"], ["snv", "ins", "del", "mnp"]]),
        "odd_records": rng.random() < 0.3,
        "read_len": rng.choice([[120, 380], [120, 380], [70, 170]]),
        # index of a chromosome on which every sample is homozygous ALT everywhere (nothing to phase), or None
        "all_hom_chrom": None,
        # per sample and chromosome, no read connects two randomly chosen neighbouring variants
        "gap": rng.random() < 0.45,
        # sample / chromosome names: "role" (K1, F1, ...) or drawn from a pool and shuffled against their role
        "names": rng.choice(["role", "pool", "pool"]),
        "chrom_pool": rng.randrange(len(CHROM_POOLS)),
        "ped_shuffle": rng.random() < 0.5,          # PED lines in another order than the VCF columns
        "ped_extra": rng.random() < 0.15,           # a PED line about individuals that are not in the VCF
        # single: one BAM; split: every sample's reads over two files; per_sample: one file per sample;
        # solo_plus_rest: a.bam = A only, b.bam = B only, rest.bam = everybody; file order shuffled
        "bam_layout": rng.choice(["single", "single", "single", "split", "per_sample", "per_sample", "solo_plus_rest",
                                  "solo_plus_rest"]),
        "shared_read_names": rng.random() < 0.3,    # the same read names in every family and chromosome
        "paired_fraction": rng.choice([0.0, 0.0, 0.4]),
        "prephased": rng.random() < 0.25,           # input VCF already carries | genotypes and PS
        "missing_gt": rng.random() < 0.2,           # a few ./. calls
        # quartet only: all-heterozygous sites, connected only by dedicated read pairs, interleaved with the
        # pedigree-phased sites; one child recombines after them
        "interleave": False,
        # all chromosomes carry the same reference and the same variant coordinates (different genotypes, reads
        # and hence different phase-set names per chromosome): state leaking from one chromosome to the next
        # then hits existing positions
        "same_coords": rng.random() < 0.45,
        # three-generation families: the grandchild's PED line before (True) / after (False) its parent's line,
        # None: as ped_shuffle decides
        "ped_child_first": rng.choice([None, True, False]),
    }
    if rng.random() < 0.06:
        spec["all_hom_chrom"] = rng.randrange(spec["nchrom"])
    spec.update({k: v for k, v in force.items() if k not in ("structure", "nchrom")})
    if spec["interleave"]:
        spec["nvars"] = max(spec["nvars"], 8)
        spec["all_hom_chrom"] = None
    return spec


def make_options(rng, spec, lists, distrust, ped):
    """lists: (reads, gts, recs) booleans."""
    o = {"reads": bool(lists[0]), "gts": bool(lists[1]), "recs": bool(lists[2]), "distrust": bool(distrust),
         "ped": bool(ped), "include_homozygous": bool(distrust and rng.random() < 0.6),
         "recombrate": rng.choice([1.26, 10000, 300000, 1000000, 1000000]), "genmap": False, "chromosomes": None,
         "no_genetic_haplotyping": rng.random() < 0.5,
         "samples": None, "use_ped_samples": False, "tag_hp": rng.random() < 0.1,
         "only_snvs": rng.random() < 0.1, "algorithm": "heuristic" if (not ped and rng.random() < 0.15) else "whatshap",
         "max_coverage": rng.choice([15, 15, 15, 6, 20])}
    nchrom = spec["nchrom"]
    x = rng.random()
    if ped and x < 0.2:
        o["genmap"] = True                      # --genmap needs exactly one --chromosome
        o["chromosomes"] = [rng.randrange(nchrom)]
    elif nchrom > 1 and x < 0.4:
        k = rng.randint(1, nchrom - 1)
        o["chromosomes"] = sorted(rng.sample(range(nchrom), k))
    nsamples = len(ROLES[spec["structure"]][0])
    y = rng.random()
    if y < 0.15 and nsamples > 2:               # --sample: only some of the VCF's samples are phased
        o["samples"] = sorted(rng.sample(range(nsamples), rng.randint(1, nsamples - 1)))
    elif y < 0.25 and ped and ROLES[spec["structure"]][1] and not spec.get("ped_extra"):
        o["use_ped_samples"] = True
    if spec.get("interleave"):
        o.update(no_genetic_haplotyping=False, samples=None, algorithm="whatshap", genmap=False,
                 chromosomes=None if o["genmap"] else o["chromosomes"])
    return o


def family_layout(spec, rng):
    """-> (samples in VCF order, trios [(child, father, mother)]) with the scenario's sample names"""
    roles, trios = ROLES[spec["structure"]]
    if spec.get("names", "role") == "role":
        ren = {r: r for r in roles}
    else:
        pool = list(rng.choice(NAME_POOLS))
        rng.shuffle(pool)
        ren = dict(zip(roles, pool))
    order = [ren[r] for r in roles]
    rng.shuffle(order)
    return order, [(ren[c], ren[f], ren[m]) for c, f, m in trios]


def write_vcf(sc, path, gt_override, gl, odd_records, rng, prephased=False, missing=()):
    """Unphased VCF of the true genotypes with some deliberately wrong calls (gt_override) and optionally GL.
    odd_records: additionally a multi-allelic record, a record without ALT and a duplicated position
    (all of which `whatshap phase` must leave alone). prephased: heterozygous calls of some samples are written
    as a|b with a PS value (stale phase information that must be replaced). missing: {(sample, chrom, i)} -> ./."""
    lines = synth.vcf_header(sc, gl=gl)
    fmt = "GT" + (":PS" if prephased else "") + (":GL" if gl else "")
    for c in sc.chroms:
        rows = []
        for i, v in enumerate(sc.variants[c]):
            calls = []
            for s in sc.samples:
                a, b = sc.haps[s][c][i]
                lo, hi = sorted((a, b))
                gt = gt_override.get((s, c, i), f"{lo}/{hi}")
                idx = {"0/0": 0, "0/1": 1, "1/1": 2}[gt]
                ps = "."
                if (s, c, i) in missing:
                    gt = "./."
                elif prephased and gt == "0/1" and rng.random() < 0.6:
                    gt = rng.choice(["0|1", "1|0"])
                    ps = str(sc.variants[c][0].pos + 1 + rng.choice([0, 0, 7]))
                if prephased:
                    gt += ":" + ps
                if gl:
                    vals = [-(rng.choice([1.0, 2.0, 3.0, 4.5]))] * 3
                    vals[idx] = 0.0
                    gt += ":" + (",".join(f"{x:g}" for x in vals) if (s, c, i) not in missing else ".")
                calls.append(gt)
            rows.append((v.pos, f"{c}\t{v.pos + 1}\t.\t{v.ref}\t{v.alt}\t.\tPASS\t.\t{fmt}\t" + "\t".join(calls)))
        if odd_records and sc.variants[c]:
            ref = sc.ref[c]
            vs = sc.variants[c]
            # multi-allelic and ALT-less records a few bases before the first variant, duplicate of the last SNV
            p = max(2, vs[0].pos - 12)
            alts = [b for b in "ACGT" if b != ref[p]]
            n = len(sc.samples)
            rows.append((p, f"{c}\t{p + 1}\t.\t{ref[p]}\t{alts[0]},{alts[1]}\t.\tPASS\t.\tGT\t" + "\t".join(["1/2"] * n)))
            q = max(1, vs[0].pos - 20)
            rows.append((q, f"{c}\t{q + 1}\t.\t{ref[q]}\t.\t.\tPASS\t.\tGT\t" + "\t".join(["0/0"] * n)))
            last = vs[-1]
            if last.kind == "snv":
                alt2 = [b for b in "ACGT" if b not in (last.ref, last.alt)][0]
                rows.append((last.pos + 0.5, f"{c}\t{last.pos + 1}\t.\t{last.ref}\t{alt2}\t.\tPASS\t.\tGT\t" + "\t".join(["0/1"] * n)))
        rows.sort(key=lambda x: x[0])
        lines += [r for _, r in rows]
    with open(path, "w") as f:
        f.write("\n".join(lines) + "\n")


def apply_interleave(rng, sc, trios, c):
    """Quartet on chromosome c: at the 'genetic' sites the father is heterozygous and the mother homozygous, both
    children inherit the same paternal haplotype up to a late site r and different ones from r on (one
    recombination, forced by the genotypes); two sites h1 < h2 < r in between are heterozygous in all four
    individuals. Returns (father, (h1, h2)) or None if the chromosome is too short."""
    (k1, fa, mo), (k2, _, _) = trios[0], trios[1]
    n = len(sc.variants[c])
    if n < 7:
        return None
    h1, h2 = sorted(rng.sample(range(2, n - 2), 2))
    r = rng.randint(h2 + 1, n - 1)
    p = rng.randint(0, 1)
    fh, mh, c1, c2 = [], [], [], []
    for i in range(n):
        f = rng.choice([(0, 1), (1, 0)])
        pf1 = p
        pf2 = p if i < r else 1 - p
        if i in (h1, h2):
            m = (1 - f[pf1], f[pf1])          # the maternal allele (hap 0) complements the paternal one
        else:
            m = rng.choice([(0, 0), (0, 0), (1, 1)])
        fh.append(f)
        mh.append(m)
        c1.append((f[pf1], m[0]))
        c2.append((f[pf2], m[0]))
    sc.haps[fa][c], sc.haps[mo][c], sc.haps[k1][c], sc.haps[k2][c] = fh, mh, c1, c2
    return fa, (h1, h2)


def pair_reads(rng, sc, sample, c, i1, i2, n, prefix):
    """n read pairs of `sample` whose mates cover variant i1 and variant i2 of chromosome c and nothing else"""
    vs = sc.variants[c]
    out = []
    for k in range(n):
        h = k % 2
        alleles = [x[h] for x in sc.haps[sample][c]]
        mates = []
        for i in (i1, i2):
            v = vs[i]
            s = v.pos - rng.randint(8, 12)
            e = v.pos + len(v.ref) + rng.randint(8, 12)
            seq, cig = synth.hap_walk(sc.ref[c], vs, alleles, s, e)
            mates.append((s, seq, cig))
        (s1, q1, g1), (s2, q2, g2) = mates
        name = f"{prefix}{k}"
        out.append(dict(name=name, sample=sample, chrom=c, start=s1, cigar=g1, seq=q1, qual=30, hap=h,
                        flag=0x1 | 0x2 | 0x40 | 0x20, mate_start=s2))
        out.append(dict(name=name, sample=sample, chrom=c, start=s2, cigar=g2, seq=q2, qual=30, hap=h,
                        flag=0x1 | 0x2 | 0x80 | 0x10, mate_start=s1))
    return out


def build_scenario(spec, wd):
    import random
    rng = random.Random(spec["seed"])
    samples, trios = family_layout(spec, rng)
    chrom_names = None
    if spec.get("names", "role") != "role":
        chrom_names = list(CHROM_POOLS[spec.get("chrom_pool", 0)])[:spec["nchrom"]]
    sc = synth.make_scenario(rng, nchrom=spec["nchrom"], nsamples=len(samples), nvars=spec["nvars"],
                             kinds=tuple(spec["kinds"]), sample_names=samples, het_fraction=0.75, min_gap=25,
                             chrom_names=chrom_names)
    if spec.get("same_coords") and len(sc.chroms) > 1:
        c0 = sc.chroms[0]
        for c in sc.chroms[1:]:
            sc.ref[c] = sc.ref[c0]
            sc.variants[c] = [synth.Variant(v.pos, v.ref, v.alt, v.kind) for v in sc.variants[c0]]
            for s in samples:
                sc.haps[s][c] = [rng.choice([(0, 1), (1, 0)]) if rng.random() < 0.75 else rng.choice([(0, 0), (1, 1)])
                                 for _ in sc.variants[c]]
    for ch, fa, mo in trios:
        for c in sc.chroms:
            child, _ = synth.inherit(rng, sc.haps[fa][c], sc.haps[mo][c], recomb_prob=spec["recomb_prob"])
            sc.haps[ch][c] = child
    interleaved = {}
    if spec.get("interleave") and len(trios) == 2 and trios[0][1:] == trios[1][1:]:
        for c in sc.chroms:
            if rng.random() < 0.8 or not interleaved:
                r = apply_interleave(rng, sc, trios, c)
                if r:
                    interleaved[c] = r
    if spec.get("all_hom_chrom") is not None:
        c = sc.chroms[spec["all_hom_chrom"]]
        for s in samples:
            sc.haps[s][c] = [(1, 1)] * len(sc.variants[c])
    ov = {}
    family_members = {x for t in trios for x in t}
    for c in sc.chroms:
        if spec.get("all_hom_chrom") == sc.chroms.index(c):
            continue
        for i in range(len(sc.variants[c])):
            wrong = [s for s in samples if rng.random() < spec["gt_error"]]
            if rng.random() < spec.get("multi_change", 0.0):
                wrong = sorted(set(wrong) | set(rng.sample(samples, min(len(samples), rng.randint(2, 3)))))   # sorted: no hash-seed dependence
            if c in interleaved:
                wrong = [s for s in wrong if s not in family_members]
            for s in wrong:
                lo, hi = sorted(sc.haps[s][c][i])
                ov[(s, c, i)] = rng.choice([g for g in ("0/0", "0/1", "1/1") if g != f"{lo}/{hi}"])
    missing = set()
    if spec.get("missing_gt"):
        for c in sc.chroms:
            if c in interleaved:
                continue
            for i in range(len(sc.variants[c])):
                if rng.random() < 0.12:
                    missing.add((rng.choice(samples), c, i))
    os.makedirs(wd, exist_ok=True)
    synth.write_fasta(sc, os.path.join(wd, "ref.fa"))
    write_vcf(sc, os.path.join(wd, "in.vcf"), ov, spec["gl"], spec["odd_records"], rng,
              prephased=spec.get("prephased", False), missing=missing)
    reads = []
    member_index = {s: 0 for s in samples}
    for t in trios:
        for s in t:
            member_index[s] = sorted({x for u in trios for x in u if set(u) & set(t) or True}).index(s)
    for s in samples:
        for ci, c in enumerate(sc.chroms):
            # the same read names in every chromosome and in every family (but distinct within a family:
            # whatshap keys reads by (name, file) when it merges the read sets of a family)
            prefix = f"r{member_index[s]}_" if spec.get("shared_read_names") else None
            if c in interleaved and s in family_members:
                fa, (h1, h2) = interleaved[c]
                if s == fa or rng.random() < 0.3:
                    reads += pair_reads(rng, sc, s, c, h1, h2, rng.randint(4, 8), prefix or f"{s}_{c}_p")
                continue
            rs = synth.simulate_reads(rng, sc, s, c, spec["nreads"], len_range=tuple(spec.get("read_len", (120, 380))),
                                      name_prefix=prefix, paired_fraction=spec.get("paired_fraction", 0.0))
            vs = sc.variants[c]
            if spec.get("gap") and len(vs) >= 4 and rng.random() < 0.7:
                # a different place for every sample and chromosome: different block structure per family and chromosome
                g = rng.randint(1, len(vs) - 1)
                lo, hi = vs[g - 1].pos, vs[g].pos
                rs = [r for r in rs if not (r["start"] <= lo and r["start"] + sum(n for o, n in r["cigar"] if o in "MD") > hi)]
            reads += rs
    if not reads:
        # whatshap rejects an input file without any alignment ("No reads could be retrieved"): never pass one
        reads = synth.simulate_reads(rng, sc, samples[0], sc.chroms[0], 6, len_range=(120, 380), name_prefix="fill_")
    groups = sorted({(r["name"], r["sample"]) for r in reads})
    layout = spec.get("bam_layout") or ("split" if spec.get("two_bams") else "single")
    with_reads = [s for s in samples if any(r["sample"] == s for r in reads)]
    # files: list of (file name, samples named in its header); where: (read name, sample) -> file
    if layout == "split" and len(groups) >= 2:
        files = [("reads.bam", list(samples)), ("reads2.bam", list(samples))]
        where = {g: files[hash_name(*g) % 2][0] for g in groups}
        for k in (0, 1):               # no empty file: move one whole name group over (mates stay together)
            if not any(f == files[k][0] for f in where.values()):
                where[groups[0] if where[groups[0]] != files[k][0] else groups[1]] = files[k][0]
                if not any(f == files[1 - k][0] for f in where.values()):
                    where[groups[-1]] = files[1 - k][0]
    elif layout == "per_sample" and len(with_reads) >= 2:
        # one file per sample; a sample is absent from every other file
        files = [(f"s{k}.bam", [s]) for k, s in enumerate(with_reads)]
        files[-1][1].extend(s for s in samples if s not in with_reads)
        where = {g: f"s{with_reads.index(g[1])}.bam" for g in groups}
    elif layout == "solo_plus_rest" and len(with_reads) >= 2:
        # a.bam = A only, b.bam = B only, rest.bam = everybody (including the other reads of A and B)
        solos = rng.sample(with_reads, rng.randint(1, min(2, len(with_reads) - 1)))
        files = [(f"solo{k}.bam", [s]) for k, s in enumerate(solos)] + [("rest.bam", list(samples))]
        where = {}
        for g in groups:
            if g[1] in solos and hash_name(*g) % 2 == 0:
                where[g] = f"solo{solos.index(g[1])}.bam"
            else:
                where[g] = "rest.bam"
        for k, s0 in enumerate(solos):       # no empty solo file
            if not any(f == f"solo{k}.bam" for f in where.values()):
                where[next(g for g in groups if g[1] == s0)] = f"solo{k}.bam"
        if not any(f == "rest.bam" for f in where.values()):
            where[groups[-1]] = "rest.bam"
            files[-1] = ("rest.bam", list(samples))
    else:
        layout = "single"
        files = [("reads.bam", list(samples))]
        where = {g: "reads.bam" for g in groups}
    if layout != "single":
        rng.shuffle(files)                   # the order on the command line (= source ids) is not the creation order

    class _View:                             # header with read groups of this file's samples only
        pass
    for fname, fsamples in files:
        v = _View()
        v.ref, v.chroms, v.samples = sc.ref, sc.chroms, [s for s in samples if s in fsamples]
        rs = [r for r in reads if where[(r["name"], r["sample"])] == fname]
        assert rs, (layout, fname)
        assert all(r["sample"] in fsamples for r in rs)
        synth.write_bam(v, rs, os.path.join(wd, fname))
    bams = [f for f, _ in files]
    index = {f: k for k, f in enumerate(bams)}
    sc.bam_layout = layout
    sc.bam_samples = [list(fs) for _, fs in files]
    sc.read_file = {g: index[f] for g, f in where.items()}     # the generator's own knowledge: read -> file index
    sc.bams = bams
    lines = [f"FAM{k}\t{ch}\t{fa}\t{mo}\t0\t1\n" for k, (ch, fa, mo) in enumerate(trios)]
    if spec.get("ped_shuffle"):
        rng.shuffle(lines)
    if spec["structure"].startswith("three_gen") and spec.get("ped_child_first") is not None:
        lines.sort(key=lambda l: (l.split("\t")[1] == trios[1][0]) != spec["ped_child_first"])
    if spec.get("ped_extra") or not lines:
        lines.insert(rng.randint(0, len(lines)), "FAMX\tghost_child\tghost_father\tghost_mother\t0\t1\n")
    with open(os.path.join(wd, "fam.ped"), "w") as f:
        f.writelines(lines)
    # a genetic map with cheap recombination (used with --genmap on a single chromosome)
    L = max(len(r) for r in sc.ref.values())
    with open(os.path.join(wd, "gen.map"), "w") as f:
        f.write("position COMBINED_rate(cM/Mb) Genetic_Map(cM)\n")
        cum = 0.0
        for p in range(1, L + 200, 97):
            f.write(f"{p} 1.0 {cum:.4f}\n")
            cum += rng.choice([0.5, 3.0, 9.0])
    return sc, trios


def hash_name(name, sample):
    """stable (PYTHONHASHSEED independent) split of read pairs over the BAM files: mates stay together"""
    import zlib
    return zlib.crc32((name + "/" + sample).encode())


# ---------------------------------------------------------------------------------------- running
def phase_args(wd, sc, opt, tag, chromosomes="opt"):
    a = ["phase", "--reference", os.path.join(wd, "ref.fa"), "-o", os.path.join(wd, f"out.{tag}.vcf")]
    if opt["ped"]:
        a += ["--ped", os.path.join(wd, "fam.ped")]
        if opt["genmap"]:
            a += ["--genmap", os.path.join(wd, "gen.map")]
        else:
            a += ["--recombrate", str(opt["recombrate"])]
        if opt["no_genetic_haplotyping"]:
            a += ["--no-genetic-haplotyping"]
        if opt.get("use_ped_samples"):
            a += ["--use-ped-samples"]
    if opt["distrust"]:
        a += ["--distrust-genotypes"]
        if opt["include_homozygous"]:
            a += ["--include-homozygous"]
    if opt["reads"]:
        a += ["--output-read-list", os.path.join(wd, f"reads.{tag}.tsv")]
    if opt["gts"]:
        a += ["--changed-genotype-list", os.path.join(wd, f"gts.{tag}.tsv")]
    if opt["recs"]:
        a += ["--recombination-list", os.path.join(wd, f"recs.{tag}.txt")]
    if opt.get("samples") is not None and not opt.get("use_ped_samples"):
        for k in opt["samples"]:
            a += ["--sample", sc.samples[k]]
    if opt.get("tag_hp"):
        a += ["--tag", "HP"]
    if opt.get("only_snvs"):
        a += ["--only-snvs"]
    if opt.get("algorithm", "whatshap") != "whatshap":
        a += ["--algorithm", opt["algorithm"]]
    if opt.get("max_coverage", 15) != 15:
        a += ["--internal-downsampling", str(opt["max_coverage"])]
    chroms = opt["chromosomes"] if chromosomes == "opt" else chromosomes
    if chroms is not None:
        for k in chroms:
            a += ["--chromosome", sc.chroms[k]]
    a += [os.path.join(wd, "in.vcf")] + [os.path.join(wd, b) for b in getattr(sc, "bams", ["reads.bam"])]
    return a


class RunFailed(Exception):
    def __init__(self, msg, insts=None, stderr=""):
        super().__init__(msg)
        self.insts = insts or []
        self.stderr = stderr


class TimedOut(Exception):
    pass


RUN_TIMEOUT = float(os.environ.get("WHVERIF_C20_RUN_TIMEOUT", "600"))   # per CLI run, seconds


def run_phase(ctx, wd, sc, opt, tag, chromosomes="opt", timeout=RUN_TIMEOUT):
    trace = os.path.join(wd, f"trace.{tag}.jsonl")
    for p in (trace, os.path.join(wd, f"reads.{tag}.tsv"), os.path.join(wd, f"gts.{tag}.tsv"),
              os.path.join(wd, f"recs.{tag}.txt")):
        if os.path.exists(p):
            os.unlink(p)
    args = phase_args(wd, sc, opt, tag, chromosomes)
    rc, out, err = run_cli(ctx, args, cwd=wd, env_extra={"WHATSHAP_VERIF_TRACE": trace}, timeout=timeout)
    if rc == 124 and err == "TIMEOUT":
        raise TimedOut(f"whatshap phase did not finish within {timeout} s\nargs: {args}")
    insts = [json.loads(l) for l in open(trace)] if os.path.exists(trace) else []
    if rc != 0:
        raise RunFailed(f"whatshap phase exited with {rc}: {err[-1500:]}\nargs: {args}", insts, err)
    return insts


# ---------------------------------------------------------------------------------------- parsing
class Interner:
    def __init__(self):
        self.ids = {}

    def __call__(self, s):
        if s not in self.ids:
            self.ids[s] = len(self.ids) + 1
        return self.ids[s]


class Unparseable(Exception):
    pass


def parse_gt_repr(s):
    if s == ".":
        return []
    return [int(x) for x in s.split("/")]


def parse_list_file(path, kind, intern):
    """-> None if the file does not exist, else list of 'H' | tuple entries (ints)."""
    if not os.path.exists(path):
        return None
    out = []
    header = {"reads": READ_HEADER, "gts": GT_HEADER, "recs": REC_HEADER}[kind]
    for ln in open(path).read().split("\n")[:-1]:
        if ln == header:
            out.append("H")
            continue
        try:
            if kind == "reads":
                f = ln.split("\t")
                assert len(f) == 8
                out.append((intern(f[0]), int(f[1]), intern(f[2]), int(f[3]), int(f[4]), int(f[5]), int(f[6]), int(f[7])))
            elif kind == "gts":
                f = ln.split("\t")
                assert len(f) == 7
                out.append((intern(f[0]), intern(f[1]), int(f[2]), intern(f[3]), intern(f[4]), parse_gt_repr(f[5]), parse_gt_repr(f[6])))
            else:
                f = ln.split(" ")
                assert len(f) == 9
                out.append((intern(f[0]), intern(f[1])) + tuple(int(x) for x in f[2:]))
        except (AssertionError, ValueError):
            raise Unparseable(f"{kind} list: cannot parse line {ln!r}")
    return out


def parse_vcf(path, with_ps):
    """-> (samples, {chrom: [record]}) with record = dict(pos, ref, alts, calls=[(sample, gt alleles (-1 = '.'), ps)])"""
    import pysam
    recs = {}
    with pysam.VariantFile(path) as vf:
        samples = list(vf.header.samples)
        order = []
        for r in vf:
            calls = []
            for s in samples:
                call = r.samples[s]
                gt = call["GT"] if "GT" in call else None
                alleles = [] if gt is None else [(-1 if a is None else int(a)) for a in gt]
                if gt is None:
                    alleles = [-1]
                ps = None
                if with_ps:
                    try:
                        ps = call["PS"]
                    except KeyError:
                        ps = None
                calls.append((s, alleles, ps))
            if r.chrom not in recs:
                recs[r.chrom] = []
                order.append(r.chrom)
            recs[r.chrom].append(dict(pos=r.start, ref=r.ref, alts=list(r.alts or []), calls=calls))
    return samples, order, recs


# ---------------------------------------------------------------------------------------- rendering
def T(*xs):
    return "(" + " ".join(xs) + ")"


def inst_term(ins, intern):
    fam = [intern(s) for s in ins["family"]]
    sup = [([(v[0], v[1]) for v in pair[0]], [(v[0], v[1]) for v in pair[1]]) for pair in ins["superreads"]]
    for pair in ins["superreads"]:
        assert len(pair) == 2
    trios = [(intern(c), (intern(f), intern(m))) for c, f, m in ins["trios"]]
    reads = [Raw(T("mkRead", term(intern(r["name"])), term(r["source_id"]), term(r["sample_id"]),
                   term([(v[0], v[1]) for v in r["variants"]]))) for r in ins["reads"]]
    assert all(isinstance(x, int) for x in ins["recombination_costs"])
    tv = ins["transmission_vector"]
    assert tv is not None and ins["partitioning"] is not None
    comps = [(p, c) for p, c in ins["components"]]
    return Raw(T("mkInst", term(fam), term(sup), term(trios), term(list(ins["accessible_positions"])), term(comps),
                 term(list(ins["recombination_costs"])), term(list(tv)), term(reads), term(list(ins["partitioning"]))))


def file_term(lines, ctor):
    if lines is None:
        return Raw("None")
    xs = [Raw("Header") if l == "H" else Raw("Entry " + T(ctor, *[term(x) for x in l])) for l in lines]
    return Raw("(Some " + term(xs) + ")")


def case_term(opt, in_vcf, out_vcf, insts, files, intern, sc_chroms, inst_recs, read_file=None):
    """in_vcf / out_vcf: results of parse_vcf; insts: trace records (processing order);
    files: dict kind -> parsed list file; inst_recs: per trace record, the entries that the real
    write_recombination_list produces for it alone (list of tuples) or None if not computed."""
    samples, order, recs = in_vcf
    osamples, oorder, orecs = out_vcf
    selected = set(order if opt["chromosomes"] is None else [sc_chroms[k] for k in opt["chromosomes"]])
    ids = {}
    for ins in insts:
        for s, n in ins["numeric_ids"].items():
            ids[n] = s
    ids_t = [(n, intern(s)) for n, s in sorted(ids.items())]
    cs = []
    for c in order:
        rts = [Raw(T("mkRec", term(r["pos"]), term(intern(r["ref"])), term([intern(a) for a in r["alts"]]),
                     term([(intern(s), list(g)) for s, g, _ in r["calls"]]))) for r in recs[c]]
        its = [inst_term(ins, intern) for ins in insts if ins["chromosome"] == c]
        cs.append(Raw(T("mkChrom", term(intern(c)), term(c in selected), term(rts), term(its))))
    ov = []
    for c in order:
        ov.append([[(intern(s), (list(g), (None if ps is None else _some(ps)))) for s, g, ps in r["calls"]]
                   for r in orecs.get(c, [])])
    ob = Raw(T("mkObs", file_term(files["reads"], "mkRE"), file_term(files["gts"], "mkGE"),
               file_term(files["recs"], "mkCE"), term(ov)))
    o = Raw(T("mkOpts", term(opt["reads"]), term(opt["gts"]), term(opt["recs"])))
    if inst_recs is None:
        ir = Raw("None")
    else:
        ir = Raw("(Some " + term([Raw("None") if es is None else Raw("(Some " + term([Raw(T("mkCE", *[term(x) for x in e])) for e in es]) + ")")
                                  for es in inst_recs]) + ")")
    src = [(intern(n), (intern(sm), k)) for (n, sm), k in sorted((read_file or {}).items())]
    return T("mkCase", o, term(opt["distrust"]), term(ids_t), term([intern(s) for s in samples]), term(cs), ob, ir,
             term(src) if src else "[]")


def _some(x):
    from .coqeval import Some
    return Some(x)


# ---------------------------------------------------------------------------------------- the real per-call function
def real_inst_recs(ins, wd, intern, suffix=""):
    """Entries that the real write_recombination_list writes for this single (chromosome, family) result.
    Works for both shapes of the function: (path, ...) opening the file itself (with header), and
    (open file, ...) appending entries only."""
    import inspect
    import logging
    from whatshap.cli.phase import write_recombination_list
    from whatshap.pedigree import Trio
    p = os.path.join(wd, f"one_call.{suffix}.txt")
    trios = [Trio(child=c, father=f, mother=m) for c, f, m in ins["trios"]]
    logging.getLogger("whatshap.pedigree").setLevel(logging.WARNING)
    args = (ins["chromosome"], list(ins["accessible_positions"]), dict(map(tuple, ins["components"])),
            list(ins["recombination_costs"]), list(ins["transmission_vector"]), trios)
    first = list(inspect.signature(write_recombination_list).parameters)[0]
    try:
        if first == "path":
            write_recombination_list(p, *args)
        else:
            with open(p, "w") as f:
                write_recombination_list(f, *args)
    except AssertionError:
        if os.path.exists(p):
            os.unlink(p)
        return None
    lines = parse_list_file(p, "recs", intern)
    os.unlink(p)
    if lines and lines[0] == "H":
        lines = lines[1:]
    assert "H" not in lines
    return lines
