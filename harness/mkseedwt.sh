#!/bin/bash
# usage: mkseedwt.sh <name>  -> creates /tmp/seed-<name>: detached worktree of /repo HEAD with the in-place build outputs copied
set -e
wt=/tmp/seed-$1
git -C /repo worktree remove --force $wt 2>/dev/null || true
rm -rf $wt
git -C /repo worktree add -q --detach $wt HEAD
sleep 1
for so in $(cd /repo && find whatshap -name '*.so'); do cp -p /repo/$so $wt/$so; touch $wt/$so; done
for c in core align _variants priorityqueue readselect polyphase/solver; do [ -f /repo/whatshap/$c.cpp ] && cp -p /repo/whatshap/$c.cpp $wt/whatshap/$c.cpp && touch $wt/whatshap/$c.cpp; done
[ -d /repo/build ] && cp -a /repo/build $wt/build && find $wt/build -type f -exec touch {} +
echo $wt
