"""C07 — read selection never exceeds the coverage cap and leaves no admissible read out."""
import itertools
import os
from concurrent.futures import ThreadPoolExecutor

from ..coqeval import eval_checks
from ..util import workdir, shrink_list
from .. import phase_cli

RULE = ("direct: (a) exhaustive multisets of <= 3 (quick) / <= 5 (thorough) reads over <= 4 / <= 5 variants, once as "
        "two-variant reads {first,last} (gapped, bridging matters) and once as contiguous reads, for k in {1,2,3}, bridging "
        "on/off; (b) seeded random read sets (2..14 variants at random genomic positions, 1..45 reads: contiguous / gapped / "
        "paired-end shaped / long, hot spots at several times the cap, random base qualities, source ids 0..2, "
        "preferred_source_ids in {None, {1}, {1,2}, {7}}, k in 1..6, bridging on/off) through the real "
        "whatshap.readselect.readselection with the decision-trace hook. CLI: `whatshap phase` on harness.synth data "
        "(1 sample or father/mother/child trio with --ped, --internal-downsampling 2..8, 80..220 reads per sample, paired "
        "fraction 0/0.3/0.7, optional phased VCF as extra phase input = preferred source) with the solver-instance trace; "
        "plus a FEW-READS stream: trios / quartets / single samples where a member has c reads all stacked on the same 2-3 "
        "variants, every c in 1..k+2 for k in {2..8, 15}, once with all members at c and once mixed with members having many "
        "reads (total span <= k in Coq; a member keeps >= min(c, per-sample cap) reads; a crash of whatshap phase is a violation). "
        "LARGE-SCALE direct stream: 70..1040 variants (instances beyond 64 / 128 / 256 / 1024), dense local reads saturating hot regions, "
        "two-variant fillers, sparse long-range reads (2-4 variants spanning 64..n variant indices, mate-pair / linked-read like), caps "
        "1..3, bridging on/off; L1 on all, L2 replay on those with <= 420 variants. "
        "The direct stream also draws k from 1..8,15,23, 0..45 reads, up to 40 variants, genome-scale coordinates, exact duplicate reads, "
        "preferred sets None / {} / some / all / unmatched, a second call on the same ReadSet object, and a malformed stream (a read with "
        "< 2 variants: ValueError class only). The main CLI stream also omits --internal-downsampling (default 15) and uses "
        "--distrust-genotypes [--include-homozygous]. " +
        "Every CLI run additionally draws: sample names (random pool incl. names sorting against their role, role names swapped, shared "
        "prefixes), VCF column order, 1-3 read groups per sample (ids = sample / opaque / looking like another sample), 1-2 BAM files, "
        "an extra unrelated sample next to a pedigree family, quartets, two unrelated samples without --ped, and the options "
        "--merge-reads, --only-snvs, --no-reference, --sample, --chromosome, --ignore-read-groups, an input VCF that already carries "
        "phasing; any non-zero exit of whatshap phase is a violation with the spec as replay. "
        "A direct case is non-trivial if at least one read is left out; a CLI record is non-trivial if some position "
        "reaches the per-sample cap. distinct = distinct (reads, k, preferred, bridging) / (spec, chromosome).")
TRUSTED = [
    "modelled, not verified: the priority queue and the scores of readselect.pyx are left open (the model takes the pop "
    "order of every loop as an input and the trace hook supplies the implementation's actual order); python set / C++ "
    "unordered_set semantics; ReadSet.get_positions() = sorted distinct positions (the harness ranks positions to variant "
    "indices exactly as _construct_indexes does: order isomorphism position <-> index)",
    "the decision-trace hook in readselect.pyx (guarded by WHATSHAP_VERIF_TRACE) reports the branch actually taken: its "
    "condition text duplicates the branch conditions of the code",
    "CLI level: the phase.py hook dumps `all_reads` as handed to PedigreeDPTable; grouping by Read.sample_id",
]
ASSUMPTIONS = [
    "reads are sorted by position without duplicate positions and cover >= 2 variants (readselection raises ValueError "
    "otherwise; phase.py filters len(read) >= 2 and merge_readsets asserts is_sorted)",
    "family_total: number of family members <= k (for larger families phase.py gives every member cap 1, total = |family|)",
    "maximality is proved for the code as repaired by fix d6f31a2 (rule PrefRepaired; also for the pre-fix rule when no read "
    "is preferred); for the pre-fix rule with preferred reads it is refuted (C07_maximal_current_refuted)",
]

HEADER = """From Coq Require Import ZArith List Bool Arith.
From WH.Model Require Import UnionFind ReadSelect.
Import ListNotations.
Open Scope nat_scope.
"""

DEC = {"violates": "Violates", "selected": "Selected", "skipped": "Skipped"}


# ------------------------------------------------------------------ running the real code
def build_readset(reads):
    """reads: [(source_id, [(position, quality), ...])]"""
    from whatshap.core import Read, ReadSet
    rs = ReadSet()
    for i, (src, vs) in enumerate(reads):
        r = Read(f"r{i}", 50, src, 0)
        for j, (p, q) in enumerate(vs):
            r.add_variant(p, (i + j) % 2, q)
        rs.add(r)
    return rs


class ImplError(Exception):
    """the implementation raised on a well-formed input"""


def run_impl(reads, k, pref, bridging, repeat=0):
    """returns (sorted selected indices, trace items [(und, [(ri, dec)], [(ri, dec)])]).
    repeat = number of earlier calls made on the SAME ReadSet object before the recorded one."""
    import contextlib
    import io
    import whatshap.readselect as rsel
    assert rsel._VERIF_TRACE, "whatshap.readselect imported without WHATSHAP_VERIF_TRACE"
    rset = build_readset(reads)
    try:
        with contextlib.redirect_stdout(io.StringIO()):
            for _ in range(repeat):
                rsel.readselection(rset, k, None if pref is None else set(pref), bridging)
            rsel._verif_take_log()
            result = rsel.readselection(rset, k, None if pref is None else set(pref), bridging)
    except Exception as e:
        rsel._verif_take_log()
        raise ImplError(f"{type(e).__name__}: {e}")
    log = rsel._verif_take_log()
    items = []
    for e in log:
        if e[0] == "outer":
            items.append((list(e[1]), [], []))
        elif e[0] == "slice":
            items[-1][1].append((e[1], DEC[e[2]]))
        elif e[0] == "bridge":
            items[-1][2].append((e[1], DEC[e[2]]))
        else:
            raise RuntimeError(f"unknown trace entry {e!r}")
    return sorted(result), items


def to_index_reads(reads):
    positions = sorted({p for _, vs in reads for p, _ in vs})
    idx = {p: i for i, p in enumerate(positions)}
    return [[idx[p] for p, _ in vs] for _, vs in reads], len(positions)


# ------------------------------------------------------------------ rendering
def nl(xs):
    return "[" + "; ".join(str(x) for x in xs) + "]"


def decl(ds):
    return "[" + "; ".join(f"({ri}, {d})" for ri, d in ds) + "]"


def case_term(reads, k, pref, bridging, result, items):
    ireads, n = to_index_reads(reads)
    prefflags = [(pref is not None and src in pref) for src, _ in reads]
    t = "[" + "; ".join(f"({nl(u)}, {decl(s)}, {decl(b)})" for u, s, b in items) + "]"
    return ("(([" + "; ".join(nl(r) for r in ireads) + "] : list read), ([" + "; ".join("true" if f else "false" for f in prefflags)
            + f"] : list bool), {n}, {k}, {'true' if bridging else 'false'}, ({t} : list outer_item), ({nl(result)} : list nat))")


# case = (reads, pref, n, k, bridging, trace, result)
PROJ = ("let '(reads, pref, n, k, bridging, t, result) := c in ")
CHECKS = {
    # cap_ok / maximal_ok with the span counts tabulated once (C07_fast_evaluators_agree: the same predicates)
    "L1cap": f"fun c => {PROJ} subset_ok reads result && cap_ok_fast reads n k result",
    "L1max": f"fun c => {PROJ} maximal_ok_fast reads n k result",
    # the model of the code (after fix d6f31a2: preferred reads are removed from the main phase)
    "L2": f"fun c => {PROJ} replay_ok PrefRepaired reads pref n k bridging t result",
    # classification only: does the case behave like the pre-fix rule (preferred reads popped again)?
    "old": f"fun c => {PROJ} replay_ok PrefCurrent reads pref n k bridging t result",
}


# ------------------------------------------------------------------ python oracle (search only)
def py_spec(reads, k, result):
    ireads, n = to_index_reads(reads)
    sel = set(result)
    if len(sel) != len(result) or any(not (0 <= r < len(reads)) for r in result):
        return "subset"
    cnt = [sum(1 for r in sel if ireads[r][0] <= i <= ireads[r][-1]) for i in range(n)]
    if any(c > k for c in cnt):
        return "cap"
    for ri in range(len(reads)):
        if ri not in sel and not any(cnt[i] >= k for i in range(ireads[ri][0], ireads[ri][-1] + 1)):
            return "maximal"
    return None


# ------------------------------------------------------------------ generators
def gen_exhaustive(maxreads, nvars):
    spans = [(a, b) for a in range(nvars) for b in range(a + 1, nvars)]
    for shape in ("ends", "contig"):
        for m in range(1, maxreads + 1):
            for combo in itertools.combinations_with_replacement(spans, m):
                # only read sets that use every variant index up to their maximum (positions are ranks)
                reads = []
                for a, b in combo:
                    vs = [a, b] if shape == "ends" else list(range(a, b + 1))
                    reads.append((0, [(10 * (v + 1), 20) for v in vs]))
                for k in (1, 2, 3):
                    for bridging in (False, True):
                        yield reads, k, None, bridging


def gen_random(rng, count):
    for _ in range(count):
        r = rng.random()
        nv = rng.randint(2, 14) if r < 0.88 else rng.randint(15, 40) if r < 0.97 else rng.choice([66, 70, 130, 140, 260])
        span = rng.choice([400, 400, 100000, 250000000])       # small and genome-scale coordinates
        positions = sorted(rng.sample(range(0, span), nv))
        nreads = rng.choice([0, 1, 2, 3, 5, 8, 12, 20, 30, 45]) if nv < 60 else rng.choice([12, 30, 45, 80])
        k = rng.choice([1, 1, 2, 2, 3, 3, 4, 5, 6, 7, 8, 15, 23])
        hot = rng.randrange(nv) if rng.random() < 0.5 else None
        reads = []
        for _ in range(nreads):
            kind = rng.choice(["contig", "contig", "gapped", "paired", "long"])
            if hot is not None and rng.random() < 0.6:
                a = max(0, hot - rng.randint(0, 2))
            else:
                a = rng.randrange(nv - 1)
            if kind == "contig":
                b = min(nv - 1, a + rng.randint(1, 4))
                vs = list(range(a, b + 1))
            elif kind == "long":
                b = min(nv - 1, a + rng.randint(3, nv + 3))            # may span the whole read set
                vs = list(range(a, b + 1))
            elif kind == "gapped":
                b = min(nv - 1, a + rng.randint(1, 6))
                inner = [v for v in range(a + 1, b) if rng.random() < 0.4]
                vs = [a] + inner + [b]
            else:  # paired: two short runs with a hole
                l1 = rng.randint(1, 2)
                gap = rng.randint(1, 4)
                l2 = rng.randint(1, 2)
                vs = [v for v in list(range(a, a + l1)) + list(range(a + l1 + gap, a + l1 + gap + l2)) if v < nv]
                if len(vs) < 2:
                    vs = [a, min(nv - 1, a + 1)]
            vs = sorted(set(vs))
            if len(vs) < 2:
                vs = [nv - 2, nv - 1]
            src = rng.choice([0, 0, 0, 1, 1, 2])
            reads.append((src, [(positions[v], rng.randint(1, 60)) for v in vs]))
        pref = rng.choice([None, None, [1], [1], [1, 2], [7], [], [0, 1, 2]])
        if rng.random() < 0.1 and reads:
            reads = reads + [reads[rng.randrange(len(reads))] for _ in range(rng.randint(1, 3))]     # exact duplicates: score ties
        yield reads, k, pref, rng.random() < 0.6


def gen_large(rng, count):
    """large scale: 70..1030 variants (beyond 64 / 128 / 256 / 1024), dense local reads piling up on a few hot regions,
    two-variant filler reads, and sparse long-range reads (mate-pair / linked-read / phased-block like: 2-4 variants far
    apart, spanning 64..n variant indices); small caps; bridging on and off."""
    sizes = [70, 130, 200, 200, 260, 260, 300, 400, 200, 1030]
    for ci in range(count):
        nv = sizes[ci % len(sizes)] + rng.randint(0, 8)
        positions = [1000 + 100 * i + rng.randint(0, 50) for i in range(nv)]
        k = rng.choice([1, 2, 2, 2, 3, 3])
        small = nv > 500
        # clean: non-overlapping fillers only, so coverage stays below the cap everywhere except in the hot regions and a
        # long-range read is decided by the hot regions alone; busy: overlapping fillers, duplicates, joining reads
        clean = rng.random() < 0.7
        reads = []
        if small:
            # > 1024 covered variants with few reads: long contiguous reads tiling the region, k of them overlapping
            tile = rng.choice([150, 260, 300])
            for a in range(0, nv - 2, tile - rng.randint(1, 20)):
                for j in range(rng.randint(1, k)):
                    reads.append((0, list(range(min(nv - 2, a + j), min(nv, a + j + tile)))))
        # dense local reads: k or k+1 overlapping reads on 1-3 hot regions (saturate whole 64-blocks or parts of them)
        for h in range(rng.randint(1, 3)):
            # the first hot region lies in the middle third (inside the span of the long-range reads) and is short
            start = rng.randrange(nv // 3, 2 * nv // 3 - 10) if h == 0 else rng.randrange(0, nv - 20)
            length = rng.choice([8, 13, 30]) if h == 0 else (rng.choice([8, 13, 30, 64, 70]) if not small else rng.choice([8, 13, 64]))
            for j in range(rng.randint(k, k + 1)):
                a = min(nv - 3, start + j)
                b = min(nv - 1, a + length)
                reads.append((0, list(range(a, b + 1))))
        # two-variant (sometimes three-variant) filler reads
        step = rng.choice([2, 2, 3, 5]) if not small else rng.choice([7, 11])
        for a in range(rng.randint(0, 2), nv - 2, step):
            if rng.random() < 0.85:
                reads.append((0, [a, a + 1] + ([a + 2] if (not clean and rng.random() < 0.2) else [])))
                if not clean and rng.random() < 0.15:
                    reads.append((0, [a, a + 1]))                      # duplicate: undecided after the first iteration
            if not clean and rng.random() < 0.3 and a + step + 1 < nv:
                reads.append((0, [a + 1, a + step]))                   # joins two fillers: covers nothing new -> bridging
        # sparse long-range reads
        for _ in range(rng.randint(1, 6)):
            a = rng.randrange(0, nv // 3)
            lo = min(nv - 1, max(a + 64, 2 * nv // 3))
            b = rng.randrange(lo, nv) if rng.random() < 0.8 else min(nv - 1, a + rng.randint(64, 130))
            b = min(nv - 1, max(b, a + 1))
            inner = sorted(rng.sample(range(a + 1, b), min(b - a - 1, rng.choice([0, 0, 1, 2]))))
            reads.append((rng.choice([0, 0, 1]), [a] + inner + [b]))
        if rng.random() < 0.5:
            reads.append((0, [0, nv - 1]))
        rng.shuffle(reads)
        pref = rng.choice([None, None, None, [1]])
        yield [(src, [(positions[v], rng.randint(1, 60)) for v in vs]) for src, vs in reads], k, pref, rng.random() < 0.6


def gen_malformed(rng, count):
    """a read with fewer than two variants: readselection must refuse (ValueError)"""
    for reads, k, pref, bridging in gen_random(rng, count):
        bad = (rng.choice([0, 1]), [(rng.randint(0, 400), 30)] if rng.random() < 0.8 else [])
        reads = list(reads)
        reads.insert(rng.randint(0, len(reads)), bad)
        yield reads, k, pref, bridging


def nontrivial(reads, result):
    return len(result) < len(reads)


# ------------------------------------------------------------------ direct correspondence
def check_direct(ctx, cases, label, report=True, l2_select=None):
    """cases: list of (reads, k, pref, bridging). Returns (records, failing).
    l2_select(reads, k) -> bool: evaluate the model replay (L2) only for these cases (L1 is evaluated for all)."""
    recs, terms = [], []
    for ci, (reads, k, pref, bridging) in enumerate(cases):
        repeat = 1 if (label == "all" and ci % 9 == 4) else 0      # every 9th case: second call on the same ReadSet object
        try:
            result, items = run_impl(reads, k, pref, bridging, repeat=repeat)
        except ImplError as e:
            ctx.count(("direct", repr(reads), k, repr(pref), bridging), nontrivial=True)
            ctx.violation("readselect:exception", f"readselection raised {e} on well-formed input k={k} pref={pref} "
                          f"bridging={bridging} reads={reads}", replay_of((reads, k, pref, bridging)))
            continue
        if repeat:
            ctx.tally("direct.second_call_on_same_readset")
        ireads, nvar = to_index_reads(reads)
        cnt = [sum(1 for r in result if ireads[r][0] <= i <= ireads[r][-1]) for i in range(nvar)]
        ctx.tally("direct.nreads=" + ("0" if not reads else "1" if len(reads) == 1 else "2" if len(reads) == 2 else "many"))
        ctx.tally("direct.outer_iterations=" + (str(len(items)) if len(items) < 3 else "3+"))
        ctx.tally("direct.bridge_selected", sum(1 for it in items for _, d in it[2] if d == "Selected"))
        ctx.tally("direct.slice_skipped", sum(1 for it in items for _, d in it[1] if d == "Skipped"))
        if cnt and max(cnt) == k:
            ctx.tally("direct.cap_reached_exactly")
        if cnt and max(cnt) == k - 1:
            ctx.tally("direct.max_coverage_one_below_cap")
        if reads and len(result) == len(reads):
            ctx.tally("direct.everything_selected")
        if k > len(reads):
            ctx.tally("direct.k_above_read_count")
        if pref is not None and reads and all(sid in pref for sid, _ in reads):
            ctx.tally("direct.all_reads_preferred")
        if pref == []:
            ctx.tally("direct.preferred_empty_set")
        if len({repr(r[1]) for r in reads}) < len(reads):
            ctx.tally("direct.identical_reads_present")
        if nvar > 14:
            ctx.tally("direct.more_than_14_variants")
        for thr in (64, 128, 256, 1024):
            if nvar > thr:
                ctx.tally(f"direct.variants>{thr}")
            if any(r[-1] - r[0] >= thr for r in ireads):
                ctx.tally(f"direct.read_span>={thr}_variants")
            if any(ireads[r][-1] - ireads[r][0] >= thr for r in result):
                ctx.tally(f"direct.selected_read_span>={thr}_variants")
        if any(r[-1] - r[0] >= 64 and len(r) <= 4 for r in ireads):
            ctx.tally("direct.sparse_long_range_read_present")
        if reads and max(p for _, vs in reads for p, _ in vs) > 100000:
            ctx.tally("direct.genome_scale_positions")
        recs.append((reads, k, pref, bridging, result, items))
        terms.append(case_term(reads, k, pref, bridging, result, items))
        ctx.count(("direct", repr(reads), k, repr(pref), bridging), nontrivial=nontrivial(reads, result))
        ctx.tally(f"direct.{label}")
        ctx.tally("direct.reads", len(reads))
        ctx.tally("direct.bridging" if bridging else "direct.nobridging")
        ctx.tally("direct.preferred" if pref and any(s in pref for s, _ in reads) else "direct.nopreferred")
        ctx.tally("direct.rejected_reads", len(reads) - len(result))
        ctx.tally(f"direct.k={k}")
    if l2_select is None:
        failing, errors = eval_checks("C07d", HEADER, CHECKS, terms, shard=250)
        if errors:
            raise RuntimeError("coq evaluation failed: " + errors[0][1])
    else:
        l1 = {k: v for k, v in CHECKS.items() if k.startswith("L1")}
        l2 = {k: v for k, v in CHECKS.items() if not k.startswith("L1")}
        failing, errors = eval_checks("C07dl1", HEADER, l1, terms, shard=6)
        if errors:
            raise RuntimeError("coq evaluation failed: " + errors[0][1])
        sub = [i for i, r in enumerate(recs) if l2_select(r[0], r[1])]
        ctx.tally(f"direct.{label}.L2_evaluated", len(sub))
        ctx.tally(f"direct.{label}.L1_only", len(recs) - len(sub))
        f2, errors = eval_checks("C07dl2", HEADER, l2, [terms[i] for i in sub], shard=3)
        if errors:
            raise RuntimeError("coq evaluation failed: " + errors[0][1])
        for lab in l2:
            failing[lab] = [sub[j] for j in f2[lab]]
    if report:
        report_direct(ctx, recs, failing)
    return recs, failing


def check_malformed(ctx, cases):
    """reads with < 2 variants: implementation raises ValueError, model answers ValueErr (error class only)."""
    import contextlib
    import io
    import whatshap.readselect as rsel
    terms, raw = [], []
    for reads, k, pref, bridging in cases:
        rset = build_readset(reads)
        try:
            with contextlib.redirect_stdout(io.StringIO()):
                rsel.readselection(rset, k, None if pref is None else set(pref), bridging)
            got = "returned"
        except ValueError:
            got = "ValueError"
        except Exception as e:
            got = type(e).__name__
        rsel._verif_take_log()
        ctx.count(("malformed", repr(reads), k), nontrivial=True)
        ctx.tally("direct.malformed_short_read")
        if got != "ValueError":
            ctx.l2_disagreement("readselection refuses reads with < 2 variants (ValueError)", [{"reads": reads, "k": k, "got": got}])
            continue
        positions = sorted({p for _, vs in reads for p, _ in vs})
        idx = {p: i for i, p in enumerate(positions)}
        ireads = [[idx[p] for p, _ in vs] for _, vs in reads]
        terms.append("(([" + "; ".join(nl(r) for r in ireads) + f"] : list read), {len(positions)}, {k})")
        raw.append((reads, k))
    if not terms:
        return
    failing, errors = eval_checks("C07m", HEADER, {"L2": "fun c => let '(reads, n, k) := c in match readselection PrefRepaired "
                                                   "reads [] n k true [] with inr ValueErr => true | _ => false end"}, terms, shard=300)
    if errors:
        raise RuntimeError("coq evaluation failed: " + errors[0][1])
    if failing["L2"]:
        ctx.l2_disagreement("model answers ValueErr on reads with < 2 variants", [{"reads": raw[i][0]} for i in failing["L2"]])


def replay_of(rec):
    reads, k, pref, bridging = rec[:4]
    return {"kind": "direct", "reads": [[s, [list(v) for v in vs]] for s, vs in reads], "k": k, "pref": pref,
            "bridging": bridging}


def report_direct(ctx, recs, failing):
    cur_ok = set(range(len(recs))) - set(failing["old"])
    for i in failing["L1cap"]:
        reads, k, pref, bridging, result, _ = recs[i]
        ctx.violation("readselect:cap", f"readselection returned {result} for k={k} pref={pref} bridging={bridging} reads={reads}: "
                      "not a duplicate-free subset of the input or some variant is spanned by more than k selected reads",
                      replay_of(recs[i]))
    for i in failing["L1max"]:
        reads, k, pref, bridging, result, _ = recs[i]
        has_pref = pref is not None and any(s in pref for s, _ in reads)
        if has_pref and i in cur_ok:
            sig = "readselect:maximal-preferred-recount"
            why = ("selection is not maximal when preferred_source_ids match reads: the main phase pops the already selected "
                   "preferred reads again and adds their span to the coverage monitor a second time")
        else:
            sig = "readselect:maximal"
            why = "selection is not maximal"
        ctx.violation(sig, f"{why}: k={k} pref={pref} bridging={bridging} reads={reads} -> {result}; a left-out read fits "
                      "without pushing any variant it spans above k", replay_of(recs[i]))


def shrink_case(rec, bad):
    reads, k, pref, bridging = rec[:4]
    small = shrink_list(reads, lambda rs: len(rs) > 0 and bad(rs, k, pref, bridging))
    return small, k, pref, bridging


# ------------------------------------------------------------------ CLI level
ZHEADER = """From Coq Require Import ZArith List Bool Arith.
From WH.Model Require Import UnionFind ReadSelect.
Import ListNotations.
"""


def zl(xs):
    return "[" + "; ".join(f"{x}%Z" for x in xs) + "]"


def cli_terms(res, spec):
    """one Coq case per trace record: (k, f, members : list (list zread), positions)"""
    out = []
    for rec in res["trace"]:
        fam = rec["family"]
        ids = [rec["numeric_ids"][s] for s in fam]
        members = {i: [] for i in ids}
        for r in rec["reads"]:
            members[r["sample_id"]].append([v[0] for v in r["variants"]])
        mem_t = "[" + "; ".join("[" + "; ".join(zl(r) for r in members[i]) + "]" for i in ids) + "]"
        term = f"({spec['k']}%nat, {len(fam)}%nat, {mem_t}, {zl(rec['accessible_positions'])})"
        # cap binding somewhere? (tally only)
        cap = max(1, spec["k"] // len(fam))
        binding = any(sum(1 for r in members[i] if r[0] <= p <= r[-1]) >= cap for i in ids for p in rec["accessible_positions"])
        out.append((term, rec, binding))
    return out


CLI_CHECKS = {
    # the property: total over all members <= k at every accessible position (families of at most k members)
    "L1": "fun c => let '(k, f, members, positions) := c in negb (f <=? k) || family_cap_ok k members positions",
    # model conformance: every member obeys max(1, k / |family|) at every accessible position
    "L2": "fun c => let '(k, f, members, positions) := c in "
          "forallb (fun rs => forallb (fun p => zspan_count rs p <=? per_sample_cap k f) positions) members",
}


def check_cli(ctx, specs, label):
    wd = workdir(ctx)

    def one(i_spec):
        i, spec = i_spec
        return phase_cli.run_phase(ctx, spec, os.path.join(wd, f"{label}{i}"))
    with ThreadPoolExecutor(max_workers=8) as ex:
        results = list(ex.map(one, enumerate(specs)))
    terms, owners = [], []
    for spec, res in zip(specs, results):
        phase_cli.tally_variation(ctx, spec, "cli")
        if res["rc"] != 0:
            ctx.count(("cli", repr(spec)), nontrivial=True)
            sig, why = phase_cli.classify_crash(spec, res, "readselect:cli-crash")
            ctx.violation(sig, f"{why} (rc={res['rc']}) on synthetic input {spec}: " + res["stderr"][-400:],
                          {"kind": "cli", "spec": spec})
            continue
        for term, rec, binding in cli_terms(res, spec):
            terms.append(term)
            owners.append((spec, rec))
            ctx.count(("cli", repr(spec), rec["chromosome"]), nontrivial=binding)
            ctx.tally("cli.records")
            ctx.tally(f"cli.family_size={len(rec['family'])}")
            ctx.tally(f"cli.k={spec['k']}")
            ctx.tally("cli.selected_reads", len(rec["reads"]))
            rank = {p: i for i, p in enumerate(rec["accessible_positions"])}
            for thr in (64, 128, 256):
                if any(rank.get(r["variants"][-1][0], 0) - rank.get(r["variants"][0][0], 0) >= thr for r in rec["reads"]):
                    ctx.tally(f"cli.records_with_selected_read_spanning>={thr}_variants")
            if any(r["source_id"] != 0 for r in rec["reads"]):
                ctx.tally("cli.records_with_preferred_source_reads")
    if not terms:
        return
    failing, errors = eval_checks("C07c", ZHEADER, CLI_CHECKS, terms, shard=40)
    if errors:
        raise RuntimeError("coq evaluation failed: " + errors[0][1])
    for i in failing["L1"]:
        spec, rec = owners[i]
        ctx.violation("readselect:family-cap", f"reads handed to the solver span an accessible position more than "
                      f"--internal-downsampling={spec['k']} times in total (chromosome {rec['chromosome']}, family {rec['family']}, "
                      f"spec {spec})", {"kind": "cli", "spec": spec})
    if failing["L2"]:
        bad = [owners[i] for i in failing["L2"]]
        ctx.disagreements_checked += len(bad)
        ctx.l2_disagreement("per-sample cap max(1, k / |family|) at every accessible position (CLI)",
                            [{"spec": s, "chromosome": r["chromosome"]} for s, r in bad])
    if owners:
        spec, rec = owners[0]
        ctx.sample({"cli_spec": spec, "chromosome": rec["chromosome"], "family": rec["family"],
                    "n_selected_reads": len(rec["reads"]), "n_accessible": len(rec["accessible_positions"])})


# ------------------------------------------------------------------ driver
CORPUS = [
    # tests/test_readselect.py::test_selection shape; the minimal preferred-source recount case
    ([(1, [(10, 30), (20, 30)]), (0, [(10, 30), (20, 30)]), (0, [(10, 30), (20, 30)])], 2, [1], True),
    ([(0, [(10, 1), (40, 1)]), (0, [(10, 1), (20, 1)]), (0, [(10, 1), (50, 1)]), (0, [(10, 1), (20, 1), (50, 1)]),
      (0, [(10, 1), (50, 1)]), (0, [(30, 1), (40, 1)]), (0, [(10, 1), (50, 1)]), (0, [(10, 1), (60, 1)])], 2, None, True),
    ([(0, [(10, 1), (20, 1)]), (0, [(10, 1), (20, 1)]), (0, [(30, 1), (40, 1)]), (0, [(30, 1), (40, 1)]),
      (0, [(50, 1), (60, 1)]), (0, [(50, 1), (60, 1)]), (0, [(10, 1), (60, 1)])], 2, None, True),
]


def run(ctx):
    os.environ["WHATSHAP_VERIF_TRACE"] = "1"
    rng = ctx.rng
    ex = list(gen_exhaustive(ctx.n(3, 5), ctx.n(4, 5)))
    rnd = list(gen_random(rng, ctx.n(700, 12000)))
    ctx.extra["direct_exhaustive_cases"] = len(ex)
    ctx.exhaustive = True
    recs, failing = check_direct(ctx, CORPUS + ex + rnd, "all")
    check_malformed(ctx, list(gen_malformed(rng, ctx.n(60, 600))))
    # large-scale stream: L1 on every case; the model replay (L2) on all cases with <= 420 variants (the > 1024-variant
    # instances are L1 only: replaying them in the model costs ~1 min of vm_compute each)
    large = list(gen_large(rng, ctx.n(60, 400)))
    check_direct(ctx, large, "large", l2_select=lambda reads, k: len({p for _, vs in reads for p, _ in vs}) <= 420)
    for r in recs[:2] + recs[-2:]:
        ctx.sample({"reads": r[0], "k": r[1], "preferred": r[2], "bridging": r[3], "impl_selected": r[4],
                    "outer_iterations": len(r[5])})
    if failing["L2"]:
        bad = failing["L2"]
        ctx.extra["cases_matching_pre_fix_rule_only"] = len(set(bad) - set(failing["old"]))
        ctx.disagreements_checked += len(bad)
        ctx.l2_disagreement("ReadSelect.replay_ok PrefRepaired (decision trace and result of readselection = model)",
                            [replay_of(recs[i]) for i in bad])
        if not failing["L1cap"] and not failing["L1max"]:
            # search: shrink the disagreeing cases w.r.t. the python oracle, then a wider seeded search
            cand = []
            for i in bad[:10]:
                rec = recs[i]
                if py_spec(rec[0], rec[1], rec[4]):
                    cand.append(shrink_case(rec, lambda rs, k, p, b: py_spec(rs, k, run_impl(rs, k, p, b)[0]) is not None))
            for reads, k, pref, bridging in gen_random(rng, ctx.n(4000, 40000)):
                res = py_spec(reads, k, run_impl(reads, k, pref, bridging)[0])
                ctx.count(("direct", repr(reads), k, repr(pref), bridging))
                if res:
                    cand.append(shrink_case((reads, k, pref, bridging),
                                            lambda rs, k, p, b: py_spec(rs, k, run_impl(rs, k, p, b)[0]) is not None))
                    if len(cand) >= 3:
                        break
            if cand:
                check_direct(ctx, cand, "search")
    # CLI level
    specs = []
    for i in range(ctx.n(48, 260)):
        kw = {}
        if i % 7 == 3:
            kw["k"] = 15
            kw["var"] = {"default_k": True}                 # --internal-downsampling omitted: default 15
        if i % 5 == 2:
            kw["distrust"] = True
            kw.setdefault("var", {})["include_homozygous"] = (i % 10 == 2)
        specs.append(phase_cli.make_spec(rng, trio=(i % 3 == 0), tag="PS", low_cov_gaps=False, **kw))
    for nv in ctx.n([70, 140, 270], [70, 70, 140, 140, 270, 270, 520]):
        for trio in (False, True):
            specs.append(phase_cli.make_large_spec(rng, nv, trio=trio, tag="PS", low_cov_gaps=False, k=rng.choice([2, 3, 5]),
                                                   depth_reads=nv * rng.choice([2, 10])))
    check_cli(ctx, specs, "cli")
    check_cli_stacked(ctx, gen_stacked_specs(ctx), "st")
    check_cap_limit(ctx)


# ---- few reads per member, stacked on the same variants (the per-sample cap must still be applied) -------------
STACK_CHECKS = {
    "L1": "fun c => let '(k, f, members, positions, expect) := c in negb (f <=? k) || family_cap_ok k members positions",
    # maximality at the CLI: a member whose n reads all span the same variants keeps min(n, cap) of them at least
    "L1max": "fun c => let '(k, f, members, positions, expect) := c in "
             "forallb (fun me => match snd me with Some n => Nat.min n (per_sample_cap k f) <=? length (fst me) | None => true end) "
             "(combine members expect)",
    "L2": "fun c => let '(k, f, members, positions, expect) := c in "
          "forallb (fun rs => forallb (fun p => zspan_count rs p <=? per_sample_cap k f) positions) members",
}


def gen_stacked_specs(ctx):
    rng = ctx.rng
    specs = []
    ks = [2, 3, 4, 5, 6, 7, 8, 15]
    i = 0
    for k in ks:
        for c in range(1, k + 3):
            fam = "trio" if i % 3 != 2 else "quartet"
            nmem = 3 if fam == "trio" else 4
            i += 1
            # every member has exactly c stacked reads
            specs.append(phase_cli.make_stacked_spec(rng, k, [c] * nmem, family=fam))
            # mixed: some members few (c, or another small count), some with many ordinary reads
            counts = [rng.choice([c, c, None, rng.randint(1, k + 2)]) for _ in range(nmem)]
            counts[rng.randrange(nmem)] = c
            specs.append(phase_cli.make_stacked_spec(rng, k, counts, family=fam, many=rng.randint(40, 90)))
        for c in sorted({1, max(1, k - 1), k, k + 1, k + 2}):
            specs.append(phase_cli.make_stacked_spec(rng, k, [c], family="single"))
    if not ctx.quick:
        for _ in range(300):
            k = rng.choice(ks)
            fam = rng.choice(["trio", "quartet", "single"])
            nmem = {"trio": 3, "quartet": 4, "single": 1}[fam]
            counts = [rng.choice([None, rng.randint(1, k + 2), rng.randint(1, k + 2)]) for _ in range(nmem)]
            if all(c is None for c in counts):
                counts[0] = rng.randint(1, k + 2)
            specs.append(phase_cli.make_stacked_spec(rng, k, counts, family=fam, many=rng.randint(30, 120)))
    return specs


def check_cli_stacked(ctx, specs, label):
    wd = workdir(ctx)

    def one(i_spec):
        i, spec = i_spec
        return phase_cli.run_phase(ctx, spec, os.path.join(wd, f"{label}{i}"), timeout=240)
    with ThreadPoolExecutor(max_workers=8) as ex:
        results = list(ex.map(one, enumerate(specs)))
    terms, owners = [], []
    for spec, res in zip(specs, results):
        fam = phase_cli.family_samples(spec)
        counts = spec["stacked"]["counts"]
        phase_cli.tally_variation(ctx, spec, "stacked")
        if res["rc"] != 0:
            sig, why = phase_cli.classify_crash(spec, res, "readselect:cli-crash")
            ctx.count(("stacked", repr(spec)), nontrivial=True)
            ctx.violation(sig, f"{why} (rc={res['rc']}) with --internal-downsampling {spec['k']}, family {spec['family']}, reads per "
                          f"member {counts} stacked on the same variants: {res['stderr'][-300:]}", {"kind": "stacked", "spec": spec})
            continue
        if not res["trace"]:
            ctx.violation("readselect:cli-crash", f"no trace record written for {spec}", {"kind": "stacked", "spec": spec})
            continue
        for term, rec, binding in cli_terms(res, spec):
            order = rec["family"]
            cnt_of = lambda smp: counts[fam.index(smp)] if smp in fam else None       # extra unrelated sample: ordinary reads
            expect = "[" + "; ".join("None" if cnt_of(s) is None else f"(Some {cnt_of(s)}%nat)" for s in order) + "]"
            terms.append(term[:-1] + ", (" + expect + " : list (option nat)))")
            owners.append((spec, rec))
            few = [c for c in counts if c is not None] if set(order) & set(fam) else []
            ctx.count(("stacked", repr(spec), tuple(order)), nontrivial=len(order) > 1 and sum(few) > spec["k"] // len(order))
            ctx.tally("stacked.records")
            ctx.tally(f"stacked.k={spec['k']}")
            ctx.tally("stacked.selected_reads", len(rec["reads"]))
            if len(order) >= 3 and few and all(c <= spec["k"] for c in few) and sum(few) > spec["k"]:
                ctx.tally("stacked.each_member_within_k_but_family_above_k")
    if not terms:
        return
    failing, errors = eval_checks("C07s", ZHEADER, STACK_CHECKS, terms, shard=40)
    if errors:
        raise RuntimeError("coq evaluation failed: " + errors[0][1])
    for i in failing["L1"]:
        spec, rec = owners[i]
        ctx.violation("readselect:family-cap", f"reads handed to the solver span an accessible position more than "
                      f"--internal-downsampling={spec['k']} times in total: family {rec['family']} with {spec['stacked']['counts']} reads "
                      f"per member stacked on the same variants (the per-sample cap max(1, k // |family|) was not applied?)",
                      {"kind": "stacked", "spec": spec})
    for i in failing["L1max"]:
        spec, rec = owners[i]
        ctx.violation("readselect:cli-maximal", f"a member with n stacked reads keeps fewer than min(n, per-sample cap) of them: "
                      f"k={spec['k']}, family {rec['family']}, reads per member {spec['stacked']['counts']}, kept "
                      f"{[sum(1 for r in rec['reads'] if r['sample_id'] == rec['numeric_ids'][s]) for s in rec['family']]}",
                      {"kind": "stacked", "spec": spec})
    if failing["L2"]:
        bad = [owners[i] for i in failing["L2"]]
        ctx.disagreements_checked += len(bad)
        ctx.l2_disagreement("per-sample cap max(1, k / |family|) at every accessible position (CLI, stacked reads)",
                            [{"spec": s, "chromosome": r["chromosome"]} for s, r in bad])
    spec, rec = owners[-1]
    ctx.sample({"stacked_spec": spec, "family": rec["family"], "n_selected_reads": len(rec["reads"])})


def check_cap_limit(ctx):
    """validate(): --internal-downsampling above 23 is refused (2^k table rows per column)."""
    from ..util import run_cli
    wd = workdir(ctx)
    spec = phase_cli.make_spec(ctx.rng, trio=False, k=24, nvars=6, depth_reads=12, phased_input=False, nchrom=1)
    _, ref, vcf, bam, _, _ = phase_cli.build_inputs(spec, wd)
    for k, want_ok in ((24, False), (23, True)):
        rc, so, se = run_cli(ctx, ["phase", "--reference", ref, "-o", os.path.join(wd, f"o{k}.vcf"),
                                   "--internal-downsampling", k, vcf] + list(bam), cwd=wd)
        ctx.count(("cap-limit", k), nontrivial=True)
        ctx.tally("cli.cap_limit_runs")
        if (rc == 0) != want_ok:
            ctx.violation("readselect:cap-limit", f"--internal-downsampling {k}: exit code {rc}, expected "
                          f"{'success' if want_ok else 'rejection (must not exceed 23)'}: {se[-300:]}",
                          {"kind": "cap-limit"})


def replay(ctx, data):
    os.environ["WHATSHAP_VERIF_TRACE"] = "1"
    if data.get("kind") == "direct":
        reads = [(s, [tuple(v) for v in vs]) for s, vs in data["reads"]]
        check_direct(ctx, [(reads, data["k"], data["pref"], data["bridging"])], "replay")
    elif data.get("kind") == "cli":
        check_cli(ctx, [data["spec"]], "replay")
    elif data.get("kind") == "stacked":
        check_cli_stacked(ctx, [data["spec"]], "replay")
    elif data.get("kind") == "cap-limit":
        check_cap_limit(ctx)
    else:
        run(ctx)
