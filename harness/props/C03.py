"""C03 — phase sets are exactly the read-connected components, named by leftmost variant."""
import itertools
import os
from concurrent.futures import ThreadPoolExecutor

from ..coqeval import eval_checks
from ..util import workdir
from .. import phase_cli

RULE = ("direct: (a) exhaustive incidence structures of <= 3 (quick) / <= 4 (thorough) reads on <= 4 / <= 5 positions (every "
        "read any subset of >= 1 positions, multisets of reads) through the real find_components, each with master block "
        "None / a fixed 2-subset; (b) seeded random cases through find_components (6..14 genomic positions, phased_positions "
        "a sorted subset, 0..14 reads: contiguous / gapped / nested / interleaved / unsorted, sample ids 0..2, master block "
        "None or random subset, heterozygous_positions None or random per-sample sets) and through "
        "compute_overall_components (trust / distrust branches, family size 1 or 3, genetic haplotyping on/off, super-reads "
        "with alleles 0/1/3); (c) malformed stream compared on the exception class only (unsorted phased_positions, "
        "duplicate first position in a read, master block outside phased_positions, sample missing in the het dict). "
        "CLI: `whatshap phase` on harness.synth data (single sample and --ped trios, --tag PS / HP, with/without "
        "--no-genetic-haplotyping, --output-read-list, read graph thinned so that several components arise, paired reads "
        "giving interleaved / nested components, optional phased VCF as extra input) with the solver-instance trace; plus a "
        "JUNCTION stream: --internal-downsampling 1..3, single samples and two unrelated samples without --ped, reads engineered "
        "(nested paired-end 'onion' layers around a centre block) so that the only read linking two groups of variants exceeds the "
        "cap and is dropped by read selection, several junctions per chromosome, link on the left / right / both sides, control "
        "junctions whose link read is kept; the oracle is the connectivity of exactly the reads in the trace = read list. "
        "The direct streams also draw: empty / one-element phased_positions, up to 40 positions, genome-scale coordinates, numeric sample "
        "ids up to 5000, unsorted master blocks, empty het sets, a second call on the same ReadSet object, family sizes 1-4 with numeric "
        "ids in any order for compute_overall_components; any exception other than the modelled classes is a violation. " +
        "Every CLI run additionally draws: sample names (random pool incl. names sorting against their role, role names swapped, shared "
        "prefixes), VCF column order, 1-3 read groups per sample (ids = sample / opaque / looking like another sample), 1-2 BAM files, "
        "an extra unrelated sample next to a pedigree family, quartets, two unrelated samples without --ped, and the options "
        "--merge-reads, --only-snvs, --no-reference, --sample, --chromosome, --ignore-read-groups, an input VCF that already carries "
        "phasing; any non-zero exit of whatshap phase is a violation with the spec as replay. "
        "non-trivial = at least two classes or a class with >= 3 members that is not an interval of positions "
        "(interleaved / nested) or a master block merge; distinct = distinct input structure.")
TRUSTED = [
    "modelled, not verified: python dict/set semantics and ReadSet/Read iteration in cli/phase.py; graph.ComponentFinder is "
    "the shared model WH.Model.UnionFind (tied to the code by C18)",
    "positions are passed to Coq as ranks (order isomorphism: the code only compares and hashes positions); genomic values "
    "are carried separately for the `+ 1` naming",
    "CLI level: parsing of the output VCF (text) and of the read list; the phase.py trace hook dumps the reads/components it "
    "was given; homozygosity for the master block of the specification is taken from the synthetic truth genotypes",
]
ASSUMPTIONS = [
    "C03_components_spec holds for every input on which find_components returns a dict; that it does return one is proved "
    "(C03_components_total) under what its callers guarantee: phased_positions sorted, master block a subset of "
    "phased_positions not repeating its first element, every read sample present in heterozygous_positions, no read listing "
    "its first retained position twice (otherwise model and code raise the same exception class: malformed stream)",
    "--distrust-genotypes at the CLI: homo-/heterozygosity of the specification is read from the super-reads of all family "
    "members in the trace (what the run decided), not from the input genotypes",
]

HEADER = """From Coq Require Import ZArith List Bool Arith.
From WH.Model Require Import UnionFind UFSpec Components.
Import ListNotations.
Open Scope nat_scope.
"""


# ------------------------------------------------------------------ rendering helpers
def nl(xs):
    return "[" + "; ".join(str(x) for x in xs) + "]"


def zl(xs):
    return "[" + "; ".join(f"{x}%Z" for x in xs) + "]"


def optl(x):
    return "(None : option (list nat))" if x is None else f"(Some {nl(x)})"


def reads_t(reads):
    return "[" + "; ".join(f"({s}, {nl(ps)})" for s, ps in reads) + "]"


def het_t(het):
    if het is None:
        return "(None : option hetmap)"
    return "(Some [" + "; ".join(f"({s}, {nl(ps)})" for s, ps in het) + "])"


def assoc_t(items):
    return "([" + "; ".join(f"({a}, {b})" for a, b in items) + "] : list (nat * nat))"


def res_t(res):
    if res[0] == "ok":
        return f"(inl {assoc_t(res[1])} : list (nat * nat) + err)"
    return f"(inr {res[1]} : list (nat * nat) + err)"


class Ranker:
    def __init__(self, values):
        self.sorted = sorted(set(values))
        self.rank = {v: i for i, v in enumerate(self.sorted)}

    def __call__(self, v):
        return self.rank[v]

    def many(self, vs):
        return [self.rank[v] for v in vs]


# ------------------------------------------------------------------ direct: find_components
def build_readset(reads):
    from whatshap.core import Read, ReadSet
    rs = ReadSet()
    for i, (sid, ps) in enumerate(reads):
        r = Read(f"r{i}", 50, 0, sid)
        for j, p in enumerate(ps):
            r.add_variant(p, (i + j) % 2, 30)
        rs.add(r)
    return rs


def call_guarded(f):
    try:
        d = f()
        return ("ok", sorted(d.items()))
    except KeyError:
        return ("err", "KeyError")
    except AssertionError:
        return ("err", "AssertionError")
    except Exception as e:                      # any other exception is recorded as an output, never a harness error
        return ("exc", f"{type(e).__name__}: {e}")


def run_fc(case):
    from whatshap.cli.phase import find_components
    P, reads, mb, het = case["P"], case["reads"], case["mb"], case["het"]
    hetd = None if het is None else {s: set(ps) for s, ps in het}
    rs = build_readset(reads)
    if case.get("repeat"):
        # history: the same ReadSet object (and het dict) was already used for an earlier call
        call_guarded(lambda: find_components(list(P), rs, None if mb is None else list(mb), hetd))
    return call_guarded(lambda: find_components(list(P), rs, None if mb is None else list(mb), hetd))


def fc_term(case, res):
    allv = list(case["P"]) + [p for _, ps in case["reads"] for p in ps] + list(case["mb"] or []) + \
        [p for _, ps in (case["het"] or []) for p in ps]
    rk = Ranker(allv)
    P = rk.many(case["P"])
    reads = [(s, rk.many(ps)) for s, ps in case["reads"]]
    mb = None if case["mb"] is None else rk.many(case["mb"])
    het = None if case["het"] is None else [(s, rk.many(ps)) for s, ps in case["het"]]
    r = res if res[0] == "err" else ("ok", [(rk(a), rk(b)) for a, b in res[1]])
    return f"(({nl(P)} : list nat), ({reads_t(reads)} : list cread), {optl(mb)}, {het_t(het)}, {res_t(r)})"


FC_PROJ = "let '(P, reads, mb, het, res) := c in "
FC_CHECKS = {
    # L1 only speaks about successful calls on well-formed input
    "L1": f"fun c => {FC_PROJ} match res with inl d => components_ok P reads mb het d | inr _ => true end",
    "L2": f"fun c => {FC_PROJ} result_eqb (find_components P reads mb het) res",
}


def py_components(P, reads, mb, het):
    """BFS oracle (search only)."""
    Ps = sorted(set(P))
    hetd = None if het is None else dict(het)
    adj = {p: set() for p in Ps}
    groups = []
    for s, ps in reads:
        g = [p for p in ps if p in adj and (hetd is None or p in hetd.get(s, ()))]
        groups.append(g)
    if mb:
        groups.append(list(mb))
    for g in groups:
        for a in g:
            for b in g:
                if a in adj and b in adj:
                    adj[a].add(b)
    comp = {}
    for p in Ps:
        if p in comp:
            continue
        seen, todo = {p}, [p]
        while todo:
            x = todo.pop()
            for y in adj[x]:
                if y not in seen:
                    seen.add(y)
                    todo.append(y)
        m = min(seen)
        for x in seen:
            comp[x] = m
    return sorted(comp.items())


def fc_nontrivial(case, res):
    if res[0] != "ok":
        return False
    classes = {}
    for p, c in res[1]:
        classes.setdefault(c, []).append(p)
    if len(classes) >= 2 and any(len(v) >= 2 for v in classes.values()):
        return True
    return bool(case["mb"]) and len(case["mb"]) >= 2


def gen_fc_exhaustive(maxreads, npos):
    positions = [10 * i for i in range(npos)]      # starts at position 0 (POS 1 of a contig): a falsy position value
    subsets = [list(c) for m in range(1, npos + 1) for c in itertools.combinations(positions, m)]
    for m in range(0, maxreads + 1):
        for combo in itertools.combinations_with_replacement(range(len(subsets)), m):
            reads = [(0, subsets[i]) for i in combo]
            yield {"P": positions, "reads": reads, "mb": None, "het": None}
            if npos >= 3:
                yield {"P": positions, "reads": reads, "mb": [positions[0], positions[-1]], "het": None}


def gen_reads(rng, U, nreads):
    nv = len(U)
    reads = []
    for _ in range(nreads):
        kind = rng.choice(["contig", "gapped", "nested", "interleaved", "unsorted", "pair", "far"])
        a = rng.randrange(nv)
        if kind == "contig":
            idx = list(range(a, min(nv, a + rng.randint(1, 4))))
        elif kind == "gapped":
            b = min(nv, a + rng.randint(2, 7))
            idx = [i for i in range(a, b) if rng.random() < 0.5] or [a]
        elif kind == "nested":
            b = min(nv - 1, a + rng.randint(2, 8))
            idx = [a, b]
        elif kind == "interleaved":
            idx = list(range(a, nv, 2))[:rng.randint(1, 4)]
        elif kind == "pair":
            idx = sorted({a, min(nv - 1, a + rng.randint(1, 5))})
        elif kind == "far":
            idx = sorted({a, rng.randrange(nv)})            # long-range link (spans up to the whole position set)
        else:
            idx = rng.sample(range(nv), rng.randint(1, min(4, nv)))
        reads.append((rng.choice([0, 0, 1, 2]), [U[i] for i in idx]))
    return reads


def gen_fc_random(rng, count):
    for _ in range(count):
        r0 = rng.random()
        nv = rng.randint(2, 14) if r0 < 0.88 else rng.randint(15, 40) if r0 < 0.97 else rng.choice([70, 140, 330])
        U = sorted(rng.sample(range(0, rng.choice([3000, 3000, 250000000])), nv))
        if rng.random() < 0.3:
            U[0] = 0                                    # a variant on the first base of the contig (0-based position 0)
        r = rng.random()
        P = [] if r < 0.03 else [rng.choice(U)] if r < 0.08 else (sorted(p for p in U if rng.random() < 0.8) or [U[0]])
        reads = gen_reads(rng, U, rng.choice([0, 1, 2, 3, 5, 8, 14]))
        if rng.random() < 0.15:
            remap = {0: rng.randint(3, 50), 1: rng.randint(51, 100), 2: rng.randint(101, 5000)}
            reads = [(remap[s], ps) for s, ps in reads]
        sids = sorted({s for s, _ in reads}) or [0]
        mb = None
        if rng.random() < 0.4:
            mb = rng.sample(P, rng.randint(0, min(4, len(P))))
            if rng.random() < 0.7:
                mb = sorted(mb)
        het = None
        if rng.random() < 0.4:
            het = [(s, sorted(p for p in U if rng.random() < rng.choice([0.0, 0.7, 0.7, 1.0]))) for s in sids]
        yield {"P": P, "reads": reads, "mb": mb, "het": het, "repeat": rng.random() < 0.1}


def gen_fc_malformed(rng, count):
    for _ in range(count):
        base = next(gen_fc_random(rng, 1))
        while len(base["P"]) < 2:
            base = next(gen_fc_random(rng, 1))
        base["repeat"] = False
        kind = rng.choice(["unsorted", "dupfirst", "mb_outside", "mb_dup", "het_missing", "dupP"])
        c = dict(base)
        if kind == "unsorted" and len(c["P"]) >= 2:
            c["P"] = list(reversed(c["P"]))
        elif kind == "dupfirst":
            p = rng.choice(c["P"])
            c["reads"] = c["reads"] + [(0, [p, p] + c["P"][:1])]
        elif kind == "mb_outside":
            c["mb"] = [c["P"][0], max(c["P"]) + 1 + rng.randint(0, 5)]
        elif kind == "mb_dup":
            c["mb"] = [c["P"][0], c["P"][0]]
        elif kind == "het_missing":
            c["het"] = [(6000, list(c["P"]))]
            c["reads"] = c["reads"] + [(0, list(c["P"][:2]))]
        else:
            c["P"] = sorted(c["P"] + c["P"][:2])
        c["kind"] = kind
        yield c


def check_fc(ctx, cases, label):
    terms, raw = [], []
    for case in cases:
        res = run_fc(case)
        ctx.count(("fc", repr(case)), nontrivial=fc_nontrivial(case, res))
        ctx.tally(f"fc.{label}")
        if res[0] == "exc":
            if case.get("kind"):
                ctx.l2_disagreement("find_components exception class on malformed input", [{"case": case, "impl": res}])
            else:
                ctx.violation("components:exception", f"find_components raised {res[1]} on well-formed input {case}",
                              {"kind": "fc", "case": case})
            continue
        raw.append((case, res))
        terms.append(fc_term(case, res))
        ctx.tally("fc.err" if res[0] == "err" else "fc.ok")
        ctx.tally("fc.P_size=" + ("0" if not case["P"] else "1" if len(case["P"]) == 1 else "2" if len(case["P"]) == 2 else "many"))
        for thr in (64, 128, 256):
            if len(case["P"]) > thr:
                ctx.tally(f"fc.positions>{thr}")
        if case["P"] and case["P"][0] == 0 and any(ps and ps[0] == 0 and len(ps) > 1 for _, ps in case["reads"]):
            ctx.tally("fc.read_starting_at_position_0")
        ctx.tally("fc.reads=" + ("0" if not case["reads"] else "1" if len(case["reads"]) == 1 else "many"))
        if case.get("repeat"):
            ctx.tally("fc.second_call_on_same_readset")
        if case["mb"] is not None:
            ctx.tally("fc.mb_size=" + (str(len(case["mb"])) if len(case["mb"]) < 3 else "3+"))
            if case["mb"] != sorted(case["mb"]):
                ctx.tally("fc.mb_unsorted")
        if any(ps != sorted(ps) for _, ps in case["reads"]):
            ctx.tally("fc.unsorted_read_present")
        if any(sid > 2 for sid, _ in case["reads"]):
            ctx.tally("fc.large_sample_ids")
        if res[0] == "ok":
            classes = {}
            for p, c in res[1]:
                classes.setdefault(c, []).append(p)
            keys = [p for p, _ in res[1]]
            ctx.tally("fc.classes=" + ("1" if len(classes) == 1 else "2" if len(classes) == 2 else "many" if classes else "0"))
            if any(len(v) >= 2 and [k for k in keys if v[0] <= k <= v[-1]] != v for v in classes.values()):
                ctx.tally("fc.interleaved_or_nested_class")
        if case["mb"] is not None:
            ctx.tally("fc.with_master_block")
        if case["het"] is not None:
            ctx.tally("fc.with_het_restriction")
    failing, errors = eval_checks("C03fc", HEADER, FC_CHECKS, terms, shard=300)
    if errors:
        raise RuntimeError("coq evaluation failed: " + errors[0][1])
    for i in failing["L1"]:
        case, res = raw[i]
        ctx.violation("components:spec", f"find_components result is not the minimum of the read-connected class: {case} -> {res}",
                      {"kind": "fc", "case": case})
    return raw, failing


# ------------------------------------------------------------------ direct: compute_overall_components
def run_coc(case):
    from whatshap.core import Read, ReadSet, NumericSampleIds
    from whatshap.cli.phase import compute_overall_components
    ids = NumericSampleIds()
    fam = [f"s{i}" for i in range(case["family_size"])]
    # register names so that fam[i] gets numeric id case["ids"][i] (other samples of the run occupy the remaining ids)
    want = case["ids"]
    for n in range(max(want) + 1):
        ids[fam[want.index(n)] if n in want else f"other{n}"]
    assert [ids[s] for s in fam] == want
    srl = []
    for i, cols in zip(want, case["superreads"]):
        a, b = Read("sr0", 0, 0, i), Read("sr1", 0, 0, i)
        for p, x, y in cols:
            a.add_variant(p, x, 30)
            b.add_variant(p, y, 30)
        rs = ReadSet()
        rs.add(a)
        rs.add(b)
        srl.append(rs)
    return call_guarded(lambda: compute_overall_components(
        list(case["acc"]), build_readset(case["reads"]), case["distrust"], fam, case["genetic"],
        list(case["hom"]), ids, srl))


def coc_term(case, res):
    allv = list(case["acc"]) + [p for _, ps in case["reads"] for p in ps] + list(case["hom"]) + \
        [c[0] for cols in case["superreads"] for c in cols]
    rk = Ranker(allv)
    sr = "([" + "; ".join(f"({i}, [" + "; ".join(f"({rk(p)}, {x}, {y})" for p, x, y in cols) + "])"
                          for i, cols in zip(case["ids"], case["superreads"])) + "] : list (nat * list srcol))"
    r = res if res[0] == "err" else ("ok", [(rk(a), rk(b)) for a, b in res[1]])
    reads = [(s, rk.many(ps)) for s, ps in case["reads"]]
    return (f"(({nl(rk.many(case['acc']))} : list nat), ({reads_t(reads)} : list cread), {'true' if case['distrust'] else 'false'}, "
            f"{case['family_size']}, {'true' if case['genetic'] else 'false'}, ({nl(rk.many(case['hom']))} : list nat), {sr}, {res_t(r)})")


COC_CHECKS = {
    "L2": "fun c => let '(acc, reads, distrust, fam, genetic, hom, sr, res) := c in "
          "result_eqb (compute_overall_components acc reads distrust fam genetic hom sr) res",
}


def gen_coc_random(rng, count):
    for _ in range(count):
        nv = rng.randint(2, 12)
        U = sorted(rng.sample(range(1, 3000), nv))
        acc = sorted(p for p in U if rng.random() < 0.85) or [U[0]]
        fam = rng.choice([1, 1, 2, 3, 3, 4])
        ids = rng.sample(range(0, rng.choice([fam, fam + 3, 12])), fam)          # numeric sample ids of the members, any order
        reads = [(ids[s % fam], ps) for s, ps in gen_reads(rng, U, rng.choice([0, 1, 2, 4, 8, 12]))]
        sr = []
        for _ in range(fam):
            sr.append([(p, *rng.choice([(0, 1), (1, 0), (0, 0), (1, 1), (3, 3), (0, 3)])) for p in U if rng.random() < 0.9])
        yield {"acc": acc, "reads": reads, "distrust": rng.random() < 0.5, "family_size": fam,
               "genetic": rng.random() < 0.6, "hom": sorted(p for p in U if rng.random() < 0.3), "superreads": sr, "ids": ids}


def check_coc(ctx, cases, label):
    terms, raw = [], []
    for case in cases:
        res = run_coc(case)
        if res[0] == "exc":
            ctx.count(("coc", repr(case)), nontrivial=True)
            ctx.violation("components:exception", f"compute_overall_components raised {res[1]} on {case}", {"kind": "coc", "case": case})
            continue
        raw.append((case, res))
        terms.append(coc_term(case, res))
        if case["ids"] != list(range(case["family_size"])):
            ctx.tally("coc.numeric_ids_not_in_family_order")
        ctx.count(("coc", repr(case)), nontrivial=res[0] == "ok" and len({c for _, c in res[1]}) >= 2)
        ctx.tally(f"coc.{label}")
        ctx.tally("coc.distrust" if case["distrust"] else "coc.trust")
        ctx.tally(f"coc.family={case['family_size']}")
    failing, errors = eval_checks("C03coc", HEADER, COC_CHECKS, terms, shard=300)
    if errors:
        raise RuntimeError("coq evaluation failed: " + errors[0][1])
    return raw, failing


# ------------------------------------------------------------------ CLI level
def cli_case_terms(spec, res):
    """one Coq case per trace record."""
    sc = res["sc"]
    out = []
    row_off = 0
    for rec in res["trace"]:
        chrom = rec["chromosome"]
        fam = rec["family"]
        acc = rec["accessible_positions"]
        reads_rec = rec["reads"]
        rows = res["readlist"][row_off:row_off + len(reads_rec)]
        row_off += len(reads_rec)
        allv = list(acc) + [v[0] for r in reads_rec for v in r["variants"]] + list(rec["homozygous_positions"]) + \
            [v[0] for srs in rec["superreads"] for sr in srs for v in sr]
        rk = Ranker(allv)
        ids = [rec["numeric_ids"][s] for s in fam]
        reads = [(r["sample_id"], rk.many([v[0] for v in r["variants"]])) for r in reads_rec]
        genetic = bool(rec["genetic_haplotyping"])
        # specification-side master block: accessible positions homozygous (truth) in some family member
        mb_spec = None
        het_spec = None
        distrust = bool(rec["distrust_genotypes"])
        if distrust:
            # --distrust-genotypes: homo-/heterozygosity is what the run itself decided, read from the super-reads of ALL
            # family members in the trace (with or without reads) -- independent of the implementation's own master block
            het_spec, hom_any = [], set()
            for sid, srs in zip(ids, rec["superreads"]):
                hets = []
                for a, b in zip(srs[0], srs[1]):
                    if a[0] in rk.rank and a[0] in set(acc):
                        if (a[1], b[1]) in ((0, 1), (1, 0)):
                            hets.append(rk(a[0]))
                        elif (a[1], b[1]) in ((0, 0), (1, 1)):
                            hom_any.add(a[0])
                het_spec.append((sid, hets))
            if len(fam) > 1 and genetic:
                mb_spec = [rk(p) for p in acc if p in hom_any]
        elif len(fam) > 1 and genetic:
            truth_hom = set()
            for i, v in enumerate(sc.variants[chrom]):
                if any(len(set(sc.genotype(s, chrom, i))) == 1 for s in fam):
                    truth_hom.add(v.pos)
            mb_spec = [rk(p) for p in acc if p in truth_hom]
        sr = "[" + "; ".join(
            f"({sid}, [" + "; ".join(f"({rk(a[0])}, {a[1]}, {b[1]})" for a, b in zip(srs[0], srs[1])) + "])"
            for sid, srs in zip(ids, rec["superreads"])) + "]"
        comps = [(rk(a), rk(b)) for a, b in rec["components"]]
        # observed identifiers
        calls = []
        for (c, pos0, s), d in sorted(res["calls"].items()):
            if c != chrom or s not in fam:
                continue
            if spec["tag"] == "PS":
                if d["phased"] and d["PS"] is not None:
                    calls.append((pos0, d["PS"]))
            elif d["HP"] is not None:
                blocks = {b for b, _ in d["HP"]}
                for b in blocks:
                    calls.append((pos0, b))
        calls_in = [(rk(p), i) for p, i in calls if p in rk.rank]
        calls_out = [(p, i) for p, i in calls if p not in rk.rank]
        rl = []
        rl_bad = []
        for row, r in zip(rows, reads_rec):
            if row["name"] != r["name"] or row["first0"] != r["variants"][0][0]:
                rl_bad.append((row, r["name"]))
            else:
                rl.append((rk(row["first0"]), row["phaseset"]))
        obs = lambda xs: "([" + "; ".join(f"({p}, {i}%Z)" for p, i in xs) + "] : list (nat * Z))"
        term = (f"(({zl(rk.sorted)} : list Z), ({nl(rk.many(acc))} : list nat), ({reads_t(reads)} : list cread), {optl(mb_spec)}, "
                f"{assoc_t(comps)}, {obs(calls_in)}, "
                f"{obs(rl)}, ({len(fam)}, {'true' if genetic else 'false'}, ({nl(rk.many(rec['homozygous_positions']))} : list nat), "
                f"({sr} : list (nat * list srcol)), {het_t(het_spec)}, {'true' if distrust else 'false'}))")
        nclasses = len({b for _, b in comps})
        out.append(dict(term=term, rec=rec, calls_out=calls_out, rl_bad=rl_bad, nclasses=nclasses, ncalls=len(calls_in),
                        nrows=len(rl), mb=mb_spec, distrust=distrust,
                        readless=[smp for smp, sid in zip(fam, ids) if not any(r["sample_id"] == sid for r in reads_rec)]))
    return out


CLI_PROJ = "let '(gpos, P, reads, mb, comps, calls, rl, (fam, genetic, hom, sr, het, distrust)) := c in "
CLI_CHECKS = {
    "L1trace": f"fun c => {CLI_PROJ} components_ok P reads mb het comps",
    "L1ids": f"fun c => {CLI_PROJ} ids_ok gpos P reads mb het calls",
    "L1rl": f"fun c => {CLI_PROJ} ids_ok gpos P reads mb het rl",
    "L2": f"fun c => {CLI_PROJ} result_eqb (compute_overall_components P reads distrust fam genetic hom sr) (inl comps)",
}


def check_cli(ctx, specs, label):
    wd = workdir(ctx)

    def one(i_spec):
        i, spec = i_spec
        return phase_cli.run_phase(ctx, spec, os.path.join(wd, f"{label}{i}"))
    with ThreadPoolExecutor(max_workers=8) as ex:
        results = list(ex.map(one, enumerate(specs)))
    terms, owners = [], []
    for spec, res in zip(specs, results):
        phase_cli.tally_variation(ctx, spec, "jn" if spec.get("junctions") else "rl" if spec.get("readless") is not None else "cli")
        if res["rc"] != 0:
            ctx.count(("cli", repr(spec)), nontrivial=True)
            sig, why = phase_cli.classify_crash(spec, res, "components:cli-crash")
            ctx.violation(sig, f"{why} (rc={res['rc']}) on synthetic input {spec}: " + res["stderr"][-400:],
                          {"kind": "cli", "spec": spec})
            continue
        if not (spec.get("var") or {}).get("prephased"):
            covered = {(rec["chromosome"], smp) for rec in res["trace"] for smp in rec["family"]}
            stray = [(c, p, smp) for (c, p, smp), d in res["calls"].items()
                     if (c, smp) not in covered and (d["phased"] or d["PS"] is not None or d["HP"] is not None)]
            if stray:
                ctx.violation("components:phased-outside", f"phase information written for chromosome/sample pairs that were not "
                              f"phased in this run: {stray[:5]} ({spec})", {"kind": "cli", "spec": spec})
        n_reads = sum(len(r["reads"]) for r in res["trace"])
        if n_reads != len(res["readlist"]):
            ctx.violation("components:readlist-rows", f"read list has {len(res['readlist'])} rows but {n_reads} reads were handed "
                          f"to the solver ({spec})", {"kind": "cli", "spec": spec})
            continue
        for item in cli_case_terms(spec, res):
            rec = item["rec"]
            if item["calls_out"]:
                ctx.violation("components:phased-outside", f"phased calls at positions that are not accessible: {item['calls_out'][:5]} "
                              f"({spec})", {"kind": "cli", "spec": spec})
            if item["rl_bad"]:
                ctx.violation("components:readlist-rows", f"read list rows do not match the solver's reads: {item['rl_bad'][:3]} ({spec})",
                              {"kind": "cli", "spec": spec})
            terms.append(item["term"])
            owners.append((spec, rec))
            ctx.count(("cli", repr(spec), rec["chromosome"]), nontrivial=item["nclasses"] >= 2 or bool(item["mb"]))
            ctx.tally("cli.records")
            ctx.tally(f"cli.family_size={len(rec['family'])}")
            ctx.tally(f"cli.tag={spec['tag']}")
            ctx.tally("cli.classes", item["nclasses"])
            ctx.tally("cli.phased_calls_checked", item["ncalls"])
            ctx.tally("cli.readlist_rows_checked", item["nrows"])
            if spec.get("junctions"):
                n_links = sum(len(j["links"]) for j in spec["junctions"])
                used = sum(1 for r in rec["reads"] if "_X" in r["name"])
                ctx.tally("cli.junction_records")
                ctx.tally("cli.junction_link_reads_total", n_links)
                ctx.tally("cli.junction_link_reads_dropped_by_selection", max(0, n_links - used))
                if n_links - used > 0:
                    ctx.tally("cli.junction_records_with_dropped_sole_link")
            if item["distrust"]:
                ctx.tally("cli.distrust_records")
                if item["mb"]:
                    ctx.tally("cli.distrust_records_with_master_block")
            if item["readless"] and len(rec["family"]) > 1:
                ctx.tally("cli.records_with_family_member_without_reads")
                # does a read-less member alone contribute a master-block position? (homozygous there, nobody else is)
                sr_by = dict(zip(rec["family"], rec["superreads"]))
                def homs(smp):
                    return {a[0] for a, b in zip(*sr_by[smp]) if (a[1], b[1]) in ((0, 0), (1, 1))} if item["distrust"] else None
                if item["distrust"]:
                    others = set().union(*[homs(x) for x in rec["family"] if x not in item["readless"]]) if len(item["readless"]) < len(rec["family"]) else set()
                    alone = set().union(*[homs(x) for x in item["readless"]]) - others
                    if alone & set(rec["accessible_positions"]):
                        ctx.tally("cli.readless_member_alone_homozygous_at_accessible_position")
            if item["mb"]:
                ctx.tally("cli.records_with_master_block")
            if len(rec["family"]) > 1 and not rec["genetic_haplotyping"]:
                ctx.tally("cli.no_genetic_haplotyping")
    if not terms:
        return
    failing, errors = eval_checks("C03cli", HEADER, CLI_CHECKS, terms, shard=10)
    if errors:
        raise RuntimeError("coq evaluation failed: " + errors[0][1])
    for lab, sig, what in (("L1trace", "components:trace-spec", "traced components are not the minima of the read-connected classes"),
                           ("L1ids", "components:ps-id", "a PS/HP block id in the output VCF is not 1 + position of the leftmost variant of "
                            "the call's read-connected component"),
                           ("L1rl", "components:readlist-id", "a read-list phase set is not the block id of the read's first variant")):
        for i in failing[lab]:
            spec, rec = owners[i]
            ctx.violation(sig, f"{what}: chromosome {rec['chromosome']}, family {rec['family']}, spec {spec}", {"kind": "cli", "spec": spec})
    if failing["L2"]:
        bad = [owners[i] for i in failing["L2"]]
        ctx.disagreements_checked += len(bad)
        ctx.l2_disagreement("Components.compute_overall_components = traced components (CLI)",
                            [{"spec": s, "chromosome": r["chromosome"]} for s, r in bad])
    spec, rec = owners[0]
    ctx.sample({"cli_spec": spec, "chromosome": rec["chromosome"], "family": rec["family"],
                "components": rec["components"][:12]})


# ------------------------------------------------------------------ driver
def run(ctx):
    rng = ctx.rng
    ex = list(gen_fc_exhaustive(ctx.n(3, 4), ctx.n(4, 5)))
    rnd = list(gen_fc_random(rng, ctx.n(700, 15000)))
    mal = list(gen_fc_malformed(rng, ctx.n(150, 2000)))
    ctx.extra["fc_exhaustive_cases"] = len(ex)
    ctx.exhaustive = True
    raw, failing = check_fc(ctx, ex + rnd + mal, "all")
    for case, res in raw[len(ex):len(ex) + 2] + raw[-1:]:
        ctx.sample({"find_components_case": case, "impl": res})
    l2 = [raw[i] for i in failing["L2"]]
    craw, cfailing = check_coc(ctx, list(gen_coc_random(rng, ctx.n(500, 8000))), "all")
    for case, res in craw[:1]:
        ctx.sample({"compute_overall_components_case": case, "impl": res})
    l2c = [craw[i] for i in cfailing["L2"]]
    if l2 or l2c:
        ctx.disagreements_checked += len(l2) + len(l2c)
        if l2:
            ctx.l2_disagreement("Components.find_components = cli.phase.find_components (L2)",
                                [{"case": c, "impl": r} for c, r in l2])
        if l2c:
            ctx.l2_disagreement("Components.compute_overall_components = cli.phase.compute_overall_components (L2)",
                                [{"case": c, "impl": r} for c, r in l2c])
        if not failing["L1"]:
            # wider search with the BFS oracle; candidates are confirmed in Coq (L1)
            cand = []
            for case in gen_fc_random(rng, ctx.n(5000, 40000)):
                res = run_fc(case)
                ctx.count(("fc", repr(case)), nontrivial=fc_nontrivial(case, res))
                if res[0] == "ok" and res[1] != py_components(case["P"], case["reads"], case["mb"], case["het"]):
                    cand.append(case)
                    if len(cand) >= 3:
                        break
            if cand:
                check_fc(ctx, cand, "search")
    specs = []
    for i in range(ctx.n(60, 240)):
        specs.append(phase_cli.make_spec(rng, trio=(i % 2 == 0), tag=("PS" if i % 4 < 2 else "HP"), low_cov_gaps=(i % 5 != 0),
                                         k=rng.choice([4, 6, 8, 15]), depth_reads=rng.randint(15, 60)))
    for j, nv in enumerate(ctx.n([70, 70, 140], [70, 70, 140, 140, 140, 270])):
        # pedigree (master block) only for the 70-variant instances: the all-pairs edge list of a large master block is slow
        specs.append(phase_cli.make_large_spec(rng, nv, trio=(nv == 70 and j % 2 == 1), tag=rng.choice(["PS", "HP"]),
                                               low_cov_gaps=True, k=2, depth_reads=nv * 4, phased_input=False))
    check_cli(ctx, specs, "cli")
    check_cli(ctx, gen_junction_specs(ctx), "jn")
    check_cli(ctx, [phase_cli.make_readless_spec(rng) for _ in range(ctx.n(24, 200))], "rl")


def gen_junction_specs(ctx):
    """low --internal-downsampling with reads engineered so that the only read linking two groups of variants exceeds
    the cap and is dropped by read selection (see phase_cli.make_junction_spec); single samples and two unrelated
    samples without --ped; control junctions whose link read is kept."""
    rng = ctx.rng
    specs = []
    for i in range(ctx.n(36, 300)):
        k = [1, 2, 3][i % 3]
        njunc = rng.randint(1, 3)
        junctions = []
        for _ in range(njunc):
            control = k >= 2 and rng.random() < 0.25
            layers = (k - 1) - (rng.randint(1, k - 1) if control else 0)
            links = rng.choice([["L"], ["R"], ["L", "R"]])
            junctions.append({"layers": layers, "bs": rng.choice([3, 3, 4]), "links": links})
        specs.append(phase_cli.make_junction_spec(rng, k, junctions, family=("unrelated" if i % 4 == 3 else "single"),
                                                  tag=("PS" if i % 2 == 0 else "HP"), dup=rng.choice([0, 0, 1])))
    return specs


def replay(ctx, data):
    if data.get("kind") == "fc":
        check_fc(ctx, [data["case"]], "replay")
    elif data.get("kind") == "coc":
        check_coc(ctx, [data["case"]], "replay")
    elif data.get("kind") == "cli":
        check_cli(ctx, [data["spec"]], "replay")
    else:
        run(ctx)
