"""C12 — `whatshap stats` counts add up and describe the phase sets present in the file."""
import os
from concurrent.futures import ThreadPoolExecutor

from ..coqeval import eval_checks
from ..util import run_cli, workdir, shrink_list
from .. import stats_gen as G

RULE = ("exhaustive: every sequence of up to 3 (thorough: 4 PS-tagged, 3 HP-tagged) calls out of {het in set 7, het in set 3, "
        "unphased het, homozygous with PS/HP, missing, partially missing with PS/HP, indel het} on one chromosome; plus "
        "seeded random VCFs run through the real CLI `whatshap stats --tsv --block-list --gtf` (+ --only-snvs 30%, "
        "--chromosome 35% incl. comma lists / names absent from the file / header contigs without records, --sample, "
        "--chr-lengths 15%, "
        "bgzip+tabix indexed input 25%): ploidy 2 (2/3 of the cases) or 1, 3, 4; 1-3 samples; 1-4 chromosomes; per "
        "chromosome PS-tagged, HP-tagged, `|` without PS key, or unphased; 0-4 phase sets per sample laid out "
        "contiguously / interleaved / nested / at random; heterozygous, homozygous (also `1|1` with PS), missing "
        "(`./.`, `.`), partially missing (`0/.`, `0|.` with PS, `./.` with HP) calls, records without GT; SNVs, "
        "insertions, deletions, MNPs; duplicated positions, multi-ALT and ALT-less records; phase-set ids = first "
        "position, small, 0 or negative; contig lengths present or missing; a few phased calls with PS='.'; 2% "
        "unsorted files (malformed stream: only rejection is compared). A case is non-trivial if the selected "
        "sample has at least one phase set with >= 2 heterozygous members on a processed chromosome; distinct = "
        "distinct (abstract records, options).")
TRUSTED = [
    "pysam/htslib parsing of the generated VCF into abstract records (position, SNV flag, #ALT, GT tuple, phased flag, "
    "PS absent/'.'/value, block id of HP) and the text parsers of the TSV / block-list / GTF outputs; exception class of an "
    "aborted run read off stderr (VcfNotSortedError / VcfInvalidChromosome / TypeError None-vs-int / other)",
    "modelled, not verified: VcfVariant ordering/hashing by position only (VcfReader never yields two variants at one "
    "position); PhasedBlock.chromosome kept outside the model block (get_nonoverlapping_blocks is only reached per "
    "chromosome); python sorted() as a stable insertion sort; dict insertion order; floats (medians, averages, "
    "fractions) are not compared; n50's `total >= 0.5*target` as 2*total >= target",
    "the reader's ploidy bookkeeping, MixedPhasingError, HP well-formedness asserts and the GtfWriter start<stop assert "
    "are outside the model (inputs are generated inside those preconditions)",
    "which rule set the code implements (Stats.current_rules, or WHVERIF_C12_RULES) is established by L2 only; the positive "
    "theorems are about repaired_rules, the refuted ones about legacy_rules",
]
ASSUMPTIONS = [
    "the file is accepted by VcfReader: one consistent ploidy, positions of the biallelic records non-decreasing within a "
    "chromosome (sorted_recs), one kind of phase tag (HP or PS/`|`) per chromosome, every HP value lists each haplotype once with one block id",
    "counts are about the records VcfReader considers: exactly one ALT allele, an SNV under --only-snvs, the first such record per position",
    "each chromosome forms one contiguous group of records (NoDup chromosome ids); --chromosome names are distinct; with an "
    "index the requested names are contigs of the header; --tsv, --block-list and --gtf are all given",
    "a `|` genotype whose PS is '.' names no phase set (counted as unphased, as haplotag treats block id None); a `|` genotype "
    "in a record without PS key belongs to phase set 0 (call.get('PS', 0))",
]

HEADER = """From Coq Require Import ZArith List Bool Arith.
From WH.Model Require Import Stats.
Import ListNotations.
Open Scope Z_scope.
"""

SIG_F4 = "stats:missing-genotype-counted-het"
SIG_PS = "stats:phased-call-missing-ps"
SIG_HP = "vcfreader:hp-none-crash"
SIG_CRASH = "stats:crash"
SIG_SPEC = "stats:counts-spec"
SIG_ALL = "stats:all-row-block-lengths"
SIG_PIECES = "stats:block-lengths-overlapping-pieces"


def rules_term():
    """which rules L2 compares against: the Coq definition `current_rules`, or WHVERIF_C12_RULES =
    comma list out of {skip_missing_gt, ps_missing_unphased} (used to check a patched scratch worktree)."""
    v = os.environ.get("WHVERIF_C12_RULES")
    if v is None:
        return "current_rules"
    fl = [x.strip() for x in v.split(",") if x.strip()]
    return f"(mkRules {'true' if 'skip_missing_gt' in fl else 'false'} {'true' if 'ps_missing_unphased' in fl else 'false'})"


def l1_fn():
    return ("fun c => match c with (opts, header, groups, given, out) => "
            "match out with ROk o => l1_run (fst opts) groups given o && all_span_ok (fst opts) groups o | RErr _ => false end end")


def l2_fn():
    return ("fun c => match c with (opts, header, groups, given, out) => "
            f"rresult_eqb (run_stats {rules_term()} (fst opts) (snd opts) header groups given) out end")


# ------------------------------------------------------------------------------------------------ running one case
def prepare_input(path, container):
    """the generated text VCF in the requested container; returns the path handed to whatshap"""
    import pysam
    if container == "vcf":
        return path
    if container == "gz":
        pysam.tabix_compress(path, path + ".gz", force=True)
        return path + ".gz"
    if container in ("gz+tbi", "gz+csi"):
        pysam.tabix_index(path, preset="vcf", force=True, csi=container.endswith("csi"))
        return path + ".gz"
    bcf = path[:-4] + ".bcf"
    with pysam.VariantFile(path) as vin, pysam.VariantFile(bcf, "wb", header=vin.header) as vout:
        for r in vin:
            vout.write(r)
    if container == "bcf+csi":
        pysam.tabix_index(bcf, preset="bcf", csi=True, force=True)
    return bcf


def stats_args(case, d, inp, outputs):
    args = ["stats"]
    if "tsv" in outputs:
        args += ["--tsv", os.path.join(d, "o.tsv")]
    if "bl" in outputs:
        args += ["--block-list", os.path.join(d, "o.bl")]
    if "gtf" in outputs:
        args += ["--gtf", os.path.join(d, "o.gtf")]
    if case.get("only_snvs"):
        args.append("--only-snvs")
    for c in case.get("chromosomes") or []:
        args += ["--chromosome", c]
    if case.get("sample"):
        args += ["--sample", case["sample"]]
    if case.get("chr_lengths") is not None:
        args += ["--chr-lengths", os.path.join(d, "lengths.tsv")]
    args.append(inp)
    return args


def run_case(ctx, case, wd, idx):
    """writes the VCF, runs the real CLI, abstracts input and output. Returns a result dict."""
    d = os.path.join(wd, f"c{idx}")
    os.makedirs(d, exist_ok=True)
    path = os.path.join(d, "in.vcf")
    with open(path, "w") as f:
        f.write(case["vcf"])
    container = case.get("container") or ("gz+tbi" if case.get("indexed") else "vcf")
    inp = prepare_input(path, container)
    samples, contigs, groups = G.abstract_vcf(inp, case.get("sample"))          # what whatshap's own parser sees
    if case.get("chr_lengths") is not None:
        with open(os.path.join(d, "lengths.tsv"), "w") as f:
            for name, ln in case["chr_lengths"].items():
                f.write(f"{name}\t{ln}\n")
        # effective lengths: the file replaces the header's lengths (also for chromosomes the header does not declare)
        known = [name for name, _ in contigs]
        contigs = [(name, case["chr_lengths"].get(name)) for name in known + sorted({c for c, _ in groups if c not in known})]
    given = G.unpack_chromosomes(case.get("chromosomes"))
    ids = G.chrom_ids(contigs, groups, given)
    full = ["tsv", "bl", "gtf"]
    rc, so, se = run_cli(ctx, stats_args(case, d, inp, full), cwd=d)
    out = None
    wanted = case.get("outputs") or full
    if rc == 0 and set(wanted) != set(full):
        # the numbers are taken from a run that was given only some of the output options
        d2 = os.path.join(d, "reduced")
        os.makedirs(d2, exist_ok=True)
        if case.get("chr_lengths") is not None:
            import shutil
            shutil.copy(os.path.join(d, "lengths.tsv"), os.path.join(d2, "lengths.tsv"))
        rc, so, se = run_cli(ctx, stats_args(case, d2, inp, wanted), cwd=d2)
        for name in wanted:
            src = os.path.join(d2, "o." + name)
            if os.path.exists(src):
                os.replace(src, os.path.join(d, "o." + name))
            elif os.path.exists(os.path.join(d, "o." + name)):
                os.unlink(os.path.join(d, "o." + name))
    if rc == 0:
        try:
            out = G.parse_outputs(os.path.join(d, "o.tsv"), os.path.join(d, "o.bl"), os.path.join(d, "o.gtf"), ids)
        except (OSError, KeyError, ValueError, IndexError, AssertionError) as e:
            # exit code 0 but an output file is missing / unreadable: an aborted run as far as the property goes
            se = (se or "") + f"\n[harness] exit code 0 but outputs unusable: {type(e).__name__}: {e}"
            out = "EOther"
    if out is None:
        out = G.error_kind(se)
    return dict(case=case, contigs=contigs, groups=groups, given=given, ids=ids, out=out, rc=rc,
                err=se.strip().splitlines()[-1] if se.strip() else "", stderr=se[-1500:])


def is_indexed(c):
    return "+" in c["container"] if c.get("container") else bool(c.get("indexed"))


def l2_only(c):
    """inputs the property does not speak about (the model still has to agree): unsorted, a chromosome in two
    separate runs of records, a --chromosome name given twice"""
    t = c.get("tags", {})
    return bool(t.get("unsorted") or t.get("noncontiguous") or t.get("dup_chromosome_arg"))


def res_term(res):
    c = res["case"]
    return G.case_term(bool(c.get("only_snvs")), is_indexed(c), res["contigs"], res["groups"], res["given"],
                       res["ids"], res["out"])


def processed_recs(res):
    """records of the selected sample on the chromosomes that are reported"""
    sel = set(res["given"]) if res["given"] else None
    out = []
    for c, recs in res["groups"]:
        if sel is None or c in sel:
            out += G.o_counted(bool(res["case"].get("only_snvs")), recs)
    return out


def nontrivial(res):
    sizes = {}
    sel = set(res["given"]) if res["given"] else None
    for c, recs in res["groups"]:
        if sel is None or c in sel:
            for r in G.o_counted(bool(res["case"].get("only_snvs")), recs):
                if G.o_het(r) and G.o_set(r) is not None:
                    sizes[(c, G.o_set(r))] = sizes.get((c, G.o_set(r)), 0) + 1
    return any(v >= 2 for v in sizes.values())


def run_cases(ctx, cases, wd, base=0):
    with ThreadPoolExecutor(max_workers=16) as ex:
        return list(ex.map(lambda ic: run_case(ctx, ic[1], wd, base + ic[0]), enumerate(cases)))


def coq_eval(name, results, shard=60):
    failing, errors = eval_checks(name, HEADER, {"L1": l1_fn(), "L2": l2_fn()}, [res_term(r) for r in results],
                                  shard=shard)
    if errors:
        raise RuntimeError("coq evaluation failed: " + errors[0][1])
    return failing


# ------------------------------------------------------------------------------------------------ classification
def reduced_case(res, pred):
    """remove from the VCF text every record line whose selected-sample abstract record satisfies pred"""
    lines = res["case"]["vcf"].rstrip("\n").split("\n")
    head = [l for l in lines if l.startswith("#")]
    body = [l for l in lines if not l.startswith("#")]
    flat = [r for _, recs in res["groups"] for r in recs]
    assert len(flat) == len(body)
    keep = [l for l, r in zip(body, flat) if not pred(r)]
    c = dict(res["case"])
    c["vcf"] = "\n".join(head + keep) + "\n"
    return c


def oracle_fails(res):
    if l2_only(res["case"]):
        return False
    return not G.oracle_l1(bool(res["case"].get("only_snvs")), res["groups"], res["given"], res["ids"], res["out"])


def model_eq_fn(skip_missing_gt, ps_missing_unphased):
    r = f"(mkRules {'true' if skip_missing_gt else 'false'} {'true' if ps_missing_unphased else 'false'})"
    return ("fun c => match c with (opts, header, groups, given, out) => "
            f"rresult_eqb (run_stats {r} (fst opts) (snd opts) header groups given) out end")


def classify_batch(name, results):
    """signatures of L1-failing cases, decided in Coq: a failure belongs to a recorded defect class iff the
    implementation's complete output is exactly what the model predicts with only that defective rule switched on
    (everything else repaired). Anything the defective rules do not explain gets a generic signature."""
    if not results:
        return []
    fns = {"F4": model_eq_fn(False, True), "PS": model_eq_fn(True, False), "BOTH": model_eq_fn(False, False),
           # everything the property demands holds except the block-length fields of the ALL row
           "ALLLEN": ("fun c => match c with (opts, header, groups, given, out) => "
                      "match out with ROk o => l1_run_nolen (fst opts) groups given o | RErr _ => false end end"),
           # ... except the block-length fields of the per-chromosome rows (and of the ALL row)
           "ROWLEN": ("fun c => match c with (opts, header, groups, given, out) => "
                      "match out with ROk o => l1_run_norowlen (fst opts) groups given o | RErr _ => false end end")}
    failing, errors = eval_checks(name, HEADER, fns, [res_term(r) for r in results], shard=60)
    if errors:
        raise RuntimeError("coq evaluation failed: " + errors[0][1])
    out = []
    for i, r in enumerate(results):
        if r["rc"] != 0 and "'NoneType' object has no attribute 'split'" in r["stderr"]:
            out.append([SIG_HP])
        elif i not in failing["ALLLEN"]:
            out.append([SIG_ALL])
        elif i not in failing["ROWLEN"]:
            out.append([SIG_PIECES])
        elif i not in failing["F4"]:
            out.append([SIG_F4])
        elif i not in failing["PS"]:
            out.append([SIG_PS])
        elif i not in failing["BOTH"]:
            out.append([SIG_F4, SIG_PS])
        else:
            out.append([SIG_CRASH if r["rc"] != 0 else SIG_SPEC])
    return out


def shrink_failure(ctx, res, wd, tag, sig):
    """smallest sub-file (record lines) on which the real code still fails in the same way; options are kept.
    Records of the *other* known defect class are removed first, so that the minimised input shows this class only."""
    other = {SIG_F4: G.ps_missing_phased, SIG_PS: G.missing_gt}.get(sig)
    start = res
    if other is not None and any(other(r) for _, recs in res["groups"] for r in recs):
        cand = run_case(ctx, reduced_case(res, other), wd, f"{tag}o")
        if oracle_fails(cand) or cand["rc"] != 0:
            start = cand
    crashed = start["rc"] != 0
    lines = start["case"]["vcf"].rstrip("\n").split("\n")
    head = [l for l in lines if l.startswith("#")]
    body = [l for l in lines if not l.startswith("#")]
    n = [0]

    def bad(cand):
        n[0] += 1
        c = dict(start["case"])
        c["vcf"] = "\n".join(head + cand) + "\n"
        try:
            r = run_case(ctx, c, wd, f"{tag}s{n[0]}")
        except Exception:
            return False
        if sig == SIG_HP:
            return r["rc"] != 0 and "'NoneType' object has no attribute 'split'" in r["stderr"]
        if crashed:
            return r["rc"] != 0 and not l2_only(r["case"])
        return oracle_fails(r)
    small = shrink_list(body, bad)
    c = dict(start["case"])
    c["vcf"] = "\n".join(head + small) + "\n"
    return c


def describe(res):
    c = res["case"]
    body = [l for l in c["vcf"].split("\n") if l and not l.startswith("##")]
    opts = " ".join((["--only-snvs"] if c.get("only_snvs") else []) + [f"--chromosome {x}" for x in c.get("chromosomes") or []]
                    + ([f"--sample {c['sample']}"] if c.get("sample") else []) + (["(indexed)"] if c.get("indexed") else [])
                    + ([f"--chr-lengths {c['chr_lengths']}"] if c.get("chr_lengths") is not None else []))
    if isinstance(res["out"], str):
        got = f"exit code {res['rc']}: {res['err']}"
    else:
        names = {v: k for k, v in res["ids"].items()}
        got = "; ".join(f"{names[cid]}: " + ",".join(f"{k}={v}" for k, v in zip(G.INT_FIELDS, d[0])
                                                     if k in ("variants", "heterozygous_variants", "phased", "unphased", "singletons", "blocks",
                                                              "bp_per_block_min", "bp_per_block_max", "bp_per_block_sum"))
                        for cid, d in res["out"]["rows"])
        if res["out"]["all"] is not None:
            got += "; ALL: " + ",".join(f"{k}={v}" for k, v in zip(G.INT_FIELDS, res["out"]["all"][0])
                                        if k in ("variants", "phased", "blocks", "bp_per_block_min", "bp_per_block_max", "bp_per_block_sum"))
        got += " | block list " + str([(names[c], k, a, b, n) for c, k, a, b, n in res["out"]["bl"]])
    exp = []
    for cname, recs in res["groups"]:
        if res["given"] and cname not in res["given"]:
            continue
        s = G.o_spec(bool(c.get("only_snvs")), recs)
        exp.append(f"{cname}: variants={s['variants']},heterozygous_variants={s['het']},phased={s['phased']},"
                   f"unphased={s['unphased']},singletons={s['singletons']},blocks={s['blocks']},covered_span={s['span']},piece_lengths={s['pieces']} sets={s['bl']}")
    return f"stats {opts} on\n" + "\n".join(body) + f"\nreported: {got}\nindependent count: " + "; ".join(exp)


WHAT = {
    SIG_F4: "calls with a missing or partially missing genotype (./., 0/., no GT) are counted as heterozygous "
            "(unphased, or phased when they carry PS/HP): reported counts differ from the independent count",
    SIG_PS: "a phased heterozygous call whose PS is '.' (block id None) is put into a phase set named None instead of "
            "being counted as unphased: sorted() of the block ids raises TypeError when another set exists, "
            "otherwise the block list has a line 'None'",
    SIG_HP: "VcfReader._extract_HP_phase crashes on an HP value of (None,)",
    SIG_CRASH: "whatshap stats aborted on an input inside the property's domain",
    SIG_SPEC: "reported numbers / block list contradict the independent count over the file",
    SIG_PIECES: "a chromosome's block lengths (bp_per_block_min / max / sum) are not those of the non-overlapping pieces of its "
                "phase sets (or their sum exceeds the covered span) while all counts and the block list are right: lengths "
                "are computed on pieces that overlap or are cut wrongly",
    SIG_ALL: "the ALL row's block-length fields (bp_per_block_sum / min / max) are not the sum / min / max of the "
             "per-chromosome rows (or the sum exceeds the total covered span) while every per-chromosome row, the block "
             "list and all counts are right: the aggregated object does not hold the per-chromosome non-overlapping pieces",
}


def check_batch(ctx, results, wd, label, report=True):
    """L1 + L2 in Coq; classification, shrinking and reporting of L1 failures. Returns (failing dict)."""
    failing = coq_eval("C12" + label, results)
    l1 = []
    for i in failing["L1"]:
        if l2_only(results[i]["case"]):
            continue                        # malformed stream: the property does not speak; L2 compares the behaviour
        l1.append(i)
    if report and l1:
        by_sig = {}
        cls = classify_batch("C12" + label + "cls", [results[i] for i in l1])
        for i, sigs in zip(l1, cls):
            for s in sigs:
                by_sig.setdefault(s, []).append(i)
        for sig, idxs in sorted(by_sig.items()):
            ctx.tally("violations." + sig, len(idxs))
            first = min(idxs, key=lambda i: (results[i]["rc"] == 0, len(results[i]["case"]["vcf"])))
            small_case = shrink_failure(ctx, results[first], wd, f"{label}m{first}", sig)
            small = run_case(ctx, small_case, wd, f"{label}min{first}")
            fs = coq_eval("C12" + label + "min", [small])
            same = bool(fs["L1"]) and sig in classify_batch("C12" + label + "mincls", [small])[0]
            shown = small if (same or sig == SIG_HP) else results[first]     # Coq confirms the minimised input
            ctx.violation(sig, f"{WHAT[sig]} ({len(idxs)} generated cases). Minimised: " + describe(shown)[:2500],
                          {"case": shown["case"]})
    return failing, l1


# ------------------------------------------------------------------------------------------------ corpus
F4_CORPUS = {
    "vcf": "##fileformat=VCFv4.2\n##contig=<ID=chrA,length=10000>\n"
           '##FORMAT=<ID=GT,Number=1,Type=String,Description="Genotype">\n'
           '##FORMAT=<ID=PS,Number=1,Type=Integer,Description="Phase set">\n'
           "#CHROM\tPOS\tID\tREF\tALT\tQUAL\tFILTER\tINFO\tFORMAT\tS1\n"
           "chrA\t100\t.\tA\tC\t.\t.\t.\tGT:PS\t0|1:100\n"
           "chrA\t200\t.\tA\tC\t.\t.\t.\tGT:PS\t./.:.\n"
           "chrA\t300\t.\tA\tC\t.\t.\t.\tGT:PS\t0/.:.\n"
           "chrA\t400\t.\tA\tC\t.\t.\t.\tGT:PS\t1|0:100\n"
           "chrA\t500\t.\tA\tC\t.\t.\t.\tGT:PS\t0/1:.\n"
           "chrA\t600\t.\tA\tC\t.\t.\t.\tGT:PS\t1/1:.\n",
    "sample": None, "only_snvs": False, "chromosomes": None, "indexed": False, "tags": {"corpus": "F4"}}

OVERLAP_CORPUS = {
    # three interleaved / nested sets (tests/data/phased_overlapping.vcf pattern) plus a second chromosome
    "vcf": "##fileformat=VCFv4.2\n##contig=<ID=chrA,length=1000>\n##contig=<ID=chrB,length=500>\n"
           '##FORMAT=<ID=GT,Number=1,Type=String,Description="Genotype">\n'
           '##FORMAT=<ID=PS,Number=1,Type=Integer,Description="Phase set">\n'
           "#CHROM\tPOS\tID\tREF\tALT\tQUAL\tFILTER\tINFO\tFORMAT\tS1\n" +
           "".join(f"chrA\t{p}\t.\tA\tC\t.\t.\t.\tGT:PS\t0|1:{s}\n" for p, s in
                   [(100, 100), (200, 100), (350, 100), (410, 410), (440, 410), (470, 410), (500, 100), (600, 100),
                    (700, 100), (800, 800), (850, 100), (950, 800)]) +
           "chrB\t10\t.\tAT\tA\t.\t.\t.\tGT:PS\t0|1:10\nchrB\t60\t.\tG\tT\t.\t.\t.\tGT:PS\t1|0:10\n"
           "chrB\t90\t.\tG\tT\t.\t.\t.\tGT:PS\t1|0:90\n",
    "sample": None, "only_snvs": False, "chromosomes": None, "indexed": False, "tags": {"corpus": "overlap"}}


def tally_case(ctx, r):
    """input-distribution counters: option values, containers, names, and what the abstracted input actually contains"""
    c = r["case"]
    t = c.get("tags", {})
    T = ctx.tally
    T("cases")
    T(f"ploidy.{t.get('ploidy', 2)}")
    T("records", sum(len(g[1]) for g in r["groups"]))
    T("chromosomes_total", len(r["groups"]))
    T("n_chromosomes." + (str(len(r["groups"])) if len(r["groups"]) < 4 else "4+"))
    T("container." + (c.get("container") or ("gz+tbi" if c.get("indexed") else "vcf")))
    T("outputs." + "+".join(c.get("outputs") or ["tsv", "bl", "gtf"]))
    if c.get("only_snvs"):
        T("opt.only_snvs")
    if c.get("sample"):
        T("opt.sample")
        first = c["vcf"].split("#CHROM")[1].split("\n")[0].split("\t")[9]
        if c["sample"] != first:
            T("opt.sample.not_the_first_sample")
    if t.get("decorated"):
        T("records_with_ID_QUAL_FILTER_INFO_and_extra_FORMAT_keys")
    if "n50_delta" in t:
        T(f"n50_boundary.half_target_minus_prefix_sum.{t['n50_delta']}")
    body = [l.split("\t") for l in c["vcf"].split("\n") if l and not l.startswith("#")]
    if any("|" in x.split(":")[0] and "/" in x.split(":")[0] for l in body for x in l[9:]):
        T("has.mixed_separator_genotype")
    if any(l[4] == "*" for l in body):
        T("has.star_allele")
    if "sample_names" in t:
        T(f"sample_name_style.{t['sample_names']}")
    if c.get("chr_lengths") is not None:
        T("opt.chr_lengths")
    ch = c.get("chromosomes")
    if ch:
        T("opt.chromosome")
        if any("," in x for x in ch):
            T("opt.chromosome.comma_list")
        if len(ch) > 1:
            T("opt.chromosome.repeated_flag")
        if not r["given"]:
            T("opt.chromosome.unpacks_to_nothing")
        names = [g[0] for g in r["groups"]]
        if any(x not in names for x in r["given"]):
            T("opt.chromosome.name_without_records")
        pres = [x for x in r["given"] if x in names]
        if len(pres) >= 2 and pres != [x for x in names if x in pres]:
            T("opt.chromosome.order_differs_from_file")
    for k in ("unsorted", "noncontiguous", "dup_chromosome_arg"):
        if t.get(k):
            T("l2_only." + k)
    for k in ("grid_exhaustive", "grid_random", "exhaustive", "multi_exhaustive", "multi_random", "n50_boundary",
              "empty_file", "no_contig_header"):
        if t.get(k):
            T("stream." + k)
    names = [g[0] for g in r["groups"]]
    if names != sorted(names):
        T("chromosome_file_order_not_lexicographic")
    if any(a != b and (a.startswith(b) or b.startswith(a)) for a in names for b in names):
        T("chromosome_names_share_prefix")
    out = r["out"]
    if isinstance(out, str):
        T("impl_aborted." + out)
        return
    if out["all"] is not None:
        T("with_ALL_row")
    for cid, (vals, n50) in out["rows"] + ([(0, out["all"])] if out["all"] else []):
        d = dict(zip(G.INT_FIELDS, vals))
        T("row.ng50." + ("nan" if n50 is None else ("zero" if n50 == 0 else "positive")))
        if d["blocks"] >= 2 and d["bp_per_block_min"] == d["bp_per_block_max"]:
            T("row.ties.equal_block_lengths")
        if d["blocks"] >= 2 and d["variant_per_block_min"] == d["variant_per_block_max"]:
            T("row.ties.equal_block_sizes")
    only = bool(c.get("only_snvs"))
    sel = set(r["given"]) if r["given"] else None
    feats = set()
    for cname, recs in r["groups"]:
        if sel is not None and cname not in sel:
            continue
        if any(x["nalts"] != 1 for x in recs):
            feats.add("multi_or_no_ALT_record")
        el = [x for x in recs if x["nalts"] == 1 and (not only or x["snv"])]
        if len({x["pos"] for x in el}) < len(el):
            feats.add("duplicated_position")
        if only and any(not x["snv"] for x in recs):
            feats.add("only_snvs_drops_records")
        cs = G.o_counted(only, recs)
        if not cs:
            feats.add("chromosome_without_counted_records")
        if cs and cs[0]["pos"] == 0:
            feats.add("first_record_at_position_1")
        if any(x["pos"] > 2 ** 28 for x in cs):
            feats.add("positions_above_2^28")
        if any(b["pos"] - a["pos"] == 1 for a, b in zip(cs, cs[1:])):
            feats.add("adjacent_positions")
        hs = [x for x in cs if G.o_het(x)]
        if any(x["gt"] is not None and G._fully(x["gt"]) and len(set(x["gt"])) == 1 and (x["hp"] is not None or (x["phased"] and x["ps"] != "absent"))
               for x in cs):
            feats.add("homozygous_with_phase_tag")
        if any(x["hp"] is not None for x in hs):
            feats.add("HP_tagged")
        if any(x["hp"] is None and x["phased"] and x["ps"] == "absent" for x in hs):
            feats.add("pipe_without_PS_key")
        if any(x["hp"] is None and x["phased"] and isinstance(x["ps"], int) for x in hs):
            feats.add("PS_tagged")
        if any(G.o_set(x) is None for x in hs):
            feats.add("unphased_het")
        sets = {}
        for x in hs:
            if G.o_set(x) is not None:
                sets.setdefault(G.o_set(x), []).append(x["pos"])
        if any(k <= 0 for k in sets):
            feats.add("phase_set_id_zero_or_negative")
        big = [v for v in sets.values() if len(v) >= 2]
        feats.add("big_sets." + (str(len(big)) if len(big) < 3 else "3+"))
        if any(len(v) == 1 for v in sets.values()):
            feats.add("singleton_set")
        if any(len(v) == 2 for v in sets.values()):
            feats.add("set_of_exactly_2")
        ov = sum(1 for a in big for b in big if a is not b and a[0] < b[0] < a[-1])
        if ov:
            feats.add("overlapping_sets")
        if sum(1 for a in big if sum(1 for b in big if a is not b and (a[0] < b[0] < a[-1] or b[0] < a[0] < b[-1])) >= 2) >= 3:
            feats.add("three_mutually_overlapping_sets")
        pieces = G.o_pieces(list(sets.values()))
        if sorted(pieces) != sorted(v[-1] - v[0] for v in big):
            feats.add("pieces_differ_from_sets")
        if len(pieces) > len(big):
            feats.add("a_set_contributes_two_pieces")
        if big and len(pieces) < len(big):
            feats.add("a_set_contributes_no_piece")
    for f in feats:
        T("has." + f)
    if any(G.missing_gt(x) for x in processed_recs(r)):
        T("has.missing_or_partial_genotype")
    if any(G.ps_missing_phased(x) for x in processed_recs(r)):
        T("has.phased_call_ps_missing")
    if t.get("n50_boundary") and out["rows"]:
        T("n50_boundary.rows")


def run(ctx):
    rng = ctx.rng
    wd = workdir(ctx)
    # corpus: a phase set nested in another on chr1, ordinary blocks on chr2 / chr3 that start between the two
    cross = G._grid_case(["aaabbaa", "-cccu", "ccb"], [0, 50, -99], tag="corpus_cross")
    # malformed-but-accepted (L2 only): a chromosome in two runs of records; a --chromosome name given twice (with index)
    split_chrom = dict(cross, vcf=cross["vcf"].replace("chr1\t600", "chr1\t600").rstrip("\n") + "\nchr1\t2000\t.\tA\tC\t.\t.\t.\tGT:PS\t0|1:10\n",
                       tags={"noncontiguous": True, "ploidy": 2, "miss": False})
    dup_arg = dict(cross, container="gz+tbi", indexed=True, chromosomes=["chr1,chr1", "chr2"],
                   tags={"dup_chromosome_arg": True, "ploidy": 2, "miss": False})
    cases = [cross, dict(cross, only_snvs=True), split_chrom, dup_arg, F4_CORPUS, OVERLAP_CORPUS, dict(OVERLAP_CORPUS, only_snvs=True), dict(OVERLAP_CORPUS, chromosomes=["chrB"]),
             dict(OVERLAP_CORPUS, indexed=True, chromosomes=["chrB,chrA"])]
    exh = list(G.gen_exhaustive(ctx.n(3, 4), "PS", symbols=ctx.n("abuhmp", "abuhmpi")))
    if not ctx.quick:
        exh += list(G.gen_exhaustive(3, "HP"))
    cases += exh
    ctx.exhaustive = True
    ctx.extra["exhaustive_space"] = (f"{len(exh)} cases: every sequence of up to {ctx.n(3, 4)} calls from {{het in set 7, het in set 3, "
                                     "het unphased, hom with PS/HP, missing, partially missing with PS/HP" + ("" if ctx.quick else ", indel het in set 7") + "} "
                                     "on one chromosome (PS tags" + ("" if ctx.quick else " and HP tags") + "), sequences with an indel also under --only-snvs")
    grid = list(G.gen_grid_exhaustive(ctx.n(4, 5)))
    grid += [G.gen_grid_random(rng) for _ in range(ctx.n(80, 1000))]
    cases += grid
    ctx.extra["grid_stream"] = (f"{len(grid)} cases with 2-3 chromosomes on one coordinate grid: every pair (two phase sets with "
                                f">= 2 members each over {ctx.n(4, 5)} slots) x (one phase set with >= 2 members among unphased calls), "
                                "second chromosome aligned and shifted by half a slot, plus random grid layouts")
    multi = list(G.gen_multi_exhaustive(ctx.n([6, 7], [6, 7, 8]), ctx.n(3, 4)))
    multi += [G.gen_multi_random(rng) for _ in range(ctx.n(100, 1500))]
    cases += multi
    ctx.extra["multi_set_stream"] = (f"{len(multi)} one-chromosome cases: every distribution of {ctx.n('6-7', '6-8')} slots over <= "
                                     f"{ctx.n(3, 4)} phase sets (up to renaming, >= 2 sets with >= 2 members: all interleavings and "
                                     "nestings), plus random layouts of 3-4 sets over 6-10 irregularly spaced slots")
    cases += [G.empty_case(True), G.empty_case(False)]
    cases += [G.gen_n50_boundary(rng) for _ in range(ctx.n(60, 600))]
    n = ctx.n(250, 3000)
    for i in range(n):
        size = "tiny" if i % 5 == 0 else ("large" if i % 7 == 0 else "small")
        cases.append(G.gen_case(rng, size))
    import time
    t0 = time.time()
    results = []
    for off in range(0, len(cases), 400):
        results += run_cases(ctx, cases[off:off + 400], wd, base=off)
    ctx.log(f"{len(cases)} cases run through the CLI in {time.time() - t0:.0f}s")
    for r in results:
        c = r["case"]
        key = (G.case_term(bool(c.get("only_snvs")), is_indexed(c), r["contigs"], r["groups"], r["given"], r["ids"], "EOther"))
        ctx.count(key, nontrivial=nontrivial(r))
        tally_case(ctx, r)
    for r in results[:2] + results[5:8]:
        ctx.sample({"options": {k: r["case"].get(k) for k in ("sample", "only_snvs", "chromosomes", "indexed")},
                    "vcf_records": [l for l in r["case"]["vcf"].split("\n") if l and not l.startswith("#")][:12],
                    "impl": r["out"] if isinstance(r["out"], str) else {"rows": r["out"]["rows"], "all": r["out"]["all"],
                                                           "block_list": r["out"]["bl"], "gtf": r["out"]["gtf"]}})
    t0 = time.time()
    failing, l1 = check_batch(ctx, results, wd, "main")
    ctx.log(f"Coq evaluation, classification and minimisation in {time.time() - t0:.0f}s")
    ctx.extra["l1_failures"] = len(l1)
    if failing["L2"]:
        bad = [results[i] for i in failing["L2"]]
        ctx.disagreements_checked += len(bad)
        ctx.l2_disagreement(f"Stats.run_stats {rules_term()} = whatshap stats outputs (L2)",
                            [{"case": b["case"], "impl": b["out"], "rc": b["rc"], "err": b["err"]} for b in bad])
        if not l1:
            # the model no longer describes the code: look for an input on which the code violates the property text
            extra = [G.gen_case(rng, "small") for _ in range(ctx.n(600, 3000))]
            res2 = run_cases(ctx, extra, wd, base=100000)
            cand = [r for r in res2 if oracle_fails(r)]
            for r in res2:
                ctx.count(None, nontrivial=False)
            if cand:
                check_batch(ctx, cand[:50], wd, "search")


def replay(ctx, data):
    wd = workdir(ctx)
    res = run_cases(ctx, [data["case"]], wd)
    failing, l1 = check_batch(ctx, res, wd, "replay")
    if failing["L2"]:
        ctx.l2_disagreement("Stats.run_stats = whatshap stats outputs (L2, replay)", [{"case": data["case"], "impl": res[0]["out"]}])
    ctx.count(repr(data["case"]), nontrivial=nontrivial(res[0]))
    ctx.log("replay: property " + ("FAILS" if l1 else "holds") + " on this input")
