"""C09 — PS and HP encodings are equivalent, round-trip, and never mix old and new phase."""
import json
import os
import shutil
from concurrent.futures import ThreadPoolExecutor

from .. import synth, util, vcfabs, vcfgen
from ..coqeval import eval_checks
from . import C04

RULE = ("a history = a synthetic multi-sample scenario (1-3 samples, 1-2 chromosomes, single- and paired-end error-free "
        "reads so that phase sets interleave) whose variant file (1/0-ordered and missing genotypes, extra FORMAT fields, "
        "optionally pre-phased with PS or HP(+PQ), a phased multi-ALT record) is pushed through a random sequence of up to "
        "4 steps from {phase --tag PS, phase --tag HP, unphase} with random --sample selections and --distrust-genotypes; "
        "every phase step is run with BOTH tags on the same input (the history continues with the named one); every "
        "output is read back with the real VcfReader(phases=True); about half of the phase steps are followed by "
        "`whatshap phase base.vcf phased.vcf` (phased VCF as only phase input). A case is one step; non-trivial = the "
        "step phases at least two variants of a target sample into one set; distinct = distinct (input text, options).")
TRUSTED = C04.TRUSTED + [
    "VcfReader: the ploidy-consistency checks are not modelled (all generated genotypes are diploid); genotype "
    "likelihood / allele depth parsing is not used",
    "what was written = the super-reads and components recorded by the WHATSHAP_VERIF_TRACE hook of whatshap phase",
]
ASSUMPTIONS = [
    "C09_decode_encode_HP and the file-level theorems speak about diploid, bi-allelic phase tuples ((0,1) or (1,0)): "
    "the HP encoding indexes haplotypes by allele number and cannot represent anything else",
    "C09_decode_written: each chromosome forms one run, target samples exist, calls are pysam-shaped (a GT value has at "
    "least one allele), the reader gets the writer's only_snvs/mav and accepts the file; VcfReader rejects any file "
    "that mixes the two encodings, also between samples, so histories draw a --sample subset only while the other "
    "samples carry no phase",
    "phase sets fit under the coverage cap (generated files have < 7 overlapping sets)",
]

HEADER = C04.HEADER + """
Definition tabs := list (token * list row).
(* p_plan: what the writer was actually given (trace; used for L2); p_sel: the same with EVERY selected sample as a
   target -- a selected sample for which the run produced no super-reads at all has no phase (used for the
   specification checks: its old phase statements must go as well) *)
Record pstep := mkPStep { p_only_snvs : bool; p_end_decl : bool; p_plan : list (token * list target);
  p_sel : list (token * list target); p_in : list vrec;
  p_outPS : list vrec; p_outHP : list vrec; p_readPS : res tabs; p_readHP : res tabs }.
Definition cfP (k : pstep) := mkCfg TagPS (p_only_snvs k) false (p_end_decl k).
Definition cfH (k : pstep) := mkCfg TagHP (p_only_snvs k) false (p_end_decl k).
(* tables used for the specification checks: the real read-back *)
Definition eff (out : list vrec) (real : res tabs) : res tabs := real.
Definition okb {A} (r : res A) (f : A -> bool) : bool := match r with Ok a => f a | Err _ => false end.
Definition w_l2 (cf : cfg) (k : pstep) (out : list vrec) : bool :=
  match phase_writer cf the_rules (p_plan k) (p_in k) with Ok o' => all2 rec_sim out o' | Err _ => false end.
Definition l2_writer_PS k := w_l2 (cfP k) k (p_outPS k).
Definition l2_writer_HP k := w_l2 (cfH k) k (p_outHP k).
Definition l2_reader_PS k := tables_eqb (read_file the_guard false false (p_outPS k)) (p_readPS k).
Definition l2_reader_HP k := tables_eqb (read_file the_guard false false (p_outHP k)) (p_readHP k).
Definition readable_PS k := okb (p_readPS k) (fun _ => true).
Definition readable_HP k := okb (p_readHP k) (fun _ => true).
Definition decode_PS_ok k := okb (eff (p_outPS k) (p_readPS k)) (file_decodes (cfP k) (p_sel k)).
Definition decode_HP_ok k := okb (eff (p_outHP k) (p_readHP k)) (file_decodes (cfH k) (p_sel k)).
Definition okt {A} (r : res A) (f : A -> bool) : bool := match r with Ok a => f a | Err _ => true end.
Definition quality_PS k := okt (eff (p_outPS k) (p_readPS k)) (file_quality_fresh (p_sel k)).
Definition quality_HP k := okt (eff (p_outHP k) (p_readHP k)) (file_quality_fresh (p_sel k)).
Definition nostale_PS k := file_no_stale fix_guard (cfP k) (p_sel k) (p_in k) (p_outPS k).
Definition nostale_HP k := file_no_stale fix_guard (cfH k) (p_sel k) (p_in k) (p_outHP k).
Definition equiv k := match eff (p_outPS k) (p_readPS k), eff (p_outHP k) (p_readHP k) with
  | Ok a, Ok b => tables_equiv (p_sel k) a b | _, _ => false end.
(* the repaired writer + repaired decoder satisfy everything on the same inputs (evaluated, not the theorem) *)
Definition fixed_ok k :=
  match phase_writer (cfP k) fix_rules (p_plan k) (p_in k), phase_writer (cfH k) fix_rules (p_plan k) (p_in k) with
  | Ok a, Ok b =>
    match read_file fix_guard false false a, read_file fix_guard false false b with
    | Ok ta, Ok tb => file_decodes (cfP k) (p_plan k) ta && file_decodes (cfH k) (p_plan k) tb
                      && tables_equiv (p_plan k) ta tb
                      && file_no_stale fix_guard (cfP k) (p_plan k) (p_in k) a
                      && file_no_stale fix_guard (cfH k) (p_plan k) (p_in k) b
                      && file_quality_fresh (p_plan k) ta && file_quality_fresh (p_plan k) tb
    | _, _ => false end
  | _, _ => false end.

Record ustep := mkUStep { u_end_decl : bool; u_in : list vrec; u_out : list vrec; u_read : res tabs }.
Definition l2_unphase k := all2 rec_sim (u_out k) (map (unphase_step (u_end_decl k)) (u_in k)).
Definition l2_reader_u k := tables_eqb (read_file the_guard false false (u_out k)) (u_read k).
Definition unphased_all k := okb (u_read k) (forallb (fun tb => forallb (fun rw =>
   forallb (fun p => match p with None => true | Some _ => false end) (row_phases rw)) (snd tb))).

(* r_reads: the reads `whatshap phase base.vcf phased.vcf` worked with, per (chromosome, sample column), from its trace.
   The phase sets to be reproduced and the result are read off the pysam-parsed records of phased.vcf / re.vcf with the
   reader MODEL (so that a defect of VcfReader cannot hide on both sides); r_orig / r_re are what the real VcfReader
   returns for the same files and must agree with the model (L2). *)
Record rstep := mkRStep { r_samples : list nat; r_base : res tabs; r_orig : res tabs; r_re : res tabs;
  r_base_recs : list vrec; r_orig_recs : list vrec; r_re_recs : list vrec;
  r_reads : list (token * nat * list (list (Z * nat))) }.
Definition m_base k := read_file the_guard false false (r_base_recs k).
Definition m_orig k := read_file the_guard false false (r_orig_recs k).
Definition m_re k := read_file the_guard false false (r_re_recs k).
Definition reproduced k := match m_base k, m_orig k, m_re k with
  | Ok b, Ok o, Ok r => tables_reproduce (r_samples k) b o r | _, _, _ => false end.
Definition l2_reader_base k := tables_eqb (m_base k) (r_base k).
Definition l2_reader_orig k := tables_eqb (m_orig k) (r_orig k).
Definition l2_reader_re k := tables_eqb (m_re k) (r_re k).
Definition find_tab (l : tabs) (c : token) : list row :=
  match find (fun e => fst e =? c) l with Some e => snd e | None => [] end.
(* L2 for phased_blocks_as_reads: every read the real run used is a pseudo read of the model (same positions and
   alleles), computed from the tables of the phased file and the heterozygous positions of base.vcf *)
Definition l2_reads k := match m_base k, m_orig k with
  | Ok b, Ok o =>
    forallb (fun e => let '(c, i, rds) := e in
       let model := map (fun x => map (fun v => (fst (fst v), snd (fst v))) (snd x))
                        (blocks_as_reads (het_in (find_tab b c) i) i (find_tab o c)) in
       forallb (fun rd => existsb (fun m => list_eqb (pair_eqb Z.eqb Nat.eqb) rd m) model) rds
       && (length model =? length rds)%nat) (r_reads k)
  | _, _ => false end.

(* completeness of the read-back: wherever the run wrote a phase for a target at a record the reader keeps (bi-allelic,
   an SNV under only_snvs), the table of that chromosome has a row at that position carrying exactly that phase *)
Definition rec_readable (osnv : bool) (r : vrec) : bool :=
  match alt_lens r with [a] => negb osnv || ((ref_len r =? 1) && (a =? 1)) | _ => false end.
Definition complete_run (cf : cfg) (ts : list target) (c : token) (out : list vrec) (t : tabs) : bool :=
  forallb (fun r =>
    if (chrom r =? c) && rec_readable false r && rec_readable (only_snvs cf) r then
      forallb (fun tg => match written cf ts (t_sample tg) (pos r) with
        | None => true
        | Some e => existsb (fun rw => (row_pos rw =? pos r)
                                      && phase_matches (nth (t_sample tg) (row_phases rw) None) (Some e)) (find_tab t c)
        end) ts
    else true) out.
Definition file_complete (cf : cfg) (plan : list (token * list target)) (out : list vrec) (t : tabs) : bool :=
  forallb (fun e => complete_run cf (snd e) (fst e) out t) plan.
Definition complete_PS k := okb (eff (p_outPS k) (p_readPS k)) (file_complete (cfP k) (p_sel k) (p_outPS k)).
Definition complete_HP k := okb (eff (p_outHP k) (p_readHP k)) (file_complete (cfH k) (p_sel k) (p_outHP k)).
"""
P_CHECKS = {k: k for k in ["complete_PS", "complete_HP", "l2_writer_PS", "l2_writer_HP", "l2_reader_PS", "l2_reader_HP", "readable_PS", "readable_HP",
                           "decode_PS_ok", "decode_HP_ok", "quality_PS", "quality_HP", "nostale_PS", "nostale_HP", "equiv",
                           "fixed_ok"]}
U_CHECKS = {k: k for k in ["l2_unphase", "l2_reader_u", "unphased_all"]}
R_CHECKS = {"reproduced": "reproduced", "l2_reads": "l2_reads", "l2_reader_orig": "l2_reader_orig", "l2_reader_base": "l2_reader_base", "l2_reader_re": "l2_reader_re"}

ERRMAP = {"AttributeError": "EAttr", "MixedPhasingError": "EMixed", "ValueError": "EValue", "AssertionError": "EAssert",
          "IndexError": "EIndex", "KeyError": "EKey", "VcfNotSortedError": "EUnsorted"}


# ------------------------------------------------------------------------------------- read-back
def read_back(path):
    """real VcfReader(phases=True): ('ok', [(chrom, [(pos, [genotype asc per sample], [phase or None per sample])])])
    or ('err', exception class name, message)"""
    from whatshap.vcf import VcfReader
    try:
        tabs = []
        with VcfReader(path, phases=True) as r:
            for t in r:
                rows = []
                ns = len(t.samples)
                for i, v in enumerate(t.variants):
                    gts = [sorted(t.genotypes[k][i].as_vector()) for k in range(ns)]
                    phs = []
                    for k in range(ns):
                        p = t.phases[k][i]
                        phs.append(None if p is None else (p.block_id, tuple(p.phase), p.quality))
                    rows.append((v.position, gts, phs))
                tabs.append((t.chromosome, rows))
        return ("ok", tabs)
    except Exception as e:
        return ("err", type(e).__name__, str(e)[:200])


def quality_token(q, it):
    if q is None:
        return "None"
    txt = ("%g" % q) if isinstance(q, float) else str(q)
    return f"(Some {vcfabs._z(it('pq:' + txt))})"


def tabs_term(rb, it):
    if rb[0] == "err":
        return "(Err " + ERRMAP.get(rb[1], "EValue") + ")"
    out = []
    for chrom, rows in rb[1]:
        rts = []
        for pos, gts, phs in rows:
            g = "[" + "; ".join("[" + "; ".join(f"{a}%nat" for a in x) + "]" for x in gts) + "]"
            ps = []
            for p in phs:
                if p is None:
                    ps.append("None")
                else:
                    b = "None" if p[0] is None else f"(Some {vcfabs._z(int(p[0]))})"
                    al = "[" + "; ".join(vcfabs.allele_term(a) for a in p[1]) + "]"
                    ps.append(f"(Some (mkPhase {b} {al} {quality_token(p[2], it)}))")
            rts.append(f"(mkRow {vcfabs._z(pos)} {g} [" + "; ".join(ps) + "])")
        out.append(f"({vcfabs._z(vcfabs.chrom_token(chrom, it))}, [" + ";\n  ".join(rts) + "])")
    return "(Ok [" + ";\n ".join(out) + "])"


# ------------------------------------------------------------------------------------- generator
def gen_history(rng):
    ped = rng.random() < 0.15
    nsamples = 3 if ped else rng.choice([1, 2, 3, 3])
    nchrom = rng.choice([1, 2, 3, 3, 4])
    sc = synth.make_scenario(rng, nchrom=nchrom, nsamples=nsamples, nvars=rng.randint(4, 9) if nchrom < 3 else rng.randint(3, 6),
                             kinds=("snv", "snv", "snv", "ins", "del"), het_fraction=0.85, min_gap=20,
                             sample_names=vcfgen.draw_names(rng, vcfgen.SAMPLE_NAMES, nsamples),
                             chrom_names=vcfgen.draw_names(rng, vcfgen.CHROM_NAMES, nchrom))
    trio = None
    if ped:
        roles = list(sc.samples)
        rng.shuffle(roles)
        ch, fa, mo = roles
        for c in sc.chroms:
            sc.haps[ch][c], _ = synth.inherit(rng, sc.haps[fa][c], sc.haps[mo][c], recomb_prob=0.0)
        trio = [ch, fa, mo]
    reads = []
    for s in sc.samples:
        for c in sc.chroms:
            reads += synth.simulate_reads(rng, sc, s, c, n_reads=rng.randint(5, 14), len_range=(50, 160),
                                          paired_fraction=0.5, insert_range=(40, 200))
    # PSSLASH: PS values also next to unphased genotypes; PIPE: `|` genotypes without any PS key
    pre = rng.choice([None, None, None, "PS", "PSSLASH", "PIPE", "HP", "HPQ"])
    hl = ["##fileformat=VCFv4.2", "##source=synth"] + [f"##contig=<ID={c},length={len(sc.ref[c])}>" for c in sc.chroms]
    hl += [vcfgen.FORMAT_DEFS["GT"], vcfgen.FORMAT_DEFS["GQ"], vcfgen.FORMAT_DEFS["XF"]]
    hl_pre = list(hl)
    if pre in ("PS", "PSSLASH"):
        hl_pre.append(vcfgen.FORMAT_DEFS["PS"])
    if pre in ("HP", "HPQ"):
        hl_pre.append(vcfgen.FORMAT_DEFS["HP"])
    if pre == "HPQ":
        hl_pre.append(vcfgen.FORMAT_DEFS["PQ"])
    base = vcfabs.VcfText(sc.samples, hl)             # unphased variant file
    start = vcfabs.VcfText(sc.samples, hl_pre)        # the history's first input (possibly pre-phased)
    shapes = []
    for c in sc.chroms:
        b0 = sc.variants[c][0].pos + 1
        multi_at = rng.randrange(len(sc.variants[c])) if rng.random() < 0.3 else None

        def skipped_record(pos1, refb, kind):
            """a record the phaser / reader must skip, same text in both files (phased multi-ALT in a PS start file)"""
            other = [x for x in "ACGT" if x != refb[0]]
            if kind == "multi":
                alts = other[0] + "," + other[1]
                base.add(c, pos1, refb, alts, "GT", [rng.choice(["1/2", "0/1"]) for _ in sc.samples])
                if pre in ("PS", "PSSLASH"):
                    start.add(c, pos1, refb, alts, "GT:PS", [rng.choice(["1|2", "2|1"]) + f":{b0}" for _ in sc.samples])
                else:
                    start.rows.append(list(base.rows[-1]))
            else:
                base.add(c, pos1, refb[0], ".", "GT", ["0/0" for _ in sc.samples])
                start.rows.append(list(base.rows[-1]))

        for i, v in enumerate(sc.variants[c]):
            keys = [k for k in ("GQ", "XF") if rng.random() < 0.4]
            bcalls, scalls = [], []
            prekeys = {"PS": ["PS"], "PSSLASH": ["PS"], "HP": ["HP"], "HPQ": ["HP", "PQ"]}.get(pre, []) if rng.random() < 0.8 else []
            for s in sc.samples:
                a, b = sc.haps[s][c][i]
                r = rng.random()
                if r < 0.05:
                    gt = "./."
                elif a == b and r < 0.15:
                    gt = "0/1"                                # wrong call (changes under --distrust-genotypes)
                elif r < 0.3:
                    gt = f"{max(a, b)}/{min(a, b)}"
                else:
                    gt = f"{min(a, b)}/{max(a, b)}"
                extra = []
                for k in keys:
                    extra.append(str(rng.randint(20, 99)) if k == "GQ" else rng.choice(["a", "bc"]))
                bcalls.append(":".join([gt] + extra))
                sgt, pv = gt, []
                het = a != b and gt != "./."
                if pre == "PIPE" and het and rng.random() < 0.8:
                    sgt = rng.choice([f"{a}|{b}", f"{b}|{a}"])
                for k in prekeys:
                    if k == "PS":
                        if het and rng.random() < (0.8 if pre == "PS" else 0.4):
                            sgt = rng.choice([f"{a}|{b}", f"{b}|{a}"])
                            pv.append(str(b0))
                        elif pre == "PSSLASH" and rng.random() < 0.7:
                            pv.append(str(b0))                # a PS value next to a `/` genotype
                        else:
                            pv.append(".")
                    elif k == "HP":
                        pv.append(rng.choice([f"{b0}-1,{b0}-2", f"{b0}-2,{b0}-1"]) if (het or rng.random() < 0.15) and rng.random() < 0.8 else ".")
                    elif k == "PQ":
                        pv.append(rng.choice(["42", "20", "3.5"]) if pv and pv[-1] != "." else ".")
                scalls.append(":".join([sgt] + extra + pv))
            fmt = ":".join(["GT"] + keys)
            # duplicate positions around the real variant: a skipped record directly before it, a skipped or a
            # second bi-allelic record directly behind it
            dup = rng.choice([None] * 8 + ["multi_before", "noalt_before", "multi_after", "biallelic_after", "multi_before+biallelic_after"])
            if dup and "before" in dup:
                skipped_record(v.pos + 1, v.ref, "multi" if "multi" in dup else "noalt")
            base.add(c, v.pos + 1, v.ref, v.alt, fmt, bcalls)
            start.add(c, v.pos + 1, v.ref, v.alt, ":".join(["GT"] + keys + prekeys), scalls)
            if dup and "multi_after" in dup:
                skipped_record(v.pos + 1, v.ref, "multi")
            if dup and "biallelic_after" in dup:
                alt2 = v.ref + "TT" if not v.alt.startswith(v.ref + "TT") else v.ref + "GG"
                base.add(c, v.pos + 1, v.ref, alt2, "GT", [rng.choice(["0/1", "1/0", "1/1"]) for _ in sc.samples])
                start.rows.append(list(base.rows[-1]))
            if dup:
                shapes.append("dup." + dup)
            if multi_at == i:
                p0 = v.pos + 1 + len(v.ref) + 3
                skipped_record(p0, sc.ref[c][p0 - 1], "multi")
    # a chromosome on which nothing can be phased (empty variant table) but whose calls carry earlier phasing
    unusable = None
    if rng.random() < 0.3:
        kind = rng.choice(vcfgen.UNUSABLE_KINDS)
        ci = rng.randrange(len(sc.chroms))
        where = "only" if len(sc.chroms) == 1 else "first" if ci == 0 else "last" if ci == len(sc.chroms) - 1 else "middle"
        enc = "PS" if pre in ("PS", "PSSLASH", "PIPE") else "HP" if pre in ("HP", "HPQ") else rng.choice(["PS", "HP"])
        state = rng.getstate()
        vcfgen.make_unusable_chromosome(rng, base, sc.chroms[ci], kind, None)
        rng.setstate(state)
        vcfgen.make_unusable_chromosome(rng, start, sc.chroms[ci], kind, enc)
        for rb, rs in zip(base.rows, start.rows):          # same records in both files
            rb[3], rb[4] = rs[3], rs[4]
        unusable = [kind, where, enc]
        shapes.append("unusable_chromosome." + ".".join(unusable))
    # VcfReader rejects any file that mixes the two encodings, also between samples; since each phase step is
    # run with both tags, a --sample selection is only drawn while the other samples carry no phase at all
    carries = {s: pre is not None or unusable is not None for s in sc.samples}
    steps = []
    for _ in range(rng.randint(1, 4)):
        kind = rng.choice(["PS", "HP", "PS", "HP", "unphase"])
        st = {"kind": kind}
        if kind != "unphase":
            st["samples"] = None
            if nsamples > 1 and not ped and rng.random() < 0.7:
                sel = rng.sample(sc.samples, rng.randint(1, nsamples - 1))
                if not any(carries[s] for s in sc.samples if s not in sel):
                    st["samples"] = sel
            st["distrust"] = rng.random() < 0.2
            st["only_snvs"] = rng.random() < (0.6 if unusable and unusable[0] == "all_indel_only_snvs" else 0.15)
            st["ped"] = trio if ped and rng.random() < 0.8 else None
            st["algorithm"] = "heuristic" if not st["ped"] and rng.random() < 0.1 else "whatshap"
            st["reinput"] = rng.random() < 0.5
            st["reinput_max_coverage"] = rng.choice([None, None, 6, 4, 2])
            st["reinput_variant"] = rng.choice(PHASE_INPUT_VARIANTS) if nchrom >= 2 and rng.random() < 0.8 else None
            for s in (st["samples"] or sc.samples):
                carries[s] = True
        else:
            carries = {s: False for s in sc.samples}
        steps.append(st)
    if steps and nchrom >= 2:
        steps[0]["start_reinput_variant"] = rng.choice(PHASE_INPUT_VARIANTS)
    return sc, reads, base, start, steps, pre, shapes


# phase-input VCFs whose chromosome set / order differs from the variant file's
PHASE_INPUT_VARIANTS = ["drop_leading", "drop_middle_or_last", "reversed", "rotated", "superset_front", "superset_middle",
                        "two_files_split", "two_files_split_reversed"]


def write_phase_input_variants(d, phased_file, kind, prefix):
    """derive phase-input VCF(s) from a phased file by dropping / reordering / adding whole chromosomes"""
    lines = open(os.path.join(d, phased_file), newline="").read().split("\n")
    header = [ln for ln in lines if ln.startswith("#")]
    blocks = []                                   # [(chrom, [record lines])] in file order
    for ln in lines:
        if ln and not ln.startswith("#"):
            c = ln.split("\t", 1)[0]
            if not blocks or blocks[-1][0] != c:
                blocks.append((c, []))
            blocks[-1][1].append(ln)

    def extra_block():
        c, recs = blocks[-1]
        return ("chrExtra", ["chrExtra" + ln[len(c):] for ln in recs])

    def emit(name, bl):
        hdr = list(header)
        if any(c == "chrExtra" for c, _ in bl):
            hdr.insert(1, "##contig=<ID=chrExtra,length=100000>")
        with open(os.path.join(d, name), "w") as f:
            f.write("\n".join(hdr + [ln for _, recs in bl for ln in recs]) + "\n")
        return name

    if kind == "drop_leading":
        return [emit(prefix + "a.vcf", blocks[1:])]
    if kind == "drop_middle_or_last":
        k = len(blocks) // 2 if len(blocks) > 2 else len(blocks) - 1
        return [emit(prefix + "a.vcf", blocks[:k] + blocks[k + 1:])]
    if kind == "reversed":
        return [emit(prefix + "a.vcf", blocks[::-1])]
    if kind == "rotated":
        return [emit(prefix + "a.vcf", blocks[1:] + blocks[:1])]
    if kind == "superset_front":
        return [emit(prefix + "a.vcf", [extra_block()] + blocks)]
    if kind == "superset_middle":
        return [emit(prefix + "a.vcf", blocks[:1] + [extra_block()] + blocks[1:])]
    if kind == "two_files_split":
        return [emit(prefix + "a.vcf", blocks[1::2]), emit(prefix + "b.vcf", blocks[0::2])]
    if kind == "two_files_split_reversed":
        return [emit(prefix + "a.vcf", blocks[0::2][::-1]), emit(prefix + "b.vcf", blocks[1::2][::-1])]
    raise ValueError(kind)


def run_variant_reinput(ctx, d, phased_file, kind, prefix, extra):
    files = write_phase_input_variants(d, phased_file, kind, prefix)
    files = [f for f in files if any(ln and not ln.startswith("#") for ln in open(os.path.join(d, f)))] or files[:1]
    retrace = os.path.join(d, prefix + "trace.jsonl")
    rc, so, se = util.run_cli(ctx, ["phase", "-o", prefix + "re.vcf"] + extra + ["base.vcf"] + files, cwd=d,
                              env_extra={"WHATSHAP_VERIF_TRACE": retrace})
    return (kind, files, prefix + "re.vcf", rc, se[-2500:], retrace)


# ------------------------------------------------------------------------------------- running
def phase_cmd(tag, st, out):
    args = ["phase", "--reference", "ref.fa", "-o", out, "--tag", tag]
    if st.get("distrust"):
        args.append("--distrust-genotypes")
    if st.get("only_snvs"):
        args.append("--only-snvs")
    if st.get("algorithm", "whatshap") != "whatshap":
        args += ["--algorithm", st["algorithm"]]
    if st.get("ped"):
        args += ["--ped", "fam.ped"]
    for s in st.get("samples") or []:
        args += ["--sample", s]
    return args


def run_history(ctx, wd, idx, sc, reads, base, start, steps):
    """Runs the real tools; returns list of step records (dicts) for the Coq evaluation."""
    d = os.path.join(wd, f"h{idx}")
    os.makedirs(d, exist_ok=True)
    synth.write_fasta(sc, os.path.join(d, "ref.fa"))
    synth.write_bam(sc, reads, os.path.join(d, "reads.bam"))
    base.write(os.path.join(d, "base.vcf"))
    start.write(os.path.join(d, "s0.vcf"))
    for st in steps:
        if st.get("ped"):
            synth.write_ped(os.path.join(d, "fam.ped"), [tuple(st["ped"])])
    cur = "s0.vcf"
    out = []
    if start.text() != base.text():
        # the generated pre-phased file itself as the only phase input (its phase sets are known independently of
        # any whatshap run)
        rc, so, se = util.run_cli(ctx, ["phase", "-o", "re0.vcf", "base.vcf", "s0.vcf"], cwd=d,
                                  env_extra={"WHATSHAP_VERIF_TRACE": os.path.join(d, "retrace0.jsonl")})
        rec0 = {"step": -1, "st": {"kind": "start_reinput"}, "hist": idx, "dir": d, "in": "s0.vcf", "re": ("re0.vcf", rc, se[-2500:])}
        if steps and steps[0].get("start_reinput_variant"):
            rec0["rev"] = run_variant_reinput(ctx, d, "s0.vcf", steps[0]["start_reinput_variant"], "pv0", [])
        out.append(rec0)
    for si, st in enumerate(steps):
        rec = {"step": si, "st": st, "hist": idx, "dir": d, "in": cur}
        if st["kind"] == "unphase":
            nxt = f"s{si + 1}.vcf"
            rc, so, se = util.run_cli(ctx, ["unphase", cur], cwd=d)
            if rc != 0:
                rec["fail"] = "unphase: " + se[-300:]
                out.append(rec)
                break
            with open(os.path.join(d, nxt), "w") as f:
                f.write(so)
            rec["out"] = nxt
            out.append(rec)
            cur = nxt
            continue
        outs = {}
        for tag in ("PS", "HP"):
            o = f"s{si + 1}.{tag}.vcf"
            tr = os.path.join(d, f"trace{si + 1}.{tag}.jsonl")
            rc, so, se = util.run_cli(ctx, phase_cmd(tag, st, o) + [cur, "reads.bam"], cwd=d,
                                      env_extra={"WHATSHAP_VERIF_TRACE": tr})
            if rc != 0:
                rec["fail"] = f"phase --tag {tag}: " + se[-300:]
                break
            outs[tag] = (o, tr)
        if "fail" in rec:
            out.append(rec)
            break
        rec["outs"] = outs
        nxt = outs[st["kind"]][0]
        if st.get("reinput"):
            extra = ["--max-coverage", str(st["reinput_max_coverage"])] if st.get("reinput_max_coverage") else []
            rc, so, se = util.run_cli(ctx, ["phase", "-o", f"re{si + 1}.vcf"] + extra + ["base.vcf", nxt], cwd=d,
                                      env_extra={"WHATSHAP_VERIF_TRACE": os.path.join(d, f"retrace{si + 1}.jsonl")})
            rec["re"] = (f"re{si + 1}.vcf", rc, se[-2500:])
            if st.get("reinput_variant"):
                rec["rev"] = run_variant_reinput(ctx, d, nxt, st["reinput_variant"], f"pv{si + 1}", extra)
        out.append(rec)
        cur = nxt
    return out


def max_set_coverage(tables):
    """largest number of pseudo reads (two per phase set with >= 2 members) spanning one variant of one sample"""
    worst = 0
    for chrom, rows in tables:
        ns = len(rows[0][2]) if rows else 0
        for k in range(ns):
            spans = {}
            for pos, gts, phs in rows:
                p = phs[k]
                if p is not None:
                    lo, hi, n = spans.get(p[0], (pos, pos, 0))
                    spans[p[0]] = (min(lo, pos), max(hi, pos), n + 1)
            for pos, _, _ in rows:
                worst = max(worst, 2 * sum(1 for lo, hi, n in spans.values() if n >= 2 and lo <= pos <= hi))
    return worst


def stale_source(fin, plan, tag):
    """does some target call of the input carry a phase statement in the other encoding?"""
    i = 0
    recs = fin.records
    for c, targets in plan:
        idxs = [fin.samples.index(s) for s in targets]
        while i < len(recs) and recs[i].chrom == c:
            for k in idxs:
                call = recs[i].calls[k]
                if tag == "HP" and call.phased and call.gt is not None and len(call.gt) > 1:
                    return True
                if tag == "PS" and call.hp and any(isinstance(x, tuple) for x in call.hp):
                    return True
            i += 1
    return False


def nonascending_source(fin, fout, plan):
    i = 0
    for c, targets in plan:
        idxs = [fin.samples.index(s) for s in targets]
        while i < len(fin.records) and fin.records[i].chrom == c:
            for k in idxs:
                g = fout.records[i].calls[k].gt
                if g is not None and None not in g and list(g) != sorted(g):
                    return True
            i += 1
    return False


def make_rcase(ctx, d, samples, phased_file, rb_phased, re_file, retrace, cap, desc, replay, R):
    """one `whatshap phase base.vcf <phased_file>` run -> a case for the reproduction check"""
    it = vcfabs.Interner()
    if rb_phased[0] == "ok" and max_set_coverage(rb_phased[1]) > cap:
        ctx.tally("reinput.sets_over_coverage_cap")      # the property only speaks about sets that fit
        return
    ctx.tally("reinput.max_coverage.%d" % cap)
    if rb_phased[0] == "ok" and max_set_coverage(rb_phased[1]) == cap:
        ctx.tally("reinput.sets_exactly_at_cap")
    rb_base = read_back(os.path.join(d, "base.vcf"))
    rb_re = read_back(os.path.join(d, re_file))
    f_base = vcfabs.parse_vcf(os.path.join(d, "base.vcf"))
    f_ph = vcfabs.parse_vcf(os.path.join(d, phased_file))
    f_re = vcfabs.parse_vcf(os.path.join(d, re_file))
    rreads = []
    for ln in (json.loads(x) for x in open(retrace)) if retrace and os.path.exists(retrace) else []:
        if len(ln["family"]) == 1:
            rds = ["[" + "; ".join(f"({vcfabs._z(int(v[0]))}, {int(v[1])}%nat)" for v in r["variants"]) + "]" for r in ln["reads"]]
            rreads.append(f"({vcfabs._z(vcfabs.chrom_token(ln['chromosome'], it))}, {samples.index(ln['family'][0])}%nat, [" + "; ".join(rds) + "])")
    rterm = ("(mkRStep [" + "; ".join(f"{i}%nat" for i in range(len(samples))) + "]\n " + tabs_term(rb_base, it) + "\n "
             + tabs_term(rb_phased, it) + "\n " + tabs_term(rb_re, it) + "\n " + vcfabs.recs_term(f_base.records, it) + "\n "
             + vcfabs.recs_term(f_ph.records, it) + "\n "
             + vcfabs.recs_term(f_re.records, it) + "\n [" + ";\n ".join(rreads) + "])")
    R.append({"term": rterm, "desc": desc, "replay": replay})


def variant_rcases(ctx, d, samples, rev, cap, desc, replay, R):
    """re-input with phase-input VCFs whose chromosomes are a subset / superset / permutation of the variant file's:
    every phase set of EVERY given file must be reproduced, chromosome by chromosome"""
    kind, files, re_file, rc, se, retrace = rev
    ctx.tally("reinput.variant." + kind)
    if len(files) > 1:
        ctx.tally("reinput.two_phase_input_files")
    what = "`whatshap phase base.vcf " + " ".join(files) + f"` (phase input derived by '{kind}')"
    if rc != 0:
        ctx.violation("phaseinput:tool-failed", what + " failed: " + desc + " :: " + se[-300:], replay)
        return
    for f in files:
        rb = read_back(os.path.join(d, f))
        if rb[0] != "ok":
            continue
        make_rcase(ctx, d, samples, f, rb, re_file, retrace if len(files) == 1 else None, cap,
                   desc + " + " + what + ", sets of " + f, replay, R)


def build_cases(ctx, results, inputs):
    P, U, R = [], [], []
    for hist, (sc, reads, base, start, steps, pre, shapes) in zip(results, inputs):
        for rec in hist:
            d = rec["dir"]
            st = rec["st"]
            replay = {"scenario": sc.to_json(), "reads": reads, "base": base.to_json(), "start": start.to_json(),
                      "steps": steps[:max(rec["step"], 0) + 1]}
            desc = f"history {rec['hist']} step {rec['step']} {st} (start pre-phased: {pre})"
            if st["kind"] == "start_reinput":
                ctx.tally("reinput.runs_on_prephased_start_file")
                re_path, rc, se = rec["re"]
                if rc != 0:
                    ctx.violation("phaseinput:tool-failed", "`whatshap phase base.vcf start.vcf` failed on the pre-phased generated file: "
                                  + desc + " :: " + se[-300:], replay)
                    continue
                rb0 = read_back(os.path.join(d, "s0.vcf"))
                if rb0[0] != "ok":
                    ctx.violation("c09:readback-error", f"VcfReader(phases=True) raises {rb0[1]}: {rb0[2]} on the generated pre-phased file :: " + desc, replay)
                    continue
                make_rcase(ctx, d, list(sc.samples), "s0.vcf", rb0, re_path, os.path.join(d, "retrace0.jsonl"), 15,
                           desc + " (re-input of the generated pre-phased file)", replay, R)
                if "rev" in rec:
                    variant_rcases(ctx, d, list(sc.samples), rec["rev"], 15, desc + " (generated pre-phased file)", replay, R)
                continue
            ctx.tally("steps." + st["kind"])
            for k in ("distrust", "only_snvs", "ped", "samples"):
                if st.get(k):
                    ctx.tally("steps.with_" + k)
            if st.get("algorithm", "whatshap") != "whatshap":
                ctx.tally("steps.algorithm." + st["algorithm"])
            if "fail" in rec:
                ctx.tally("steps.tool_failed")
                with open(os.path.join(d, rec["in"]), "rb") as f:
                    nul_input = b"\x00" in f.read()
                if nul_input:
                    # the file written by the previous step (already reported there) cannot be read by htslib
                    ctx.tally("steps.tool_failed_on_nul_input")
                else:
                    ctx.violation("c09:tool-failed", "whatshap failed on a well-formed input inside a history: " + desc + " :: " + rec["fail"], replay)
                continue
            fin = vcfabs.parse_vcf(os.path.join(d, rec["in"]))
            it = vcfabs.Interner()
            if st["kind"] == "unphase":
                fout = vcfabs.parse_vcf(os.path.join(d, rec["out"]))
                rb = read_back(os.path.join(d, rec["out"]))
                term = ("(mkUStep " + ("true" if vcfabs.end_declared(fin) else "false") + "\n " + vcfabs.recs_term(fin.records, it) + "\n "
                        + vcfabs.recs_term(fout.records, it) + "\n " + tabs_term(rb, it) + ")")
                U.append({"term": term, "desc": desc, "replay": replay})
                ctx.count(("u", open(os.path.join(d, rec["in"])).read()), nontrivial=any(c.phased or c.ps or c.hp for r in fin.records for c in r.calls))
                continue
            opts = {"chromosomes": None}
            plans, fouts, rbs = {}, {}, {}
            unreadable = False
            for tag in ("PS", "HP"):
                o, tr = rec["outs"][tag]
                try:
                    fouts[tag] = vcfabs.parse_vcf(os.path.join(d, o))
                except Exception as e:
                    ctx.violation("writer:output-unreadable", f"the output of phase --tag {tag} cannot be parsed "
                                  f"({type(e).__name__}: {e}) :: " + desc, replay)
                    unreadable = True
                    break
                plans[tag] = C04.plan_from_trace(fin, tr, opts)
                rb = read_back(os.path.join(d, o))
                if fouts[tag].nul_bytes:
                    ctx.tally("outputs.with_nul_bytes")
                    rb0 = rb
                    rb = read_back(fouts[tag].path)          # the copy with NUL replaced by '.'
                if fouts[tag].nul_bytes and ctx.dist.get("outputs.with_nul_bytes", 0) <= 2:
                    rb_show = rb0
                    ctx.violation("writer:hp-unset-writes-nul-byte",
                                  f"output of phase --tag {tag} contains {fouts[tag].nul_bytes} NUL byte(s); VcfReader: {rb_show[1:]} :: " + desc, replay)
                rbs[tag] = rb
            if unreadable:
                continue
            if json.dumps(plans["PS"], sort_keys=True) != json.dumps(plans["HP"], sort_keys=True):
                ctx.l2_disagreement("the two tags' runs did not compute the same phasing (trace differs)", [desc])
                continue
            plan = plans["PS"]
            selected = st.get("samples") or fin.samples
            sel_plan = [(c, {sm: t.get(sm, ([], {})) for sm in fin.samples if sm in selected or sm in t}) for c, t in plan]
            dropped = sorted({sm for (c, t), (_, t2) in zip(plan, sel_plan) for sm in t2 if sm not in t})
            if dropped:
                ctx.tally("steps.selected_sample_without_superreads")
            term = ("(mkPStep " + ("true " if st.get("only_snvs") else "false ") + ("true" if vcfabs.end_declared(fin) else "false") + "\n " + C04.plan_term(plan, fin.samples, it)
                    + "\n " + C04.plan_term(sel_plan, fin.samples, it)
                    + "\n " + vcfabs.recs_term(fin.records, it) + "\n " + vcfabs.recs_term(fouts["PS"].records, it) + "\n "
                    + vcfabs.recs_term(fouts["HP"].records, it) + "\n " + tabs_term(rbs["PS"], it) + "\n " + tabs_term(rbs["HP"], it) + ")")
            nphased = max([sum(1 for p, a in sr if p in comp and a[0] != a[1] and max(a) <= 1) for c, t in plan for s, (sr, comp) in t.items()] or [0])
            ctx.count(("p", open(os.path.join(d, rec["in"])).read(), json.dumps(st, sort_keys=True)), nontrivial=nphased >= 2)
            P.append({"term": term, "desc": desc, "replay": replay, "fin": fin, "fouts": fouts, "plan": sel_plan, "rbs": rbs, "st": st,
                      "dropped": dropped})
            for tag in ("PS", "HP"):
                if rbs[tag][0] == "err":
                    ctx.tally(f"readback.{tag}.{rbs[tag][1]}")
            if "re" in rec:
                re_path, rc, se = rec["re"]
                ctx.tally("reinput.runs")
                tag = st["kind"]
                if rc != 0:
                    ctx.tally("reinput.tool_failed")
                    known = "object has no attribute 'split'" in se
                    if known:
                        ctx.tally("reinput.hp_none_crash")
                    if known and ctx.dist.get("reinput.hp_none_crash", 0) > 1:
                        pass
                    elif known:
                        ctx.violation("vcfreader:hp-none-crash",
                                      "`whatshap phase base.vcf phased.vcf` dies reading the phased VCF written by "
                                      f"phase --tag {tag} (HP value read back as (None,)): " + desc + " :: " + se[-160:], replay)
                    else:
                        if dropped and "MixedPhasingError" in se:
                            ctx.tally("reinput.failed_on_old_phase_of_dropped_sample")      # reported with the step itself
                        else:
                            ctx.violation("phaseinput:tool-failed", "`whatshap phase base.vcf phased.vcf` failed: " + desc + " :: " + se[-300:], replay)
                    continue
                if rbs[tag][0] == "ok":
                    make_rcase(ctx, d, fin.samples, rec["outs"][tag][0], rbs[tag], re_path,
                               os.path.join(d, f"retrace{rec['step'] + 1}.jsonl"), st.get("reinput_max_coverage") or 15,
                               desc + " + re-input of the " + tag + " output", replay, R)
                    if "rev" in rec:
                        variant_rcases(ctx, d, fin.samples, rec["rev"], st.get("reinput_max_coverage") or 15,
                                       desc + " (" + tag + " output)", replay, R)
    return P, U, R


def classify_decode(ctx, c, tag, failing, i):
    """signature for a failing decode / no-stale / equivalence check of output `tag` of phase step c"""
    if c.get("dropped") and (stale_source(c["fin"], c["plan"], "PS") or stale_source(c["fin"], c["plan"], "HP")):
        # a selected sample was not handed to the writer at all (no super-reads), so its old phase was not removed
        return "phase:selected-sample-without-superreads-keeps-old-phase"
    if stale_source(c["fin"], c["plan"], tag):
        return "writer:stale-phase-on-retag"
    if tag == "HP" and stale_source(c["fin"], c["plan"], "PS"):      # old HP values under a new --tag HP run
        return "writer:stale-hp-on-rephase"
    if tag == "HP" and nonascending_source(c["fin"], c["fouts"]["HP"], c["plan"]):
        return "writer:hp-assumes-ascending-gt"
    return "c09:decode-mismatch"


def l2_report(ctx, name, cases):
    """record a model/implementation disagreement; also as a violation of its own, so that an unrelated finding of the
    same run cannot mask it"""
    ctx.l2_disagreement(name, [c["desc"] for c in cases])
    ctx.violation("correspondence:" + name.split(" (")[0][:60], "the model no longer describes the code: " + name + " :: " + cases[0]["desc"],
                  cases[0]["replay"], found_input=False)


def evaluate(ctx, P, U, R):
    res = {}
    if P:
        failing, errors = eval_checks("C09p", HEADER, P_CHECKS, [c["term"] for c in P], shard=ctx.n(12, 25), timeout=1500)
        if errors:
            raise RuntimeError("coq evaluation failed: " + errors[0][1])
        res["P"] = failing
        F = {k: set(v) for k, v in failing.items()}
        reported = []

        def report(sig, what, c):
            ctx.tally("violations." + sig)
            if len([1 for s in reported if s == sig]) >= 2:
                return
            reported.append(sig)
            ctx.violation(sig, what + " :: " + c["desc"], c["replay"])
        for i, c in enumerate(P):
            for tag in ("PS", "HP"):
                rb = c["rbs"][tag]
                if i in F["readable_" + tag]:
                    if rb[1] == "AttributeError" and "split" in rb[2]:
                        report("vcfreader:hp-none-crash",
                               f"VcfReader(phases=True) raises {rb[1]}: {rb[2]} on the output of phase --tag {tag} "
                               "(HP of a call that is not phased at a phased record is read back as (None,))", c)
                    elif rb[1] == "MixedPhasingError":
                        report(classify_decode(ctx, c, tag, F, i) if stale_source(c["fin"], c["plan"], tag) else "c09:mixed-phasing",
                               f"the output of phase --tag {tag} mixes PS and HP phasing (MixedPhasingError on read-back): "
                               "phase information of the other encoding was left in place", c)
                    else:
                        report("c09:readback-error", f"VcfReader(phases=True) raises {rb[1]}: {rb[2]} on the output of phase --tag {tag}", c)
                if i in F[f"decode_{tag}_ok"] and not (rb[0] == "err" and rb[1] == "MixedPhasingError"):
                    sig = classify_decode(ctx, c, tag, F, i)
                    report(sig, f"decoding the output of phase --tag {tag} does not return the phase that was written "
                                "(trace) for a target sample", c)
                if i in F["complete_" + tag] and i not in F["readable_" + tag]:
                    report("c09:written-phase-not-read-back", f"a phase written by phase --tag {tag} for a target sample at a "
                           "bi-allelic record is missing from (or different in) the VariantTable read back from the output", c)
                if i in F["nostale_" + tag]:
                    sig = classify_decode(ctx, c, tag, F, i)
                    report(sig, f"a target call in the output of phase --tag {tag} carries a phase statement that this run did not write", c)
                if i in F["quality_" + tag]:
                    report("phase:selected-sample-without-superreads-keeps-old-phase" if c.get("dropped") else "writer:stale-pq-on-rephase", f"a phase of a target sample decoded from the output of phase --tag {tag} "
                                                         "carries a phasing quality (PQ) from the input file", c)
            if i in F["equiv"] and i not in F["decode_PS_ok"] and i not in F["decode_HP_ok"]:
                report("c09:encodings-differ", "PS and HP outputs of the same run decode differently although each decodes to what was written", c)
            if i in F["fixed_ok"] and not c.get("dropped"):
                ctx.l2_disagreement("the writer/decoder model does not satisfy the specification on this input", [c["desc"]])
        for lab in ("l2_writer_PS", "l2_writer_HP", "l2_reader_PS", "l2_reader_HP"):
            if failing[lab]:
                ctx.disagreements_checked += len(failing[lab])
                l2_report(ctx, lab + " (model vs implementation)", [P[i] for i in failing[lab]])
    if U:
        failing, errors = eval_checks("C09u", HEADER, U_CHECKS, [c["term"] for c in U], shard=40, timeout=900)
        if errors:
            raise RuntimeError("coq evaluation failed: " + errors[0][1])
        res["U"] = failing
        for i in failing["unphased_all"][:3]:
            ctx.violation("unphase:phase-left", "phase information is decodable after whatshap unphase :: " + U[i]["desc"], U[i]["replay"])
        for lab in ("l2_unphase", "l2_reader_u"):
            if failing[lab]:
                l2_report(ctx, lab + " (model vs implementation)", [U[i] for i in failing[lab]])
    if R:
        failing, errors = eval_checks("C09r", HEADER, R_CHECKS, [c["term"] for c in R], shard=40, timeout=900)
        if errors:
            raise RuntimeError("coq evaluation failed: " + errors[0][1])
        res["R"] = failing
        for lab, what in (("l2_reads", "VcfRecord.blocks_as_reads = reads used by `whatshap phase base.vcf phased.vcf` (L2)"),
                          ("l2_reader_orig", "VcfRecord.read_file = VcfReader(phases=True) on the phased input file (L2)"),
                          ("l2_reader_base", "VcfRecord.read_file = VcfReader(phases=True) on base.vcf (L2)"),
                          ("l2_reader_re", "VcfRecord.read_file = VcfReader(phases=True) on the re-phased file (L2)")):
            if failing[lab]:
                ctx.disagreements_checked += len(failing[lab])
                l2_report(ctx, what, [R[i] for i in failing[lab]])
        for i in failing["reproduced"][:3]:
            ctx.violation("phaseinput:set-not-reproduced",
                          "phasing with the phased VCF as only input does not reproduce a phase set with >= 2 shared heterozygous variants :: "
                          + R[i]["desc"], R[i]["replay"])
    return res


def run_histories(ctx, n):
    rng = ctx.rng
    wd = util.workdir(ctx)
    inputs = [gen_history(rng) for _ in range(n)]
    with ThreadPoolExecutor(max_workers=14) as ex:
        results = list(ex.map(lambda t: run_history(ctx, wd, t[0], *t[1][:5]), enumerate(inputs)))
    for (sc, reads, base, start, steps, pre, shapes) in inputs:
        ctx.tally("histories")
        ctx.tally("histories.prephased." + str(pre))
        ctx.tally("histories.samples.%d" % len(sc.samples))
        ctx.tally("histories.length.%d" % len(steps))
        ctx.tally("histories.chromosomes.%d" % len(sc.chroms))
        for sh in shapes:
            ctx.tally("histories." + sh)
        if sc.samples != sorted(sc.samples):
            ctx.tally("histories.sample_names_unsorted")
        if sc.chroms != sorted(sc.chroms):
            ctx.tally("histories.chromosome_names_unsorted")
        if any(st.get("ped") for st in steps):
            ctx.tally("histories.with_trio_steps")
    P, U, R = build_cases(ctx, results, inputs)
    if inputs:
        ctx.sample({"start_vcf": inputs[0][3].text()[:1200], "steps": inputs[0][4]})
    return evaluate(ctx, P, U, R), (P, U, R)


def quiet_htslib():
    """htslib prints a warning for every undeclared header item of the generated files"""
    import pysam
    pysam.set_verbosity(0)


def run(ctx):
    quiet_htslib()
    run_histories(ctx, ctx.n(80, 600))


def replay(ctx, data):
    quiet_htslib()
    if "scenario" not in data:
        return run(ctx)
    wd = util.workdir(ctx)
    sc = synth.Scenario.from_json(data["scenario"])
    inp = (sc, data["reads"], vcfabs.VcfText.from_json(data["base"]), vcfabs.VcfText.from_json(data["start"]), data["steps"], "replay", [])
    results = [run_history(ctx, wd, 0, *inp[:5])]
    P, U, R = build_cases(ctx, results, [inp])
    evaluate(ctx, P[-1:] if data["steps"][-1]["kind"] != "unphase" else [], U[-1:] if data["steps"][-1]["kind"] == "unphase" else [], R[-1:])
