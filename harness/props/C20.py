"""C20 — auxiliary reports of `whatshap phase` cover the whole run and agree with the phased VCF."""
import os
from concurrent.futures import ThreadPoolExecutor

from .. import auxreports_gen as G
from ..coqeval import eval_checks
from ..util import workdir

RULE = ("synthetic runs of `whatshap phase` on 1-3 chromosomes (names from several pools, not in sorted order) x "
        "{two trios, trio + 1/2 unrelated samples, quartet (two trios in one family) +/- unrelated sample, two trios + "
        "unrelated sample, three unrelated samples}; sample names are role-like or drawn from pools with shared "
        "prefixes / case variants / role words used against their role, VCF column order shuffled, PED lines shuffled, "
        "optional PED line about absent individuals; child haplotypes inherited with recombination probability 0-0.35 "
        "per variant; 4-32 error-free reads of 70-380 bp per sample and chromosome (optionally paired, split over two "
        "BAM files, same read names in every family and chromosome, a coverage gap between the two middle variants); "
        "8-25% deliberately wrong VCF genotypes (the reads contradict them), with probability up to 0.3 per record in "
        "two or three samples at once; GL or default GQ; optional stale phase information (a|b + PS) and ./. calls in "
        "the input; optional multi-allelic / ALT-less / duplicate-position records; optionally one chromosome without "
        "any heterozygous call; targeted stream: quartets whose pedigree-phased sites (father het, mother hom) enclose "
        "two all-heterozygous sites connected only by dedicated read pairs (interleaved / nested phase sets in one "
        "family) with a genotype-forced recombination of one child after them. Options: every combination of "
        "--output-read-list / --changed-genotype-list / --recombination-list x --distrust-genotypes (+/- "
        "--include-homozygous) x --ped (uniform --recombrate 1.26-1e6, or --genmap with one --chromosome), "
        "--chromosome subsets, --sample subsets, --use-ped-samples, --no-genetic-haplotyping, --tag HP, --only-snvs, "
        "--internal-downsampling 6/15/20, --algorithm heuristic (without --ped). Corpus first: the F9 shape and a "
        "chromosome without anything to phase. A case is one run; it is non-trivial if it requests at least one list "
        "and processes at least two (chromosome, family) instances; distinct = distinct (scenario seed, options).")
TRUSTED = [
    "modelled, not verified: Python dict / file-object semantics behind the writers (open(path, 'w') truncates; "
    "print appends a line), pysam as VCF parser of the input/output VCF, the trace hook (WHATSHAP_VERIF_TRACE) as "
    "source of the per-(chromosome, family) results (reads, partitioning, components, transmission vector, costs, super-reads)",
    "names (samples, chromosomes, reads, REF/ALT) are interned to integers by the harness; list files are parsed "
    "line by line (exact header string, tab/space separated integer fields)",
    "phasing results themselves (components, super-reads, transmission vector, recombination costs) are inputs of this "
    "model; their correctness is the subject of C01/C03/C05",
    "'the entries of one (chromosome, family)' of the recombination list are obtained by calling the real "
    "whatshap.cli.phase.write_recombination_list in-process on each traced instance alone",
]
ASSUMPTIONS = [
    "representation invariants of the traced Python objects (checked on every trace, chk_wf): accessible positions "
    "strictly increasing, components is a dict (unique keys), every selected read belongs to a member of the family "
    "being processed, children of the trios of a family are distinct, families of one chromosome are disjoint",
    "no_changes_without_distrust assumes that the super-reads reproduce the input genotypes (superreads_conform: what "
    "the solver guarantees without --distrust-genotypes, C01/C05); the frame condition on untouched calls is proved "
    "for the genotype-level model of PhasedVcfWriter.write and compared with the real output VCF (l2_vcf); C04 covers the writer in depth",
    "read names are distinct among the members of one family within one input file (whatshap keys reads by (name, "
    "source file) when it merges the read sets of a family and raises 'duplicate read name' otherwise); "
    "--algorithm heuristic is exercised only without --ped (with --ped it trips the super-read order assertion of "
    "run_whatshap or segfaults, independent of the lists); --algorithm hapchat is not exercised",
    "a run of the model that reaches an error value (None) corresponds to a crash of the tool; theorems about file "
    "contents are stated for completed runs (C20_run_completes_refuted records the reachable crash)",
]

HEADER = """From Coq Require Import ZArith List Bool Arith.
From WH.Model Require Import AuxReports.
Import ListNotations.
Open Scope Z_scope.
"""

CHECKS = {
    "wf": "chk_wf",
    "read_sound": "chk_read_sound",
    "read_cover": "chk_read_cover",
    "read_source": "chk_read_source",
    "gt_sound0": "chk_gt_sound 0",
    "gt_sound1": "chk_gt_sound 1",          # only to classify a failure of gt_sound0 (0-based position column)
    "gt_cover0": "chk_gt_cover 0",
    "gt_cover1": "chk_gt_cover 1",
    "no_change": "chk_no_change",
    "rec_sound": "chk_rec_sound",
    "rec_genuine": "chk_rec_genuine",
    "rec_complete": "chk_rec_complete",
    "rec_vs_vcf": "chk_rec_vs_vcf",
    "rec_cover": "chk_rec_cover",
    "l2_reads": "l2_reads",
    "l2_vcf": "l2_vcf",
    "l2_gts": "l2_gts",
    "l2_recs": "l2_recs",
    "l2_inst_recs": "l2_inst_recs",
}


def interleaving(ins, entries):
    """(instance has interleaved phase sets, number of its recombination entries located after a variant of
    another phase set that lies inside their own set's span)"""
    comps = sorted(ins["components"])
    inter = False
    first_foreign = {}
    for b in {c for _, c in comps}:
        mine = [p for p, c in comps if c == b]
        foreign = [p for p, c in comps if c != b and mine[0] < p < mine[-1]]
        if foreign:
            inter = True
            first_foreign[b] = min(foreign)
    after = 0
    cd = dict(comps)
    for e in entries or []:
        b = cd.get(e[2] - 1)
        if b in first_foreign and e[2] - 1 > first_foreign[b]:
            after += 1
    return inter, after


def coinciding_positions(insts):
    """(some position lies in differently named phase sets on two chromosomes,
        ... in two families of one chromosome,
        the seeded shape: a position of a family on a chromosome coincides with a position that a later-processed
        family had on the previous chromosome under another phase-set name)"""
    across_chrom = across_fam = stale_shape = False
    chroms = []
    for ins in insts:
        if ins["chromosome"] not in chroms:
            chroms.append(ins["chromosome"])
    by = {c: [i for i in insts if i["chromosome"] == c] for c in chroms}
    for ci, c in enumerate(chroms):
        for a in range(len(by[c])):
            ca = dict(map(tuple, by[c][a]["components"]))
            for b in range(a + 1, len(by[c])):
                cb = dict(map(tuple, by[c][b]["components"]))
                across_fam |= any(p in cb and cb[p] != ca[p] for p in ca)
            for c2 in chroms[ci + 1:]:
                for other in by[c2]:
                    co = dict(map(tuple, other["components"]))
                    across_chrom |= any(p in co and co[p] != ca[p] for p in ca)
        if ci > 0:
            prev = by[chroms[ci - 1]]
            for a, ins in enumerate(by[c]):
                ca = dict(map(tuple, ins["components"]))
                later = [x for x in prev if sorted(x["family"]) > sorted(ins["family"])]
                for x in later:
                    cx = dict(map(tuple, x["components"]))
                    first = {r["variants"][0][0] for r in ins["reads"]}
                    stale_shape |= any(p in cx and cx[p] != ca[p] for p in first)
    return across_chrom, across_fam, stale_shape


def multi_change_records(in_vcf, out_vcf):
    """number of records in which the genotypes of two or more samples differ between input and output VCF"""
    n = 0
    for c in in_vcf[1]:
        for a, b in zip(in_vcf[2][c], out_vcf[2].get(c, [])):
            d = sum(1 for (s, g, _), (s2, g2, _) in zip(a["calls"], b["calls"]) if sorted(g) != sorted(g2))
            n += d >= 2
    return n


def execute(ctx, spec, opts_list, timeout=G.RUN_TIMEOUT):
    """Build the scenario, run every option set, return [(replay, case_term, meta) | (replay, None, error)]."""
    wd = workdir(ctx)
    sc, trios = G.build_scenario(spec, wd)
    out = []
    for n, opt in enumerate(opts_list):
        tag = f"r{n}"
        replay = {"spec": spec, "opt": opt}
        try:
            insts = G.run_phase(ctx, wd, sc, opt, tag, timeout=timeout)
            intern = G.Interner()
            files = {"reads": G.parse_list_file(os.path.join(wd, f"reads.{tag}.tsv"), "reads", intern),
                     "gts": G.parse_list_file(os.path.join(wd, f"gts.{tag}.tsv"), "gts", intern),
                     "recs": G.parse_list_file(os.path.join(wd, f"recs.{tag}.txt"), "recs", intern)}
            in_vcf = G.parse_vcf(os.path.join(wd, "in.vcf"), False)
            out_vcf = G.parse_vcf(os.path.join(wd, f"out.{tag}.vcf"), True)
            inst_recs = [G.real_inst_recs(ins, wd, intern, f"{tag}.{j}") for j, ins in enumerate(insts)]
            t = G.case_term(opt, in_vcf, out_vcf, insts, files, intern, sc.chroms, inst_recs, read_file=sc.read_file)
            nent = {k: (None if v is None else len([x for x in v if x != "H"])) for k, v in files.items()}
            il = [interleaving(ins, es) for ins, es in zip(insts, inst_recs)]
            fams = {}
            for ins in insts:
                fams.setdefault(ins["chromosome"], []).append(len(ins["family"]))
            meta = {"instances": len(insts), "entries": nent,
                    "calls_with_events": sum(1 for es in inst_recs if es),
                    "trios": sum(len(i["trios"]) for i in insts), "reads": sum(len(i["reads"]) for i in insts),
                    "multi_block_trio_instances": sum(1 for i in insts if i["trios"] and len({c for _, c in i["components"]}) > 1),
                    "interleaved_trio_instances": sum(1 for (a, _), i in zip(il, insts) if a and i["trios"]),
                    "rec_entries_after_interleaving": sum(b for _, b in il),
                    "families_per_chromosome": max([len(v) for v in fams.values()] or [0]),
                    "single_sample_families": sum(1 for v in fams.values() for x in v if x == 1),
                    "multi_change_records": multi_change_records(in_vcf, out_vcf),
                    "source_ids": len({r["source_id"] for i in insts for r in i["reads"]}),
                    "empty_instances": sum(1 for i in insts if not i["accessible_positions"]),
                    "readless_instances": sum(1 for i in insts if not i["reads"])}
            meta["bam_layout"], meta["bam_samples"] = sc.bam_layout, sc.bam_samples
            # listed reads that come from a file which is preceded by a file that does not contain their sample
            late = 0
            for e in (files["reads"] or []):
                if e != "H" and e[1] > 0:
                    sname = next(k for k, v in intern.ids.items() if v == e[2])
                    late += any(sname not in sc.bam_samples[j] for j in range(e[1]))
            meta["read_entries_after_file_lacking_their_sample"] = late
            meta["coinciding"] = coinciding_positions(insts)
            three = [i for i in insts if len(i["trios"]) == 2 and
                     (i["trios"][0][0] in i["trios"][1][1:] or i["trios"][1][0] in i["trios"][0][1:])]
            if three:
                tr = three[0]["trios"]
                meta["ped_child_first"] = tr[1][0] in tr[0][1:]      # the first registered trio's parent is the other's child
                gc = tr[0][0] if meta["ped_child_first"] else tr[1][0]
                meta["grandchild_events"] = sum(1 for e in (files["recs"] or []) if e != "H" and e[0] == intern(gc))
            # (only to name a failure) does a list hold nothing but the entries of the last call?
            gl = [e for e in (files["gts"] or []) if e != "H"]
            last_chrom = insts[-1]["chromosome"] if insts else None
            meta["gts_only_last_chromosome"] = bool(insts) and len({i["chromosome"] for i in insts}) > 1 and \
                all(e[1] == intern(last_chrom) for e in gl)
            rl = [e for e in (files["recs"] or []) if e != "H"]
            meta["recs_only_last_instance"] = len(insts) > 1 and rl == list(inst_recs[-1] or []) and \
                any(es for es in inst_recs[:-1])
            out.append((replay, t, meta))
        except G.TimedOut as e:
            out.append((replay, None, ("phase:run-timeout", str(e))))
        except G.Unparseable as e:
            out.append((replay, None, ("phase:list-file-unparseable", str(e))))
        except G.RunFailed as e:
            # the trace holds every instance up to (and including) the one being processed when the run died
            try:
                intern = G.Interner()
                in_vcf = G.parse_vcf(os.path.join(wd, "in.vcf"), False)
                t = G.case_term(opt, in_vcf, (in_vcf[0], [], {}), e.insts, {"reads": None, "gts": None, "recs": None},
                                intern, sc.chroms, None)
            except Exception:
                t = None
            out.append((replay, None, ("phase:run-failed", str(e), t, e.stderr)))
        except Exception as e:     # anything else the drivers hit on this input is reported with the input
            import traceback
            out.append((replay, None, ("phase:harness-exception", traceback.format_exc()[-1500:])))
    return out


def plan(ctx):
    """[(spec, [opt, ...])]: the 32 combinations (3 lists x distrust x ped) are all covered, then random ones."""
    rng = ctx.rng
    grid = [((r, g, c), d, p) for r in (1, 0) for g in (1, 0) for c in (1, 0) for d in (1, 0) for p in (1, 0)]
    jobs = []
    # corpus: the shape of F9 (two chromosomes, one trio, cheap recombination, all lists) and its --chromosome run
    f9 = G.make_spec(rng, {"structure": "trio_single_first", "nchrom": 2, "recomb_prob": 0.3, "odd_records": False,
                           "names": "role", "missing_gt": False, "prephased": False})
    o = G.make_options(rng, f9, (1, 1, 1), 1, 1)
    o.update(recombrate=1000000, genmap=False, chromosomes=None, include_homozygous=True, samples=None,
             use_ped_samples=False, tag_hp=False, only_snvs=False, algorithm="whatshap", max_coverage=15)
    jobs.append((f9, [o, dict(o, chromosomes=[0])]))
    # corpus: a chromosome without anything to phase (the fixed --recombination-list crash)
    hom = G.make_spec(rng, {"structure": "trio_single", "nchrom": 2, "all_hom_chrom": 0, "odd_records": False})
    oh = G.make_options(rng, hom, (1, 1, 1), 0, 1)
    oh.update(genmap=False, chromosomes=None, samples=None, use_ped_samples=False)
    jobs.append((hom, [oh, dict(oh, recs=False)]))
    # targeted stream: interleaved / nested phase sets in one family with a recombination after them
    for _ in range(ctx.n(8, 40)):
        sp = G.make_spec(rng, {"structure": rng.choice(["quartet", "quartet_single"]), "interleave": True,
                               "nchrom": rng.choice([1, 2, 2]), "gap": False, "missing_gt": False,
                               "kinds": ["snv"], "prephased": False})
        opts = []
        for d in (0, rng.choice([0, 1])):
            oi = G.make_options(rng, sp, (1, rng.choice([0, 1]), 1), d, 1)
            oi.update(recombrate=rng.choice([1.26, 10000, 1000000]), use_ped_samples=False, only_snvs=False)
            opts.append(oi)
        jobs.append((sp, opts))
    # targeted stream: three-generation families, PED lines top-down and grandchild-first, with and without reads
    for k in range(ctx.n(12, 40)):
        sp = G.make_spec(rng, {"structure": rng.choice(["three_gen", "three_gen_single", "three_gen_maternal"]),
                               "ped_child_first": bool(k % 2), "recomb_prob": rng.choice([0.15, 0.3]),
                               "missing_gt": False, "gt_error": 0.08, "multi_change": 0.0, "all_hom_chrom": None,
                               "nreads": rng.choice([0, 0, 6, 20])})
        opts = []
        for d in (0, rng.choice([0, 1])):
            o3 = G.make_options(rng, sp, (1, rng.choice([0, 1]), 1), d, 1)
            o3.update(recombrate=rng.choice([10000, 300000, 1000000]), genmap=False, samples=None, tag_hp=False,
                      use_ped_samples=False, no_genetic_haplotyping=False)
            opts.append(o3)
        jobs.append((sp, opts))
    nscen = ctx.n(32, 300)
    per = ctx.n(3, 4)
    k = 0
    for _ in range(nscen):
        spec = G.make_spec(rng)
        opts = []
        for _ in range(per):
            if k < len(grid):
                lists, d, p = grid[k]
            else:
                lists, d, p = rng.choice(grid)
                if rng.random() < 0.5:
                    lists = (1, 1, 1)
            k += 1
            opts.append(G.make_options(rng, spec, lists, d, p))
        jobs.append((spec, opts))
    return jobs


def evaluate(ctx, results):
    """results: [(replay, term, meta)] -> runs Coq, records violations / L2 disagreements."""
    ok = [(r, t, m) for r, t, m in results if t is not None]
    failed = [(r, m) for r, t, m in results if t is None]
    crash_terms = [(r, m) for r, m in failed if len(m) > 2 and m[2] is not None]
    crash_verdict = {}
    if crash_terms:
        fl, errors = eval_checks("C20crash", HEADER, {"model_crashes": "model_crashes"},
                                 [m[2] for _, m in crash_terms], shard=4, timeout=900)
        if errors:
            raise RuntimeError("coq evaluation failed: " + errors[0][1])
        for j, (r, m) in enumerate(crash_terms):
            crash_verdict[id(m)] = j not in fl["model_crashes"]
    for r, m in failed:
        ctx.count(("fail", repr(r)), nontrivial=False)
        if m[0] == "phase:run-failed" and "No reads could be retrieved" in m[3] and "Traceback" not in m[3]:
            # documented input validation (CommandLineError for an input file without alignments), not a verdict
            ctx.tally("runs_rejected.no_reads")
            continue
        ctx.tally("runs_that_crashed")
        sig = m[0]
        if sig == "phase:run-failed" and "find_recombination" in m[3] and "AssertionError" in m[3]:
            sig = "phase:recombination-list-crash-no-accessible-variants"
        ctx.violation(sig, f"{m[1][:1500]} spec={r['spec']} options={r['opt']}", r)
        if m[0] == "phase:run-failed" and not crash_verdict.get(id(m), False):
            ctx.disagreements_checked += 1
            ctx.l2_disagreement("AuxReports.run_phase = None iff whatshap phase crashes (L2)", [{"replay": r}])
    if not ok:
        return
    failing, errors = eval_checks("C20", HEADER, CHECKS, [t for _, t, _ in ok], shard=4, timeout=900)
    if errors:
        raise RuntimeError("coq evaluation failed: " + errors[0][1])
    bad = {lab: set(ix) for lab, ix in failing.items()}

    def holds(lab, i):
        return i not in bad[lab]

    for i, (rp, t, meta) in enumerate(ok):
        opt, spec = rp["opt"], rp["spec"]
        nontrivial = meta["instances"] >= 2 and (opt["reads"] or opt["gts"] or opt["recs"])
        ctx.count((spec["seed"], repr(sorted(opt.items()))), nontrivial=nontrivial)
        ctx.tally("runs")
        ctx.tally("instances", meta["instances"])
        ctx.tally("selected_reads", meta["reads"])
        ctx.tally(f"lists.{int(opt['reads'])}{int(opt['gts'])}{int(opt['recs'])}.distrust{int(opt['distrust'])}.ped{int(opt['ped'])}")
        ctx.tally("structure." + spec["structure"])
        ctx.tally("names." + spec.get("names", "role"))
        ctx.tally(f"families_per_chromosome.{min(meta['families_per_chromosome'], 4)}{'+' if meta['families_per_chromosome'] >= 4 else ''}")
        if not opt["ped"] and meta["families_per_chromosome"] >= 2:
            ctx.tally("runs_without_ped_with_several_samples")
        if opt["ped"] and meta["families_per_chromosome"] >= 2:
            ctx.tally("runs_with_ped_and_several_families")
        for key in ("genmap", "tag_hp", "only_snvs", "use_ped_samples", "no_genetic_haplotyping", "include_homozygous"):
            if opt.get(key):
                ctx.tally("option." + key)
        if opt.get("samples") is not None:
            ctx.tally("option.sample_subset")
        if opt["chromosomes"] is not None:
            ctx.tally("option.chromosome_subset")
        ctx.tally("option.algorithm." + opt.get("algorithm", "whatshap"))
        ctx.tally(f"option.max_coverage.{opt.get('max_coverage', 15)}")
        ctx.tally(f"option.recombrate.{opt['recombrate']}" if opt["ped"] and not opt["genmap"] else "option.recombrate.n/a")
        for key in ("gl", "odd_records", "gap", "ped_shuffle", "ped_extra", "shared_read_names", "prephased",
                    "missing_gt", "interleave", "same_coords"):
            if spec.get(key):
                ctx.tally("input." + key)
        if spec["structure"].startswith("three_gen") and opt["ped"]:
            ctx.tally("three_generation_runs.ped_" + ("child_first" if meta.get("ped_child_first") else "top_down"))
            ctx.tally("three_generation_runs.grandchild_events", meta.get("grandchild_events", 0))
        if spec.get("paired_fraction"):
            ctx.tally("input.paired_reads")
        if spec.get("all_hom_chrom") is not None:
            ctx.tally("input.all_hom_chrom")
        if len(spec["kinds"]) > 1:
            ctx.tally("input.indels_mnps")
        ctx.tally(f"input.nchrom.{spec['nchrom']}")
        for kname, v in meta["entries"].items():
            if v:
                ctx.tally(f"entries.{kname}", v)
            elif v == 0:
                ctx.tally(f"runs_with_header_only.{kname}")
        for key in ("calls_with_events", "multi_block_trio_instances", "interleaved_trio_instances",
                    "rec_entries_after_interleaving", "single_sample_families", "multi_change_records",
                    "empty_instances", "readless_instances"):
            ctx.tally(key, meta[key])
        if meta["multi_change_records"] and opt["gts"]:
            ctx.tally("runs_listing_multi_sample_changes")
        for flag, name in zip(meta["coinciding"], ("runs_with_a_position_in_other_phase_set_on_another_chromosome",
                                                   "runs_with_a_position_in_other_phase_set_in_another_family",
                                                   "runs_with_first_variant_at_stale_position_of_later_family")):
            if flag:
                ctx.tally(name)
                if opt["reads"]:
                    ctx.tally(name + ".read_list_requested")
        ctx.tally("bam_layout." + meta["bam_layout"])
        ctx.tally(f"bam_files.{len(meta['bam_samples'])}")
        ctx.tally("read_entries_after_file_lacking_their_sample", meta["read_entries_after_file_lacking_their_sample"])
        if meta["read_entries_after_file_lacking_their_sample"]:
            ctx.tally("runs_listing_reads_after_file_lacking_their_sample")
        if meta["source_ids"] > 1:
            ctx.tally("runs_with_two_source_ids")
        desc = f"spec={spec} options={opt} (instances: {meta['instances']}, entries in files: {meta['entries']})"
        # ---------------- L1
        if not holds("wf", i):
            ctx.violation("phase:trace-invariant", "traced run violates an assumed representation invariant: " + desc, rp)
        if not holds("read_sound", i):
            ctx.violation("phase:read-list-entry-unjustified",
                          "a line of the read list is not a selected read with phase set = component of its first variant + 1: " + desc, rp)
        if not holds("read_source", i):
            ctx.violation("phase:read-list-wrong-source-id",
                          "a line of the read list names another input file (source_id = index on the command line) than the "
                          "one the read was written to: " + desc + f" BAM layout: {meta['bam_layout']} {meta['bam_samples']}", rp)
        if not holds("read_cover", i):
            ctx.violation("phase:read-list-incomplete", "the read list is not exactly the selected reads of all processed chromosomes and families: " + desc, rp)
        if not holds("no_change", i):
            ctx.violation("phase:genotype-changed-without-distrust", "genotype differences or listed changes without --distrust-genotypes: " + desc, rp)
        if opt["gts"]:
            zero_based = False
            if not holds("gt_sound0", i):
                if holds("gt_sound1", i):
                    zero_based = True
                    ctx.violation("phase:changed-genotype-list-position-zero-based",
                                  "every listed genotype change is a difference between input and output VCF only if its "
                                  "`position` is read as 0-based (VCF POS - 1); the other two lists use VCF positions: " + desc, rp)
                else:
                    ctx.violation("phase:changed-genotype-list-entry-not-a-diff",
                                  "a listed genotype change is not a difference between input and output VCF: " + desc, rp)
            if not holds("gt_cover1" if zero_based else "gt_cover0", i):
                if meta.get("gts_only_last_chromosome"):
                    ctx.violation("phase:changed-genotype-list-overwritten",
                                  "genotype differences between input and output VCF on an earlier chromosome are missing from the "
                                  "changed-genotype list, which only holds entries of the last processed chromosome: " + desc, rp)
                else:
                    ctx.violation("phase:changed-genotype-list-incomplete",
                                  "a genotype difference between input and output VCF is missing from the changed-genotype list: " + desc, rp)
        if opt["recs"]:
            if not holds("rec_sound", i):
                ctx.violation("phase:recombination-entry-outside-phase-set",
                              "a listed recombination does not lie between two variants of one phase set of its family: " + desc, rp)
            elif not holds("rec_genuine", i):
                ctx.violation("phase:recombination-entry-fabricated",
                              "a listed recombination is not a change of its family's transmission vector between neighbouring "
                              "variants of one phase set (or its haplotype / cost columns are not those of that change): " + desc, rp)
            if not holds("rec_complete", i):
                if meta.get("recs_only_last_instance"):
                    ctx.violation("phase:recombination-list-overwritten",
                                  "recombination events of an earlier (chromosome, family) are missing from the recombination list, "
                                  "which only holds the entries of the last one: " + desc, rp)
                else:
                    ctx.violation("phase:recombination-entry-missing",
                                  "a change of the transmission vector between neighbouring variants of one phase set of a processed "
                                  "(chromosome, family) is not listed: " + desc, rp)
            if not holds("rec_vs_vcf", i):
                ctx.violation("phase:recombination-list-contradicts-phased-vcf",
                              "between two consecutive variants of one phase set at which the output VCF determines the parental "
                              "haplotype a child inherited (parent heterozygous and phased, child phased in the same set, or "
                              "homozygous with trusted genotypes), that haplotype changes without an odd number of listed events in between (or does not "
                              "change although an odd number is listed): " + desc, rp)
            if holds("rec_complete", i) and not holds("rec_cover", i):
                ctx.violation("phase:recombination-list-incomplete",
                              "the recombination list is not the concatenation of what write_recombination_list gives for each processed (chromosome, family): " + desc, rp)
        if len(ctx.samples) < 3:
            ctx.sample({"spec": spec, "options": opt, "meta": meta,
                        "failed_checks": sorted(lab for lab in CHECKS if not holds(lab, i))})

    # ---------------- L2: exactly the model of the code as it is
    def l2(label, what):
        cases = [{"replay": ok[i][0], "meta": ok[i][2]} for i in sorted(bad[label])]
        if cases:
            ctx.disagreements_checked += len(cases)
            ctx.l2_disagreement(what, cases)

    l2("l2_reads", "AuxReports.run_phase read list = --output-read-list file (L2)")
    l2("l2_vcf", "AuxReports.write_records genotypes = output VCF genotypes (L2)")
    l2("l2_gts", "AuxReports.run_phase changed-genotype list = --changed-genotype-list file (L2)")
    l2("l2_recs", "AuxReports.run_phase recombination list = --recombination-list file (L2)")
    l2("l2_inst_recs", "AuxReports.inst_rec_entries = write_recombination_list on each traced instance (L2)")


def run_jobs(ctx, jobs):
    with ThreadPoolExecutor(max_workers=12) as ex:
        res = list(ex.map(lambda j: execute(ctx, j[0], j[1]), jobs))
    out = []
    for x in [x for r in res for x in r]:
        if x[1] is None and x[2][0] == "phase:run-timeout":
            # the time limit may have been hit only because the machine is loaded: repeat this single run on its
            # own (the pool is finished) with four times the limit; a second timeout is reported as a hang
            ctx.tally("runs_repeated_after_timeout")
            x = execute(ctx, x[0]["spec"], [x[0]["opt"]], timeout=4 * G.RUN_TIMEOUT)[0]
        out.append(x)
    return out


def search_jobs(ctx, n):
    """wider search after an L2-only disagreement: large runs with everything switched on"""
    rng = ctx.rng
    jobs = []
    for _ in range(n):
        spec = G.make_spec(rng, {"nchrom": 3})
        spec.update(recomb_prob=0.35, gt_error=0.25, nvars=11)
        opts = []
        for ped in (1, 1, 0):
            o = G.make_options(rng, spec, (1, 1, 1), 1, ped)
            o.update(genmap=False, chromosomes=None, recombrate=rng.choice([300000, 1000000]))
            opts.append(o)
        jobs.append((spec, opts))
    return jobs


def run(ctx):
    import logging
    logging.getLogger("whatshap").setLevel(logging.WARNING)
    jobs = plan(ctx)
    results = run_jobs(ctx, jobs)
    evaluate(ctx, results)
    if ctx.l2 and not any(v["found_input"] for v in ctx.violations):
        # the model no longer describes the code: look for an input on which the property itself fails
        evaluate(ctx, run_jobs(ctx, search_jobs(ctx, ctx.n(16, 60))))
        ctx.extra["search_after_l2_disagreement"] = True


def replay(ctx, data):
    if "spec" in data and "opt" in data:
        evaluate(ctx, run_jobs(ctx, [(data["spec"], [data["opt"]])]))
    else:
        run(ctx)
