"""C20 — auxiliary reports of `whatshap phase` cover the whole run and agree with the phased VCF."""
import os
from concurrent.futures import ThreadPoolExecutor

from .. import auxreports_gen as G
from ..coqeval import eval_checks
from ..util import workdir

RULE = ("synthetic runs of `whatshap phase` on 1-3 chromosomes x {two trios, trio + unrelated sample (processed "
        "before or after the trio), quartet (two trios in one family) +/- unrelated sample}, sample order shuffled, child "
        "haplotypes inherited with recombination probability 0-0.35 per variant, 4-32 error-free reads of 70-380 bp per "
        "sample and chromosome (optionally with a coverage gap between the two middle variants so that a family has "
        "several phase sets), 8-25% deliberately wrong VCF genotypes (the reads contradict them), GL present or default "
        "GQ, optional multi-allelic / ALT-less / duplicate-position records, optionally one chromosome without any "
        "heterozygous call; options: every combination of --output-read-list / --changed-genotype-list / "
        "--recombination-list x --distrust-genotypes (+/- --include-homozygous) x --ped (uniform --recombrate from 1.26 "
        "to 1e6, or --genmap with one --chromosome), optional --chromosome subsets, --no-genetic-haplotyping. "
        "Corpus first: the F9 shape (two chromosomes, one trio, all lists, full run and --chromosome run) and a "
        "chromosome without anything to phase. A case is one run; it is non-trivial if it requests at least one list "
        "and processes at least two (chromosome, family) instances; distinct = distinct (scenario seed, options).")
TRUSTED = [
    "modelled, not verified: Python dict / file-object semantics behind the writers (open(path, 'w') truncates; "
    "print appends a line), pysam as VCF parser of the input/output VCF, the trace hook (WHATSHAP_VERIF_TRACE) as "
    "source of the per-(chromosome, family) results (reads, partitioning, components, transmission vector, costs, super-reads)",
    "names (samples, chromosomes, reads, REF/ALT) are interned to integers by the harness; list files are parsed "
    "line by line (exact header string, tab/space separated integer fields)",
    "phasing results themselves (components, super-reads, transmission vector, recombination costs) are inputs of this "
    "model; their correctness is the subject of C01/C03/C05",
    "'the entries of one (chromosome, family)' of the recombination list are obtained by calling the real "
    "whatshap.cli.phase.write_recombination_list in-process on each traced instance alone",
]
ASSUMPTIONS = [
    "representation invariants of the traced Python objects (checked on every trace, chk_wf): accessible positions "
    "strictly increasing, components is a dict (unique keys), every selected read belongs to a member of the family "
    "being processed, children of the trios of a family are distinct, families of one chromosome are disjoint",
    "no_changes_without_distrust assumes that the super-reads reproduce the input genotypes (superreads_conform: what "
    "the solver guarantees without --distrust-genotypes, C01/C05); the frame condition on untouched calls is proved "
    "for the genotype-level model of PhasedVcfWriter.write and compared with the real output VCF (l2_vcf); C04 covers the writer in depth",
    "algorithm = whatshap (default); --algorithm heuristic/hapchat, --only-snvs, --tag HP, --sample not exercised",
    "a run of the model that reaches an error value (None) corresponds to a crash of the tool; theorems about file "
    "contents are stated for completed runs (C20_run_completes_refuted records the reachable crash)",
]

HEADER = """From Coq Require Import ZArith List Bool Arith.
From WH.Model Require Import AuxReports.
Import ListNotations.
Open Scope Z_scope.
"""

CHECKS = {
    "wf": "chk_wf",
    "read_sound": "chk_read_sound",
    "read_cover": "chk_read_cover",
    "gt_sound0": "chk_gt_sound 0",
    "gt_sound1": "chk_gt_sound 1",
    "gt_cover0": "chk_gt_cover 0",
    "gt_cover1": "chk_gt_cover 1",
    "no_change": "chk_no_change",
    "rec_sound": "chk_rec_sound",
    "rec_cover": "chk_rec_cover",
    "l2_reads": "l2_reads",
    "l2_vcf": "l2_vcf",
    "l2_gts_call0": "l2_gts PerCall ZeroBased",
    "l2_gts_call1": "l2_gts PerCall OneBased",
    "l2_gts_run0": "l2_gts PerRun ZeroBased",
    "l2_gts_run1": "l2_gts PerRun OneBased",
    "l2_recs_call": "l2_recs PerCall Strict",
    "l2_recs_run": "l2_recs PerRun Strict",
    "l2_recs_call_e": "l2_recs PerCall EmptyOk",
    "l2_recs_run_e": "l2_recs PerRun EmptyOk",
    "l2_inst_recs": "l2_inst_recs Strict",
    "l2_inst_recs_e": "l2_inst_recs EmptyOk",
}


def execute(ctx, spec, opts_list):
    """Build the scenario, run every option set, return [(replay, case_term, meta) | (replay, None, error)]."""
    wd = workdir(ctx)
    sc, trios = G.build_scenario(spec, wd)
    out = []
    for n, opt in enumerate(opts_list):
        tag = f"r{n}"
        replay = {"spec": spec, "opt": opt}
        try:
            insts = G.run_phase(ctx, wd, sc, opt, tag)
            intern = G.Interner()
            files = {"reads": G.parse_list_file(os.path.join(wd, f"reads.{tag}.tsv"), "reads", intern),
                     "gts": G.parse_list_file(os.path.join(wd, f"gts.{tag}.tsv"), "gts", intern),
                     "recs": G.parse_list_file(os.path.join(wd, f"recs.{tag}.txt"), "recs", intern)}
            in_vcf = G.parse_vcf(os.path.join(wd, "in.vcf"), False)
            out_vcf = G.parse_vcf(os.path.join(wd, f"out.{tag}.vcf"), True)
            inst_recs = [G.real_inst_recs(ins, wd, intern, f"{tag}.{j}") for j, ins in enumerate(insts)]
            t = G.case_term(opt, in_vcf, out_vcf, insts, files, intern, sc.chroms, inst_recs)
            nent = {k: (None if v is None else len([x for x in v if x != "H"])) for k, v in files.items()}
            meta = {"instances": len(insts), "entries": nent,
                    "calls_with_events": sum(1 for es in inst_recs if es),
                    "trios": sum(len(i["trios"]) for i in insts), "reads": sum(len(i["reads"]) for i in insts),
                    "multi_block_trio_instances": sum(1 for i in insts if i["trios"] and len({c for _, c in i["components"]}) > 1)}
            out.append((replay, t, meta))
        except G.Unparseable as e:
            out.append((replay, None, ("phase:list-file-unparseable", str(e))))
        except G.RunFailed as e:
            # the trace holds every instance up to (and including) the one being processed when the run died
            try:
                intern = G.Interner()
                in_vcf = G.parse_vcf(os.path.join(wd, "in.vcf"), False)
                t = G.case_term(opt, in_vcf, (in_vcf[0], [], {}), e.insts, {"reads": None, "gts": None, "recs": None},
                                intern, sc.chroms, None)
            except Exception:
                t = None
            out.append((replay, None, ("phase:run-failed", str(e), t, e.stderr)))
    return out


def plan(ctx):
    """[(spec, [opt, ...])]: the 32 combinations (3 lists x distrust x ped) are all covered, then random ones."""
    rng = ctx.rng
    grid = [((r, g, c), d, p) for r in (1, 0) for g in (1, 0) for c in (1, 0) for d in (1, 0) for p in (1, 0)]
    # corpus: the shape of F9 (two chromosomes, one trio, cheap recombination, all lists) and its --chromosome runs
    jobs = []
    f9 = G.make_spec(rng, {"structure": "trio_single_first", "nchrom": 2})
    f9.update(recomb_prob=0.3, odd_records=False)
    o = G.make_options(rng, f9, (1, 1, 1), 1, 1)
    o.update(recombrate=1000000, genmap=False, chromosomes=None, include_homozygous=True)
    o1 = dict(o, chromosomes=[0])
    jobs.append((f9, [o, o1]))
    # corpus: a chromosome without anything to phase (third finding: --recombination-list crash)
    hom = G.make_spec(rng, {"structure": "trio_single", "nchrom": 2})
    hom.update(all_hom_chrom=0, odd_records=False)
    oh = G.make_options(rng, hom, (1, 1, 1), 0, 1)
    oh.update(genmap=False, chromosomes=None)
    jobs.append((hom, [oh, dict(oh, recs=False)]))
    nscen = ctx.n(32, 300)
    per = ctx.n(3, 4)
    k = 0
    for _ in range(nscen):
        spec = G.make_spec(rng)
        opts = []
        for _ in range(per):
            if k < len(grid):
                lists, d, p = grid[k]
            else:
                lists, d, p = rng.choice(grid)
                if rng.random() < 0.5:
                    lists = (1, 1, 1)
            k += 1
            opts.append(G.make_options(rng, spec, lists, d, p))
        jobs.append((spec, opts))
    return jobs


def evaluate(ctx, results):
    """results: [(replay, term, meta)] -> runs Coq, records violations / L2 disagreements."""
    ok = [(r, t, m) for r, t, m in results if t is not None]
    failed = [(r, m) for r, t, m in results if t is None]
    crash_terms = [(r, m) for r, m in failed if len(m) > 2 and m[2] is not None]
    crash_verdict = {}
    if crash_terms:
        fl, errors = eval_checks("C20crash", HEADER, {"model_crashes": "model_crashes", "empty": "crash_is_empty_instance"},
                                 [m[2] for _, m in crash_terms], shard=4, timeout=900)
        if errors:
            raise RuntimeError("coq evaluation failed: " + errors[0][1])
        for j, (r, m) in enumerate(crash_terms):
            crash_verdict[id(m)] = (j not in fl["model_crashes"], j not in fl["empty"])
    for r, m in failed:
        ctx.count(("fail", repr(r)), nontrivial=False)
        ctx.tally("runs_that_crashed")
        model_crashes, empty = crash_verdict.get(id(m), (False, False))
        if (m[0] == "phase:run-failed" and model_crashes and empty and "find_recombination" in m[3]
                and "AssertionError" in m[3]):
            ctx.violation("phase:recombination-list-crash-no-accessible-variants",
                          "whatshap phase --ped --recombination-list dies with AssertionError in find_recombination when a "
                          "(chromosome, family) has no accessible variant (recombination cost vector [0] for an empty position list); "
                          f"no list is complete. spec={r['spec']} options={r['opt']}", r)
        else:
            ctx.violation(m[0], m[1][:1500], r)
            if m[0] == "phase:run-failed" and not model_crashes:
                ctx.disagreements_checked += 1
                ctx.l2_disagreement("AuxReports.run = None iff whatshap phase crashes (L2)", [{"replay": r}])
    if not ok:
        return
    failing, errors = eval_checks("C20", HEADER, CHECKS, [t for _, t, _ in ok], shard=4, timeout=900)
    if errors:
        raise RuntimeError("coq evaluation failed: " + errors[0][1])
    bad = {lab: set(ix) for lab, ix in failing.items()}
    n = len(ok)

    def holds(lab, i):
        return i not in bad[lab]

    # which writer rule does the implementation follow? (decided over all cases of this run)
    gts_req = [i for i in range(n) if ok[i][0]["opt"]["gts"]]
    recs_req = [i for i in range(n) if ok[i][0]["opt"]["recs"]]
    gt_variants = ["l2_gts_call0", "l2_gts_run0", "l2_gts_call1", "l2_gts_run1"]
    gt_rule = next((v for v in gt_variants if all(holds(v, i) for i in gts_req)), None)
    # (writer rule, rule for a family without accessible position); the per-call function is compared on every case
    rec_variants = [("l2_recs_call", "l2_inst_recs"), ("l2_recs_run", "l2_inst_recs"),
                    ("l2_recs_call_e", "l2_inst_recs_e"), ("l2_recs_run_e", "l2_inst_recs_e")]
    rec_pair = next(((v, w) for v, w in rec_variants
                     if all(holds(v, i) for i in recs_req) and all(holds(w, i) for i in range(n))), None)
    rec_rule, inst_rule = rec_pair if rec_pair else (None, None)
    names = {"l2_gts_call0": "per call, 0-based position (current code)", "l2_gts_run0": "per run, 0-based position",
             "l2_gts_call1": "per call, VCF position", "l2_gts_run1": "per run, VCF position (repaired)",
             "l2_recs_call": "per call, assertion on families without accessible variant (current code)",
             "l2_recs_run": "per run, assertion on families without accessible variant",
             "l2_recs_call_e": "per call, no event for families without accessible variant",
             "l2_recs_run_e": "per run, no event for families without accessible variant (repaired)",
             None: "none of the modelled rules"}
    ctx.extra["changed_genotype_list_rule_followed"] = names[gt_rule]
    ctx.extra["recombination_list_rule_followed"] = names[rec_rule]

    for i, (rp, t, meta) in enumerate(ok):
        opt = rp["opt"]
        nontrivial = meta["instances"] >= 2 and (opt["reads"] or opt["gts"] or opt["recs"])
        ctx.count((rp["spec"]["seed"], repr(sorted(opt.items()))), nontrivial=nontrivial)
        ctx.tally("runs")
        ctx.tally("instances", meta["instances"])
        ctx.tally("selected_reads", meta["reads"])
        ctx.tally(f"lists.{int(opt['reads'])}{int(opt['gts'])}{int(opt['recs'])}.distrust{int(opt['distrust'])}.ped{int(opt['ped'])}")
        ctx.tally("structure." + rp["spec"]["structure"])
        if opt["genmap"]:
            ctx.tally("genmap_runs")
        if opt["chromosomes"] is not None:
            ctx.tally("runs_with_chromosome_option")
        for kname, v in meta["entries"].items():
            if v:
                ctx.tally(f"entries.{kname}", v)
        ctx.tally("instances_with_recombination_events", meta["calls_with_events"])
        ctx.tally("trio_instances_with_several_phase_sets", meta["multi_block_trio_instances"])
        desc = f"spec={rp['spec']} options={opt} (instances: {meta['instances']}, entries in files: {meta['entries']})"
        # ---------------- L1
        if not holds("wf", i):
            ctx.violation("phase:trace-invariant", "traced run violates an assumed representation invariant: " + desc, rp)
        if not holds("read_sound", i):
            ctx.violation("phase:read-list-entry-unjustified",
                          "a line of the read list is not a selected read with phase set = component of its first variant + 1: " + desc, rp)
        if not holds("read_cover", i):
            ctx.violation("phase:read-list-incomplete", "the read list is not exactly the selected reads of all processed chromosomes and families: " + desc, rp)
        if not holds("no_change", i):
            ctx.violation("phase:genotype-changed-without-distrust", "genotype differences or listed changes without --distrust-genotypes: " + desc, rp)
        if opt["gts"]:
            zero_based = False
            if not holds("gt_sound0", i):
                if holds("gt_sound1", i):
                    zero_based = True
                    ctx.violation("phase:changed-genotype-list-position-zero-based",
                                  "every listed genotype change is a difference between input and output VCF only if its "
                                  "`position` is read as 0-based (VCF POS - 1); the other two lists use VCF positions: " + desc, rp)
                else:
                    ctx.violation("phase:changed-genotype-list-entry-not-a-diff",
                                  "a listed genotype change is not a difference between input and output VCF: " + desc, rp)
            cover = "gt_cover1" if zero_based else "gt_cover0"
            if not holds(cover, i):
                if holds("l2_gts_call0", i) or holds("l2_gts_call1", i):
                    ctx.violation("phase:changed-genotype-list-overwritten",
                                  "genotype differences between input and output VCF on an earlier chromosome are missing from the "
                                  "changed-genotype list: the file is rewritten (mode 'w') for every chromosome: " + desc, rp)
                else:
                    ctx.violation("phase:changed-genotype-list-incomplete",
                                  "a genotype difference between input and output VCF is missing from the changed-genotype list: " + desc, rp)
        if opt["recs"]:
            if not holds("rec_sound", i):
                ctx.violation("phase:recombination-entry-outside-phase-set",
                              "a listed recombination does not lie between two variants of one phase set of its family: " + desc, rp)
            if not holds("rec_cover", i):
                if holds("l2_recs_call", i) or holds("l2_recs_call_e", i):
                    ctx.violation("phase:recombination-list-overwritten",
                                  "recombination events of an earlier (chromosome, family) are missing from the recombination list: "
                                  "the file is rewritten (mode 'w') for every chromosome and family: " + desc, rp)
                else:
                    ctx.violation("phase:recombination-list-incomplete",
                                  "recombination events of a processed (chromosome, family) are missing or extra in the recombination list: " + desc, rp)
        if len(ctx.samples) < 3:
            ctx.sample({"spec": rp["spec"], "options": opt, "meta": meta,
                        "failed_checks": sorted(lab for lab in CHECKS if not holds(lab, i))})

    # ---------------- L2
    def l2(label, idx, what):
        cases = [{"replay": ok[i][0], "meta": ok[i][2]} for i in idx]
        if cases:
            ctx.disagreements_checked += len(cases)
            ctx.l2_disagreement(what, cases)

    l2("l2_reads", sorted(bad["l2_reads"]), "AuxReports.run read list = --output-read-list file (L2)")
    l2("l2_vcf", sorted(bad["l2_vcf"]), "AuxReports.write_records genotypes = output VCF genotypes (L2)")
    if inst_rule is None:
        l2("l2_inst_recs", sorted(bad["l2_inst_recs"] if bad["l2_inst_recs"] else bad["l2_inst_recs_e"]),
           "AuxReports.inst_rec_entries = write_recombination_list on each traced instance (L2)")
    if gt_rule is None:
        l2("l2_gts", [i for i in gts_req if not holds("l2_gts_call0", i)], "AuxReports.run changed-genotype list = file under one writer rule (L2)")
    if rec_rule is None:
        l2("l2_recs", [i for i in recs_req if not holds("l2_recs_call", i)], "AuxReports.run recombination list = file under one writer rule (L2)")


def run_jobs(ctx, jobs):
    with ThreadPoolExecutor(max_workers=12) as ex:
        res = list(ex.map(lambda j: execute(ctx, j[0], j[1]), jobs))
    return [x for r in res for x in r]


def search_jobs(ctx, n):
    """wider search after an L2-only disagreement: large runs with everything switched on"""
    rng = ctx.rng
    jobs = []
    for _ in range(n):
        spec = G.make_spec(rng, {"nchrom": 3})
        spec.update(recomb_prob=0.35, gt_error=0.25, nvars=11)
        opts = []
        for ped in (1, 1, 0):
            o = G.make_options(rng, spec, (1, 1, 1), 1, ped)
            o.update(genmap=False, chromosomes=None, recombrate=rng.choice([300000, 1000000]))
            opts.append(o)
        jobs.append((spec, opts))
    return jobs


def run(ctx):
    import logging
    logging.getLogger("whatshap").setLevel(logging.WARNING)
    jobs = plan(ctx)
    results = run_jobs(ctx, jobs)
    evaluate(ctx, results)
    if ctx.l2 and not any(v["found_input"] for v in ctx.violations):
        # the model no longer describes the code: look for an input on which the property itself fails
        rule = dict(ctx.extra)
        evaluate(ctx, run_jobs(ctx, search_jobs(ctx, ctx.n(16, 60))))
        ctx.extra.update(rule)
        ctx.extra["search_after_l2_disagreement"] = True


def replay(ctx, data):
    if "spec" in data and "opt" in data:
        evaluate(ctx, run_jobs(ctx, [(data["spec"], [data["opt"]])]))
    else:
        run(ctx)
