"""C13 — `whatshap unphase` accepts every VCF, removes all phase information and nothing else."""
import copy
import os
import re
from concurrent.futures import ThreadPoolExecutor

from ..coqeval import eval_checks
from .. import util
from .. import unphase_vcf as uv

RULE = ("main stream: generated VCF files given to `whatshap unphase` as plain file, on stdin ('-'), bgzipped or as BCF "
        "(0/1/2/3/4/7/12 samples with S_i, 1000-genomes-like, keyword-like (GT, PS, 10, 2) or odd names; 0-8 records, "
        "sorted / unsorted / duplicate positions, position 1, 1/2/5 contigs, with or without final newline; per call "
        "ploidy 1-10 mixed within a record, alleles 0..#ALT or '.', all-'/' / all-'|' / mixed separators, ascending or "
        "descending, record styles free / all unphased / all phased / descending; records without GT, FORMAT '.'; "
        "HP/PS/PQ present or not independently of the separators, PS typed Integer or String, PQ Integer or Float, other "
        "FORMAT fields DP GQ AD FT XF and keys sharing a prefix with the tags (PSX, HPQ, GTX), missing values, values at "
        "2147483000, dropped trailing fields; 0-3 or 10-13 ALT alleles (two-digit allele numbers), symbolic ALT "
        "(<DEL>, <DUP>, *) with INFO/END; INFO fields called PS/HP/PQ; generic header lines (##phasingX, ##Phasing, "
        "##phasing_method, ##source, ##ALT, ##SAMPLE, ##commandline); header with the FORMAT definitions in random order, "
        "interleaved with INFO/FILTER/contig lines, and 0-3 ##phasing lines at random places, preferably directly before "
        "the HP/PS/PQ definitions, also two in a row) in three profiles (tame / mild / wild = rate of the shapes the "
        "pre-fix code crashed on), each run through `whatshap unphase` twice; "
        "exhaustive stream: every single-sample genotype over {0,1,.} up to ploidy 4 (quick) / 6 (thorough) with '/' and "
        "'|', each with FORMAT tag sets chosen independently of the separator (none, PS, HP, PQ, DP, PS+PQ, DP+PS+HP+PQ: all "
        "of them up to ploidy 3, two per genotype above), tag-only records without GT, and a corpus of records mixing "
        "phased / unphased / descending samples, each under 9 header layouts (##phasing line(s) directly before the PS / "
        "HP / PQ definition, two in a row, before each, at the end, none, reversed header); malformed stream: files "
        "whose records use HP/PS/PQ without a header definition (exception class only) and six spec-violating inputs "
        "whose exit class is only recorded; phase stream: synthetic reads (harness.synth) phased by read-based "
        "`whatshap phase` (1-3 samples, --sample, --ignore-read-groups, pre-phased input, two rounds), by pedigree "
        "`whatshap phase --ped` (trio, with and without reads) and by `whatshap polyphase` (ploidy 3-4), PS or HP tag, "
        "plain or .vcf.gz output, random sample names, descending (1/0, 1/0/0) and missing genotypes in the input; then "
        "unphase of the input and of every phased file. A case is non-trivial if the input carries phase information (a "
        "'|' or an HP/PS/PQ value); distinct = distinct input text.")
TRUSTED = [
    "modelled, not verified: pysam/htslib VCF parsing and writing (VariantFile, record.format deletion, call['GT'] "
    "get/set, call.phased setter) — their results enter the model as parsed records and as the exception class",
    "the harness' own reading of VCF text (tab/colon splitting, GT text -> alleles and '|' flag) and pysam (same "
    "library) for the parsed view of the other columns; tokens are interned strings",
    "`whatshap phase` / `whatshap polyphase` (phase stream) are used as black boxes producing phased files; their frame "
    "conditions are C04's / C15's",
    "symbolic ALT alleles are generated together with a declared INFO/END value: without the declaration htslib adds END "
    "while reading and even a plain pysam copy of the record fails (observed, below whatshap)",
]
ASSUMPTIONS = [
    "input is a well-formed VCF 4.2 text file: every FORMAT/INFO/FILTER/contig used is declared, GT is the first "
    "FORMAT key when present (files using HP/PS/PQ without declaring them go to a malformed stream compared on the "
    "exception class only)",
    "`##phasing` header lines are header metadata: cleanliness and idempotence are judged on genotypes, HP/PS/PQ values, "
    "HP/PS/PQ header definitions and all other header lines; the code as it is removes only the first `##phasing` line "
    "per application (proved: C13_header_phasing_lines / C13_header_idempotent_refuted; counted in the evidence)",
    "positive theorems (total, clean, frames, idempotent, after-phase, histories) are proved for the repaired record "
    "step `unphase_fixed` and, under the guard 'no exception', for the model of the current code",
]

HEADER = """From Coq Require Import ZArith List Bool Arith.
From WH.Model Require Import Unphase.
Import ListNotations.
Open Scope Z_scope.
"""

CHECKS = {"total": "l1_total", "clean": "l1_clean", "frames": "l1_frames", "idem": "l1_idem",
          "hclean": "l1_header_clean", "hidem": "l1_header_idem", "obs_hstrict": "obs_header_idem_strict",
          "L2rec": "l2_records", "L2hdr": "l2_header", "L2fix": "l2_fixed_prefix", "L2recfixed": "l2_records_fixed"}
MCHECKS = {"cur": "l2_mal_cur", "fixed": "l2_mal_fixed"}
PCHECKS = {"after": "l1_after_phase", "L2rel": "l2_phase_rel", "L2model": "l2_after_phase"}

KNOWN_EXC = ("IndexError", "TypeError", "KeyError")


# ------------------------------------------------------------------------------ running the real CLI
def exc_name(rc, stderr):
    if rc == 0:
        return None
    lines = [l for l in stderr.strip().splitlines() if l.strip()]
    for l in reversed(lines):
        m = re.match(r"^([A-Za-z_][\w.]*(?:Error|Exception|Exit|Interrupt)[\w]*)\b", l)
        if m:
            return m.group(1).split(".")[-1]
    return f"exit{rc}"


def unphase_cli(ctx, path):
    rc, out, err = util.run_cli(ctx, ["unphase", path], timeout=120)
    return rc, out, exc_name(rc, err), err


STDIN_CODE = "import sys; from whatshap.__main__ import main; main(['unphase', '-'])"


def unphase_channel(ctx, p_in, text, channel):
    """run `whatshap unphase` on the input given as a plain file, on standard input ('-'), bgzipped or as BCF"""
    if channel == "stdin":
        rc, out, err = util.run_py(ctx, STDIN_CODE, stdin=text, timeout=120)
        return rc, out, exc_name(rc, err), err
    if channel in ("gz", "bcf"):
        import pysam
        try:
            if channel == "gz":
                dst = p_in + ".gz"
                pysam.tabix_compress(p_in, dst, force=True)
            else:
                dst = p_in[:-4] + ".bcf"
                with pysam.VariantFile(p_in) as src, pysam.VariantFile(dst, "wb", header=src.header) as out:
                    for r in src:
                        out.write(r)
        except Exception as e:       # the harness' own conversion failed: fall back to the plain file
            return unphase_cli(ctx, p_in) + (f"conversion failed: {type(e).__name__}",)
        return unphase_cli(ctx, dst)
    return unphase_cli(ctx, p_in)


def run_spec(ctx, wd, tag, spec, perturb=None):
    text = uv.write_text(spec)
    p_in = os.path.join(wd, f"{tag}.in.vcf")
    with open(p_in, "w") as f:
        f.write(text)
    r = unphase_channel(ctx, p_in, text, spec.get("channel", "file"))
    rc1, out1, exc1, err1 = r[:4]
    channel = spec.get("channel", "file") if len(r) == 4 else "file-after-failed-conversion"
    if perturb:
        out1 = perturb(out1)
    p1 = os.path.join(wd, f"{tag}.out1.vcf")
    with open(p1, "w") as f:
        f.write(out1)
    res = {"spec": spec, "text": text, "p_in": p_in, "p1": p1, "out1": out1, "exc1": exc1, "rc1": rc1, "err1": err1[-2500:],
           "channel": channel}
    if out1.strip():
        rc2, out2, exc2, err2 = unphase_cli(ctx, p1)
        p2 = os.path.join(wd, f"{tag}.out2.vcf")
        with open(p2, "w") as f:
            f.write(out2)
        res.update(p2=p2, out2=out2, exc2=exc2, rc2=rc2)
    else:
        res.update(p2=None, out2="", exc2="no-output", rc2=-1)
    return res


def tally_spec(ctx, label, spec, res):
    """input-distribution counters (coverage.input_distribution of the evidence)"""
    t = ctx.tally
    t(f"{label}.files")
    t(f"{label}.records", len(spec["records"]))
    t(f"{label}.profile.{spec.get('profile')}")
    t(f"{label}.samples.{len(spec['samples'])}")
    t(f"{label}.exit.{res['exc1'] or 'ok'}")
    t(f"channel.{res['channel']}")
    t(f"records_per_file.{min(len(spec['records']), 9)}")
    t(f"contigs.{len(spec['contigs'])}")
    t(f"record_order.{spec.get('order', 'sorted')}")
    if spec.get("no_final_newline") and spec["records"]:
        t("file.no_final_newline")
    for x in spec.get("info_tags") or []:
        t(f"header.INFO_named_{x}")
    for l in spec.get("generic_meta") or []:
        t("header.generic." + l[2:].split("=")[0])
    for fid, num, typ in spec["formats"]:
        if fid in uv.PHASE_KEYS:
            t(f"header.{fid}.Type={typ}")
    used = {k for r in spec["records"] for k in r["format"]}
    for fid in uv.PHASE_KEYS:
        if fid in {f[0] for f in spec["formats"]} and fid not in used:
            t(f"header.{fid}.declared_unused")
    if spec["samples"] and spec["samples"][0] != "S1":
        t("sample_names.not_S_i")
    for r in spec["records"]:
        fmt = r["format"]
        tags = [k for k in fmt if k in uv.PHASE_KEYS]
        if r["fixed"][1] == 1:
            t("records.pos_1")
        nalt = 0 if r["fixed"][4] == "." else len(r["fixed"][4].split(","))
        t(f"records.nalt.{'10+' if nalt >= 10 else nalt}")
        if "<" in r["fixed"][4] or "*" in r["fixed"][4]:
            t("records.symbolic_alt")
        if spec["samples"] and "GT" not in fmt:
            t("records.without_GT")
            if tags:
                t("records.tag_without_GT")
            if not fmt:
                t("records.FORMAT_dot")
        for k in fmt:
            if k in ("PSX", "HPQ", "GTX"):
                t(f"records.key_sharing_prefix.{k}")
        gts = [c[0] for c in r["calls"]] if "GT" in fmt else []
        if gts:
            anyp = any("|" in g for g in gts)
            allp = all("|" in g and "/" not in g for g in gts)
            kind = "all_phased" if allp else ("some_phased" if anyp else "none_phased")
            t(f"records.gt.{kind}")
            for k in tags:
                t(f"records.{k}.with_gt_{kind}")
            if not tags:
                t(f"records.no_tag.with_gt_{kind}")
            if len({len(re.split(r'[/|]', g)) for g in gts}) > 1:
                t("records.mixed_ploidy")
        for call in r["calls"]:
            if len(call) < len(fmt):
                t("calls.dropped_trailing_fields")
            for k, v in zip(fmt, call):
                if k in uv.PHASE_KEYS:
                    t(f"calls.{k}.{'missing' if v == '.' else 'value'}")
            if "GT" in fmt:
                gt = call[0]
                al = re.split(r"[/|]", gt)
                t(f"calls.ploidy.{len(al) if len(al) <= 6 else '7+'}")
                if "." in al:
                    t("calls.missing_all" if all(a == "." for a in al) else "calls.missing_partial")
                else:
                    ints = [int(a) for a in al]
                    if len(ints) > 1:
                        t("calls.called.ascending" if ints == sorted(ints) else "calls.called.not_ascending")
                        if "|" not in gt and ints != sorted(ints):
                            t("calls.unphased_not_ascending")
                    if any(a >= 10 for a in ints):
                        t("calls.allele_number_10+")
                        if sorted(ints) != sorted(ints, key=str):
                            t("calls.numeric_order_differs_from_text_order")
                if "|" in gt:
                    t("calls.phased_mixed" if "/" in gt else "calls.phased")


def has_phase_info(spec):
    for r in spec["records"]:
        for call in r["calls"]:
            for k, v in zip(r["format"], call):
                if k == "GT" and "|" in v:
                    return True
                if k in uv.PHASE_KEYS and v != ".":
                    return True
    return False


def crash_site(stderr):
    """where in whatshap/cli/unphase.py the traceback ends: 'write' (writer.write), 'sorted', 'header' (inside
    unphase_header), 'record-loop' (another statement of run_unphase) or the function name"""
    site = None
    lines = stderr.splitlines()
    for i, l in enumerate(lines):
        m = re.search(r'cli/unphase\.py", line \d+, in (\w+)', l)
        if m and i + 1 < len(lines):
            func, code = m.group(1), lines[i + 1].strip()
            if func == "unphase_header":
                site = "header"
            elif "writer.write" in code:
                site = "write"
            elif "sorted" in code:
                site = "sorted"
            elif func == "run_unphase":
                site = "record-loop"
            elif func in ("main", "<module>"):
                pass
            else:
                site = func
    return site or "unknown"


HISTORIC = {"unphase:no-gt-crash": "KeyError", "unphase:haploid-crash": "IndexError", "unphase:partial-polyploid-crash": "TypeError"}


def line_signature(fmt, gts, exc, site):
    """signature for a crash on one record given its FORMAT keys and the GT texts of its samples (None without GT):
    classifies the kind of input that fails, separately for failures while writing the record"""
    tags = [k for k in fmt if k in uv.PHASE_KEYS]
    if site == "write":
        if tags and "GT" not in fmt:
            return "unphase:tag-without-gt-crash"
        if tags and not any("|" in g for g in gts):
            return "unphase:tag-with-unphased-gt-crash"
        if tags and not any("|" in g and "/" not in g for g in gts):
            return "unphase:tag-with-partly-phased-gt-crash"      # 0/1|1: pysam's call.phased is False
        return f"unphase:write-crash-other:{exc}"
    if site == "header":
        return f"unphase:header-crash:{exc}"
    if site == "unknown":
        return f"unphase:crash-other:{exc}:outside-run_unphase"
    sig = None
    if "GT" not in fmt:
        sig = "unphase:no-gt-crash"
    elif len(gts) == 1:
        al = re.split(r"[/|]", gts[0])
        if len(al) == 1 and al[0] != ".":
            sig = "unphase:haploid-crash"
        elif len(al) >= 3 and al[0] != "." and al[1] != "." and "." in al[2:]:
            sig = "unphase:partial-polyploid-crash"
    if sig and HISTORIC[sig] == exc:
        return sig
    pattern = ",".join("".join("." if a == "." else "a" for a in re.split(r"[/|]", g)) + ("p" if "|" in g else "u") for g in gts)
    return f"unphase:crash-other:{exc}:{site}:gt-{pattern or 'none'}{':tags' if tags else ''}"


def shape_signature(spec, exc, stderr=""):
    """signature for a crash on a single-record single-sample spec"""
    rec = spec["records"][0]
    fmt = rec["format"]
    gts = [c[fmt.index("GT")] for c in rec["calls"]] if "GT" in fmt else []
    return line_signature(fmt, gts, exc, crash_site(stderr))


def is_single(spec):
    return len(spec["records"]) == 1 and len(spec["samples"]) <= 1


def minimal_specs(spec, n_written):
    """single-record single-sample sub-inputs of the record the run stopped at"""
    if n_written >= len(spec["records"]):
        return []
    rec = spec["records"][n_written]
    out = []
    for j, s in enumerate(spec["samples"]):
        m = {k: copy.deepcopy(v) for k, v in spec.items() if k != "records"}
        m["samples"] = [s]
        m["records"] = [{"fixed": list(rec["fixed"]), "format": list(rec["format"]), "calls": [list(rec["calls"][j])]}]
        m["profile"] = "minimal"
        out.append(m)
    return out


class State:
    def __init__(self, ctx):
        self.ctx = ctx
        self.wd = util.workdir(ctx)
        self.interner = uv.Interner()
        self.counter = 0
        self.reported = {}
        self.crash_counts = {}
        self.min_cache = {}
        self.l2_cases = 0
        self.l2_fail_cur = []
        self.l2_fail_fixed = []
        self.obs_header_not_fixpoint = 0
        self.obs_header_example = None


def check_specs(st, specs, label, perturb=None, depth=0):
    """run, parse, evaluate in Coq, report. Returns number of L1/L2 failures seen."""
    ctx = st.ctx
    if not specs:
        return 0
    import pysam
    pysam.set_verbosity(0)
    base = st.counter
    st.counter += len(specs)
    with ThreadPoolExecutor(max_workers=16) as ex:
        results = list(ex.map(lambda a: run_spec(ctx, st.wd, f"{label}{base + a[0]}", a[1], perturb), enumerate(specs)))
    cases, kept, nfail = [], [], 0
    for res in results:
        spec = res["spec"]
        if depth >= 1:
            st.min_cache[res["text"]] = res["exc1"] is not None
        nontriv = has_phase_info(spec)
        ctx.count(("unphase", res["text"]), nontrivial=nontriv)
        tally_spec(ctx, label, spec, res)
        if res["exc1"] is not None and res["exc1"] not in KNOWN_EXC:
            # an exception class the model does not know: never silently accepted
            nfail += 1
            site = crash_site(res["err1"])
            sig = f"unphase:header-crash:{res['exc1']}" if site == "header" else f"unphase:crash-other:{res['exc1']}:{site}"
            report(st, sig, f"`whatshap unphase` fails with {res['exc1']} ({res['err1'][-200:]!r}) on\n{res['text']}",
                   spec)
            ctx.l2_disagreement("Unphase.unphase_file cur_rule = CLI (exception class unknown to the model)",
                                [{"spec": spec, "exception": res["exc1"]}])
            continue
        hin, rin = uv.parse_vcf(res["p_in"], res["text"], st.interner)     # a failure here is a generator bug
        try:
            # what the implementation wrote must be readable: a failure here is a finding, not a harness error
            if res["out1"].strip():
                hout, rout = uv.parse_vcf(res["p1"], res["out1"], st.interner)
            else:
                hout, rout = [], []
            if res["p2"] and res["out2"].strip() and (res["exc2"] is None or res["exc2"] in KNOWN_EXC):
                hout2, rout2 = uv.parse_vcf(res["p2"], res["out2"], st.interner)
                e2 = res["exc2"]
            else:
                hout2, rout2, e2 = [], [], "IndexError"      # no second output: l1_idem must fail
        except Exception as e:
            nfail += 1
            report(st, f"unphase:output-unreadable:{type(e).__name__}",
                   f"the output of `whatshap unphase` cannot be read back ({type(e).__name__}: {str(e)[:300]}); input:\n"
                   f"{res['text']}\noutput:\n{res['out1'][-1500:]}", spec)
            continue
        term = (f"(({uv.header_term(hin)}, {uv.recs_term(rin)}, ({uv.header_term(hout)}, {uv.fres_term(rout, res['exc1'])}), "
                f"({uv.header_term(hout2)}, {uv.fres_term(rout2, e2)})) : ucase)")
        ctx.tally(f"header.phasing_lines.{sum(1 for k, _, _ in hin if k == 0)}")
        if any(hin[i][0] == 0 and hin[i + 1][0] == 1 and hin[i + 1][1] in (1, 2, 3) for i in range(len(hin) - 1)):
            ctx.tally("header.phasing_line_directly_before_tag_definition")
        cases.append(term)
        kept.append((res, len(rout)))
    failing, errors = eval_checks("C13u", HEADER, CHECKS, cases, shard=150)
    if errors:
        raise RuntimeError("coq evaluation failed: " + errors[0][1])
    # ---- L1
    minimal = []
    for i in failing["total"]:
        res, nout = kept[i]
        spec = res["spec"]
        nfail += 1
        if depth >= 2 or (is_single(spec) and spec["samples"]) or (depth == 1 and len(spec["records"]) == 1):
            if spec["samples"] and len(spec["records"]) == 1:
                sig = shape_signature(spec, res["exc1"], res["err1"])
            else:
                sig = f"unphase:crash-other:{res['exc1']}:{crash_site(res['err1'])}:{'no-samples' if not spec['samples'] else 'multi-record'}"
            st.crash_counts[sig] = st.crash_counts.get(sig, 0) + 1
            report(st, sig, f"`whatshap unphase` exits with {res['exc1']} (in {crash_site(res['err1'])}) instead of writing the "
                   "unphased record; input:\n" + res["text"].split("#CHROM")[1], spec)
        else:
            ms = minimal_specs(spec, nout)
            fresh = []
            for m in ms:
                key = uv.write_text(m)
                if key not in st.min_cache:
                    st.min_cache[key] = None          # filled in by the depth-1 run: did this call crash alone?
                    fresh.append(m)
            minimal.append((spec, res, ms, fresh, nout))
    for lab, sig, what in (("clean", "unphase:not-clean", "output still carries a phased genotype or an HP/PS/PQ value"),
                           ("frames", "unphase:frame-changed", "output differs from the input in something that is not "
                            "phase information (fixed columns, other FORMAT fields, GT presence or allele multiset)"),
                           ("idem", "unphase:not-idempotent", "a second application changes the records again or fails"),
                           ("hclean", "unphase:header-tag-definition-left", "the output header still defines HP, PS or PQ"),
                           ("hidem", "unphase:header-not-idempotent", "a second application changes the header again "
                            "(in more than `##phasing` lines)")):
        for i in failing[lab]:
            res, nout = kept[i]
            nfail += 1
            report(st, sig, f"{what}; input:\n{res['text']}\noutput:\n{res['out1']}\nsecond output:\n{res['out2'][-1500:]}",
                   res["spec"])
    # observation only: with two or more `##phasing` lines the code as it is removes one per application
    st.obs_header_not_fixpoint += len(failing["obs_hstrict"])
    if failing["obs_hstrict"] and not st.obs_header_example:
        r0 = kept[failing["obs_hstrict"][0]][0]
        st.obs_header_example = {"input_header": [l for l in r0["text"].split("\n") if l.startswith("##phasing")],
                                 "after_1st": [l for l in r0["out1"].split("\n") if l.startswith("##phasing")],
                                 "after_2nd": [l for l in r0["out2"].split("\n") if l.startswith("##phasing")]}
    # ---- L2.  The model has the record rule as a switch: cur_rule (the code as it is) or fixed_rule (the repaired
    # rule).  Every case of a run must agree with the same variant; which one is recorded in the evidence.
    st.l2_cases += len(cases)
    st.l2_fail_cur += [kept[i][0] for i in failing["L2rec"]]
    st.l2_fail_fixed += [kept[i][0] for i in failing["L2recfixed"]]
    l2 = sorted(set(failing["L2hdr"]) | set(failing["L2fix"]))
    if l2:
        nfail += len(l2)
        ctx.disagreements_checked += len(l2)
        names = [n for n in ("L2hdr", "L2fix") if failing[n]]
        ctx.l2_disagreement("Unphase.unphase_header / written prefix = map unphase_fixed = CLI output (" + ",".join(names) + ")",
                            [{"spec": kept[i][0]["spec"], "exception": kept[i][0]["exc1"], "output": kept[i][0]["out1"][-800:]}
                             for i in l2])
    # ---- reduce crashing files to the crashing call, or (if no call crashes alone) to the crashing record
    if minimal:
        fresh_all = [m for _, _, _, fresh, _ in minimal for m in fresh]
        nfail += check_specs(st, fresh_all, "min", perturb=None, depth=1)
        whole = []
        for spec, res, ms, fresh, nout in minimal:
            if any(st.min_cache.get(uv.write_text(m)) for m in ms):
                continue          # reported under the signature of the call's shape
            if nout < len(spec["records"]):
                m = {k: copy.deepcopy(v) for k, v in spec.items() if k != "records"}
                m["records"] = [copy.deepcopy(spec["records"][nout])]
                m["profile"] = "minimal-record"
                whole.append((spec, res, m))
            else:
                report(st, f"unphase:crash-other:{res['exc1']}:{crash_site(res['err1'])}:after-last-record",
                       f"`whatshap unphase` exits with {res['exc1']} after writing every record; input:\n{res['text']}", spec)
        if whole:
            nfail += check_specs(st, [m for _, _, m in whole], "minrec", perturb=None, depth=2)
            for spec, res, m in whole:
                if not st.min_cache.get(uv.write_text(m)):
                    report(st, f"unphase:crash-other:{res['exc1']}:{crash_site(res['err1'])}:not-reducible-to-one-record",
                           f"`whatshap unphase` exits with {res['exc1']}; the record it stopped at does not reproduce it "
                           f"alone; input:\n{res['text']}", spec)
    return nfail


def check_malformed(st, specs):
    """HP / PS / PQ values in records without a header definition: not well-formed; only the exception class of the
    run is compared with the model (no L1 verdict)."""
    ctx = st.ctx
    if not specs:
        return
    import pysam
    pysam.set_verbosity(0)
    base = st.counter
    st.counter += len(specs)

    def one(a):
        i, spec = a
        text = uv.write_text(spec)
        p_in = os.path.join(st.wd, f"mal{base + i}.in.vcf")
        with open(p_in, "w") as f:
            f.write(text)
        rc, out, exc, err = unphase_cli(ctx, p_in)
        return {"spec": spec, "text": text, "p_in": p_in, "exc1": exc, "out1": out, "err1": err[-1500:]}
    with ThreadPoolExecutor(max_workers=16) as ex:
        results = list(ex.map(one, enumerate(specs)))
    cases, kept = [], []
    for res in results:
        ctx.count(("malformed", res["text"]), nontrivial=True)
        ctx.tally("malformed.files")
        ctx.tally(f"malformed.exit.{res['exc1'] or 'ok'}")
        if res["exc1"] is not None and res["exc1"] not in KNOWN_EXC:
            st.l2_cases += 1
            st.l2_fail_cur.append(res)
            st.l2_fail_fixed.append(res)
            continue
        _, rin = uv.parse_vcf(res["p_in"], res["text"], st.interner)
        cases.append(f"(({uv.recs_term(rin)}, {uv.ERR[res['exc1']]}) : mcase)")
        kept.append(res)
    failing, errors = eval_checks("C13m", HEADER, MCHECKS, cases, shard=150)
    if errors:
        raise RuntimeError("coq evaluation failed: " + errors[0][1])
    st.l2_cases += len(cases)
    st.l2_fail_cur += [kept[i] for i in failing["cur"]]
    st.l2_fail_fixed += [kept[i] for i in failing["fixed"]]


def observed_malformed_specs():
    """inputs that violate the VCF specification but that htslib accepts: only the exit class is recorded (tally
    `observed_malformed.<what>.<exit>`), no verdict — the property speaks about well-formed files"""
    out = []
    s = uv.single_call_spec("1|0", tags=["DP", "PS"])
    s["records"][0]["format"] = ["DP", "GT", "PS"]
    s["records"][0]["calls"] = [["7", "1|0", "100"]]
    out.append(("GT_not_first", s))
    s = uv.single_call_spec("1|0", tags=["PS"])
    s["formats"] = [f for f in s["formats"] if f[0] != "GT"]
    out.append(("GT_undeclared", s))
    s = uv.single_call_spec("3|0", tags=["PS"])
    out.append(("allele_out_of_range", s))
    s = uv.single_call_spec("1|0", tags=["PS", "PS"])
    out.append(("duplicate_FORMAT_key", s))
    s = uv.multi_call_spec(["GT", "PS"], [["1|0", "100"], ["0/1", "."]])
    s["records"][0]["calls"] = s["records"][0]["calls"][:1]
    out.append(("too_few_sample_columns", s))
    s = uv.single_call_spec("1|0", tags=["PS"])
    s["records"][0]["calls"][0][1] = "abc"
    out.append(("non_integer_PS_in_Integer_field", s))
    return out


def check_observed_malformed(st):
    ctx = st.ctx
    obs = {}
    for what, spec in observed_malformed_specs():
        text = uv.write_text(spec)
        p_in = os.path.join(st.wd, f"obs_{what}.vcf")
        with open(p_in, "w") as f:
            f.write(text)
        rc, out, exc, err = unphase_cli(ctx, p_in)
        ctx.tally(f"observed_malformed.{what}.{exc or 'ok'}")
        body = [l for l in out.split("\n") if l and not l.startswith("#")]
        obs[what] = {"exit": exc or "ok", "output_record": body[0] if body else None}
    ctx.extra["observed_malformed_inputs_no_verdict"] = obs


def settle_variant(st):
    """decide which variant of the record rule the implementation follows (all cases must agree with one)"""
    ctx = st.ctx
    if not st.l2_fail_cur:
        variant = "cur_rule (code as it is)" if st.l2_fail_fixed or not st.l2_cases else "cur_rule = fixed_rule on these inputs"
        bad = []
    elif not st.l2_fail_fixed:
        variant, bad = "fixed_rule (repaired rule)", []
    else:
        variant = "none"
        bad = st.l2_fail_cur if len(st.l2_fail_cur) <= len(st.l2_fail_fixed) else st.l2_fail_fixed
    ctx.extra["model_variant_matching_implementation"] = variant
    ctx.log(f"L2 record model variant: {variant} ({st.l2_cases} files; disagree with cur_rule {len(st.l2_fail_cur)}, "
            f"with fixed_rule {len(st.l2_fail_fixed)})")
    if bad:
        ctx.disagreements_checked += len(bad)
        ctx.l2_disagreement("Unphase.unphase_file (cur_rule | fixed_rule) = CLI records and exception class",
                            [{"spec": r["spec"], "exception": r["exc1"], "output": r["out1"][-800:]} for r in bad])


def report(st, sig, what, spec):
    n = st.reported.get(sig, 0)
    st.reported[sig] = n + 1
    if n < 2:
        st.ctx.violation(sig, what, {"kind": "spec", "spec": spec})


# ------------------------------------------------------------------------------------- phase stream
PHASE_NAME_POOL = ["S1", "S2", "S3", "NA12878", "HG002", "child", "mother", "father", "a", "B", "10", "2", "sample_1",
                   "sample_10", "x.1", "PS", "GT"]


def make_phase_payload(rng, kind=None):
    """one case of the phase stream. kind: 'reads' (read-based `whatshap phase`, 1-3 unrelated samples), 'trio'
    (`whatshap phase --ped`, with or without reads), 'poly' (`whatshap polyphase`, ploidy 3-4)."""
    from .. import synth
    kind = kind or rng.choice(["reads", "reads", "reads", "trio", "poly"])
    names = rng.sample(PHASE_NAME_POOL, 3)
    pay = {"kind": kind, "seed": rng.randrange(1 << 30), "nreads": rng.choice([15, 30, 60]),
           "info": rng.choice([".", "DP=10"]), "out_gz": rng.random() < 0.25, "prephased": False, "only_first": False,
           "ignore_rg": False}
    overrides = []
    if kind == "poly":
        k = rng.choice([3, 4])
        n = rng.choice([1, 1, 2])
        sc = synth.make_poly_scenario(rng, k, nsamples=n, nvars=rng.randint(5, 9), kinds=("snv",),
                                      sample_names=names[:n] if rng.random() < 0.5 else None)
        for s in sc.samples:
            for c in sc.chroms:
                for i in range(len(sc.variants[c])):
                    col = sc.haps[s][c][i]
                    x = rng.random()
                    if x < 0.2 and len(set(col)) > 1:
                        overrides.append([s, c, i, "/".join(map(str, sorted(col, reverse=True)))])   # descending
                    elif x < 0.25:
                        overrides.append([s, c, i, "/".join(["."] * k)])
        pay.update(rounds=[rng.choice(["PS", "HP"])], nreads=rng.choice([40, 80]))
    else:
        if kind == "trio":
            sc = synth.make_scenario(rng, nchrom=rng.choice([1, 2]), nsamples=3, nvars=rng.randint(4, 10),
                                     kinds=rng.choice([("snv",), ("snv", "ins", "del", "mnp")]), het_fraction=0.75,
                                     sample_names=names if rng.random() < 0.6 else ["father", "mother", "child"])
            fa, mo, ch = sc.samples
            for c in sc.chroms:
                sc.haps[ch][c], _ = synth.inherit(rng, sc.haps[fa][c], sc.haps[mo][c], recomb_prob=0.0)
            pay.update(with_reads=rng.random() < 0.5, rounds=[rng.choice(["PS", "HP"])])
        else:
            nsamples = rng.choice([1, 1, 2, 3])
            sc = synth.make_scenario(rng, nchrom=rng.choice([1, 1, 2]), nsamples=nsamples, nvars=rng.randint(4, 10),
                                     kinds=rng.choice([("snv",), ("snv", "ins", "del", "mnp")]), het_fraction=0.75,
                                     sample_names=names[:nsamples] if rng.random() < 0.5 else None)
            pay.update(prephased=rng.random() < 0.3, only_first=rng.random() < 0.3,
                       ignore_rg=(nsamples == 1 and rng.random() < 0.3),
                       rounds=rng.choice([["PS"], ["HP"], ["PS", "HP"], ["HP", "PS"], ["PS", "PS"]]))
        for s in sc.samples:
            for c in sc.chroms:
                for i in range(len(sc.variants[c])):
                    a, b = sc.haps[s][c][i]
                    x = rng.random()
                    if x < 0.12 and a != b:
                        overrides.append([s, c, i, "1/0"])
                    elif x < 0.16 and kind != "trio":
                        overrides.append([s, c, i, "./."])
                    elif x < 0.19 and kind != "trio":
                        overrides.append([s, c, i, "0/."])
        if not any(o[3] == "1/0" for o in overrides):
            hets = [(s, c, i) for s in sc.samples for c in sc.chroms for i in range(len(sc.variants[c]))
                    if sc.haps[s][c][i][0] != sc.haps[s][c][i][1] and not any(o[:3] == [s, c, i] for o in overrides)]
            if hets:
                s_, c_, i_ = rng.choice(hets)
                overrides.append([s_, c_, i_, "1/0"])
    pay["sc"] = sc.to_json()
    pay["overrides"] = [] if pay["prephased"] else overrides
    return pay


def run_phase_case(ctx, wd, tag, payload):
    """build the inputs, run `whatshap phase` / `polyphase` (possibly several rounds), then `whatshap unphase` on the
    original and on every phased file"""
    import gzip
    import random
    from .. import synth
    kind = payload.get("kind", "reads")
    rng = random.Random(payload["seed"])
    d = os.path.join(wd, tag)
    os.makedirs(d, exist_ok=True)
    ov = {(s, c, i): t for s, c, i, t in payload["overrides"]}
    extra = ['##INFO=<ID=DP,Number=1,Type=Integer,Description="Depth">'] if payload["info"] != "." else []
    if kind == "poly":
        sc = synth.PolyScenario.from_json(payload["sc"])
        reads = []
        for s in sc.samples:
            for c in sc.chroms:
                reads += synth.simulate_poly_reads(rng, sc, s, c, payload["nreads"], len_range=(120, 300))
        vcf = synth.write_poly_vcf(sc, os.path.join(d, "in.vcf"), gt_override=ov or None, extra_header=extra, info=payload["info"])
    else:
        sc = synth.Scenario.from_json(payload["sc"])
        reads = []
        for s in sc.samples:
            for c in sc.chroms:
                reads += synth.simulate_reads(rng, sc, s, c, payload["nreads"], len_range=(80, 220))
        phased = None
        if payload["prephased"]:
            phased = {s: {c: {i: sc.variants[c][0].pos + 1 for i in range(len(sc.variants[c]))
                              if sc.haps[s][c][i][0] != sc.haps[s][c][i][1] and (i % 3) != 2} for c in sc.chroms}
                      for s in sc.samples[:1]}
        vcf = synth.write_vcf(sc, os.path.join(d, "in.vcf"), phased=phased, gt_override=ov or None, extra_header=extra,
                              info=payload["info"])
    fasta = synth.write_fasta(sc, os.path.join(d, "ref.fa"))
    bam = synth.write_bam(sc, reads, os.path.join(d, "reads.bam"))
    steps = []
    cur = vcf
    for k, tagname in enumerate(payload["rounds"]):
        outp = os.path.join(d, f"phased{k}.vcf" + (".gz" if payload.get("out_gz") else ""))
        if kind == "poly":
            args = ["polyphase", "--ploidy", sc.ploidy, "--threads", "1", "-o", outp, "--reference", fasta, "--tag", tagname,
                    cur, bam]
        else:
            args = ["phase", "-o", outp, "--reference", fasta, "--tag", tagname]
            if payload.get("only_first") and len(sc.samples) > 1:
                args += ["--sample", sc.samples[0]]
            if payload.get("ignore_rg"):
                args += ["--ignore-read-groups"]
            if kind == "trio":
                fa, mo, ch = sc.samples
                ped = synth.write_ped(os.path.join(d, "trio.ped"), [(ch, fa, mo)])
                args += ["--ped", ped]
            args += [cur] + ([bam] if kind != "trio" or payload.get("with_reads") else [])
        rc, out, err = util.run_cli(ctx, args, timeout=600)
        if rc != 0:
            return {"error": f"whatshap {args[0]} failed rc={rc}: {err[-600:]}", "payload": payload}
        steps.append(outp)
        cur = outp
    files = [vcf] + steps
    res = {"payload": payload, "files": []}
    for k, p in enumerate(files):
        rc, out, exc, err = unphase_cli(ctx, p)
        up = os.path.join(d, f"u{k}.vcf")
        with open(up, "w") as f:
            f.write(out)
        text = gzip.open(p, "rt").read() if p.endswith(".gz") else open(p).read()
        res["files"].append({"path": p, "text": text, "upath": up, "utext": out, "exc": exc, "err": err[-2500:]})
    return res


def check_phase(st, payloads, label="phase", perturb=None):
    ctx = st.ctx
    if not payloads:
        return 0
    import pysam
    pysam.set_verbosity(0)
    base = st.counter
    st.counter += len(payloads)
    with ThreadPoolExecutor(max_workers=16) as ex:
        results = list(ex.map(lambda a: run_phase_case(ctx, st.wd, f"{label}{base + a[0]}", a[1]), enumerate(payloads)))
    cases, kept, nfail, crashed = [], [], 0, []
    nerr = 0
    for res in results:
        pl = res["payload"]
        ctx.tally(f"{label}.kind.{pl.get('kind', 'reads')}")
        ctx.tally(f"{label}.samples.{len(pl['sc']['samples'])}")
        if pl["sc"]["samples"][0] not in ("S1", "father"):
            ctx.tally(f"{label}.sample_names_random")
        for flag in ("out_gz", "prephased", "only_first", "ignore_rg", "with_reads"):
            if pl.get(flag):
                ctx.tally(f"{label}.{flag}")
        ctx.tally(f"{label}.rounds.{len(pl['rounds'])}")
        ctx.tally(f"{label}.overrides_descending", sum(1 for o in pl["overrides"] if "." not in o[3]))
        ctx.tally(f"{label}.overrides_missing", sum(1 for o in pl["overrides"] if "." in o[3]))
        if "error" in res:
            # the phasing command (not the command under test) failed: no case; counted, and fatal only if frequent
            nerr += 1
            ctx.tally(f"{label}.phase_command_failed")
            ctx.log("phase stream: " + res["error"][:300].replace("\n", " | "))
            continue
        files = res["files"]
        if perturb:
            files[-1]["utext"] = perturb(files[-1]["utext"])
            with open(files[-1]["upath"], "w") as f:
                f.write(files[-1]["utext"])
        orig = files[0]
        # totality on the files of this stream: a failing unphase run is reduced to the record it stopped at
        for k, f in enumerate(files):
            ctx.tally(f"{label}.unphase_runs")
            if f["exc"] is not None:
                nfail += 1
                ctx.tally(f"{label}.unphase_crashes")
                what = "the synthetic input of `whatshap phase`" if k == 0 else \
                    f"the output of `whatshap phase --tag {res['payload']['rounds'][k - 1]}`"
                crashed.append((res, k, f, what))
        if orig["exc"] is not None:
            continue
        _, r_orig = uv.parse_vcf(orig["path"], orig["text"], st.interner)
        _, u_orig = uv.parse_vcf(orig["upath"], orig["utext"], st.interner)
        for k, f in enumerate(files[1:]):
            ctx.count(("phase", orig["text"], k, tuple(res["payload"]["rounds"])), nontrivial=("|" in f["text"].split("#CHROM")[1]))
            ctx.tally(f"{label}.pairs")
            ctx.tally(f"{label}.tag.{res['payload']['rounds'][k]}")
            if f["exc"] is not None:
                continue
            _, r_ph = uv.parse_vcf(f["path"], f["text"], st.interner)
            _, u_ph = uv.parse_vcf(f["upath"], f["utext"], st.interner)
            nph = sum(1 for r in r_ph for c in r["calls"] if c["phased"])
            ctx.tally(f"{label}.phased_calls", nph)
            ctx.tally(f"{label}.phased_calls.{res['payload'].get('kind', 'reads')}", nph)
            ctx.tally(f"{label}.phased_calls.ploidy3+", sum(1 for r in r_ph for c in r["calls"] if c["phased"] and len(c["gt"]) > 2))
            cases.append(f"(({uv.recs_term(r_orig)}, {uv.recs_term(r_ph)}, ({uv.recs_term(u_orig)}, {uv.recs_term(u_ph)})) : pcase)")
            kept.append((res, k))
    if nerr > max(2, len(results) // 3):
        raise RuntimeError(f"harness: the phasing command failed in {nerr} of {len(results)} phase-stream cases")
    if crashed:
        nfail += reduce_phase_crashes(st, crashed)
    failing, errors = eval_checks("C13p", HEADER, PCHECKS, cases, shard=40)
    if errors:
        raise RuntimeError("coq evaluation failed: " + errors[0][1])
    for i in failing["after"]:
        res, k = kept[i]
        nfail += 1
        report_phase(st, "unphase:after-phase-differs",
                     "unphasing the file phased by whatshap gives other records than unphasing the original:\n"
                     + res["files"][0]["utext"].split("#CHROM")[1][:1500] + "\n--- vs ---\n"
                     + res["files"][k + 1]["utext"].split("#CHROM")[1][:1500], res["payload"])
    l2 = sorted(set(failing["L2rel"]) | set(failing["L2model"]))
    if l2:
        nfail += len(l2)
        ctx.disagreements_checked += len(l2)
        names = [n for n in ("L2rel", "L2model") if failing[n]]
        ctx.l2_disagreement("phase stream: rec_phase_rel(original, phased) / unphase_file cur_rule = CLI (" + ",".join(names) + ")",
                            [{"payload": kept[i][0]["payload"], "round": kept[i][1],
                              "phased": kept[i][0]["files"][kept[i][1] + 1]["text"].split("#CHROM")[1][:1200]} for i in l2])
    return nfail


def spec_from_vcf_line(header_line, line):
    """single-record spec (with this module's own header) from a record line of a phase-stream file"""
    cols = line.split("\t")
    samples = header_line.split("\t")[9:]
    s = uv.single_call_spec("0/1")
    s["contigs"] = [cols[0]]
    s["samples"] = samples
    s["formats"] = [["GT", "1", "String"], ["DP", "1", "Integer"], ["PS", "1", "Integer"], ["HP", ".", "String"],
                    ["PQ", "1", "Integer"], ["GQ", "1", "Integer"]]
    fixed = cols[:8]
    fixed[1] = int(fixed[1])
    fmt = [] if len(cols) < 9 or cols[8] == "." else cols[8].split(":")
    s["records"] = [{"fixed": fixed, "format": fmt, "calls": [c.split(":") for c in cols[9:]]}]
    s["profile"] = "phase-stream-record"
    return s


def reduce_phase_crashes(st, crashed):
    """unphase failed on a file of the phase stream: re-run the record it stopped at as a one-record file (evaluated
    and classified like the main stream); if that does not reproduce the failure, report the whole payload"""
    nfail = 0
    specs, back = [], []
    for res, k, f, what in crashed:
        lines = f["text"].rstrip("\n").split("\n")
        hdr = [l for l in lines if l.startswith("#CHROM")][0]
        body = [l for l in lines if not l.startswith("#")]
        nwritten = len([l for l in f["utext"].split("\n") if l and not l.startswith("#")])
        if nwritten < len(body):
            spec = spec_from_vcf_line(hdr, body[nwritten])
            if set(spec["records"][0]["format"]) <= {x[0] for x in spec["formats"]}:
                specs.append(spec)
                back.append((res, k, f, what, spec, body[nwritten]))
                continue
        report_phase(st, f"unphase:crash-other:{f['exc']}:{crash_site(f['err'])}:phase-stream",
                     f"`whatshap unphase` fails with {f['exc']} on {what}", res["payload"])
    seen, uniq = set(), []
    for sp in specs:
        t = uv.write_text(sp)
        if t not in seen:
            seen.add(t)
            uniq.append(sp)
    nfail += check_specs(st, uniq[:40], "phmin", depth=2)
    for res, k, f, what, spec, line in back:
        fmt = spec["records"][0]["format"]
        gts = [c[0] for c in spec["records"][0]["calls"]] if "GT" in fmt else []
        sig = line_signature(fmt, gts, f["exc"], crash_site(f["err"]))
        reproduced = st.min_cache.get(uv.write_text(spec))
        # also reported with the payload as replay, so that the finding is tied to a file whatshap itself wrote
        report_phase(st, sig if reproduced or reproduced is None else sig + ":phase-stream-only",
                     f"`whatshap unphase` exits with {f['exc']} (in {crash_site(f['err'])}) on {what}; it stopped at the "
                     f"record\n{line}", res["payload"])
    return nfail


def report_phase(st, sig, what, payload):
    n = st.reported.get(sig, 0)
    st.reported[sig] = n + 1
    if n < 2:
        st.ctx.violation(sig, what, {"kind": "phase", "payload": payload})


# ------------------------------------------------------------------------------------------- driver
CORPUS = [
    # the three inputs of finding F2 and shapes around them
    uv.single_call_spec("1"), uv.single_call_spec("0|1|."), uv.single_call_spec("0|1", fmt=["DP", "PS"], call=["7", "100"]),
    uv.single_call_spec("."), uv.single_call_spec("./."), uv.single_call_spec("0/."), uv.single_call_spec(".|1"),
    uv.single_call_spec("1|0"), uv.single_call_spec("1|0|1|0"), uv.single_call_spec(".|0|1"), uv.single_call_spec("1/0|0"),
    # phase tags next to genotypes without '|' (what `whatshap phase --tag HP` writes), descending unphased genotypes,
    # tag-only records, and records mixing phased and unphased samples
    uv.single_call_spec("0/1", tags=["HP"]), uv.single_call_spec("0/1", tags=["PS"]), uv.single_call_spec("0/1", tags=["PQ"]),
    uv.single_call_spec("1/0", tags=[]), uv.single_call_spec("1/0", tags=["HP"]), uv.single_call_spec("1/1/0", tags=["DP"]),
    uv.single_call_spec(None, tags=["PS"]), uv.single_call_spec(None, tags=["HP"]), uv.single_call_spec(None, tags=["PQ"]),
    uv.multi_call_spec(["GT", "PS"], [["1|0", "100"], ["1/0", "."]]),
    uv.multi_call_spec(["GT", "HP"], [["1/0", "100-2,100-1"], ["0/1", "."], ["1/1", "."]], nrec_before=1),
    uv.multi_call_spec(["GT", "DP", "PQ"], [["0/1", "3", "40"], ["./.", ".", "."]], nrec_before=2),
    uv.multi_call_spec(["GT"], [["1/0"], ["0|1"], ["1/0/0"]]),
    uv.multi_call_spec(["PS", "DP"], [["100", "3"], [".", "4"]], nrec_before=1),
    # FORMAT '.' (no keys at all) with one and with several samples
    uv.single_call_spec(None, tags=[]), uv.multi_call_spec([], [[], []]), uv.multi_call_spec([], [[], [], []], nrec_before=2),
    uv.with_layout(uv.single_call_spec(None, tags=[]), "PS"),
]


def perturbation():
    """WHVERIF_C13_PERTURB=<kind>: damage the implementation's output inside the harness (to see the check fail)"""
    kind = os.environ.get("WHVERIF_C13_PERTURB")
    if not kind:
        return None

    def f(text):
        lines = text.split("\n")
        for i, ln in enumerate(lines):
            if ln.startswith("#") or not ln:
                continue
            cols = ln.split("\t")
            if kind == "qual":
                cols[5] = "77"
            elif kind == "gt" and len(cols) > 9 and cols[4] != "." and re.match(r"^\d+/[01]\b", cols[9]):
                cols[9] = re.sub(r"^(\d+)/([01])", lambda m: f"{m.group(1)}/{1 - int(m.group(2))}", cols[9])
            elif kind == "phased" and len(cols) > 9:
                cols[9] = cols[9].replace("/", "|", 1)
            elif kind == "order" and len(cols) > 9 and re.match(r"^\d+/\d+", cols[9]):
                cols[9] = re.sub(r"^(\d+)/(\d+)", lambda m: f"{m.group(2)}/{m.group(1)}", cols[9])
            lines[i] = "\t".join(cols)
        return "\n".join(lines)
    return f


def run(ctx):
    rng = ctx.rng
    st = State(ctx)
    pert = perturbation()
    for s in CORPUS:
        s["profile"] = "corpus"
    # 1. corpus + exhaustive single-call space
    maxp = ctx.n(4, 6)
    ex = uv.exhaustive_specs(maxp)
    for s in ex:
        s["profile"] = "exhaustive"
    check_specs(st, CORPUS + ex, "ex", perturb=pert)
    ctx.extra["exhaustive_single_call_max_ploidy"] = maxp
    ctx.extra["exhaustive_single_call_files"] = len(ex)
    # 2. random files
    n = ctx.n(450, 5000)
    specs = [uv.gen_spec(rng) for _ in range(n)]
    for s in specs[:2]:
        ctx.sample({"input": uv.write_text(s)})
    for off in range(0, len(specs), 1500):
        check_specs(st, specs[off:off + 1500], "rnd", perturb=pert)
    # 2b. malformed stream (undeclared HP / PS / PQ): exception class only
    check_malformed(st, [uv.gen_malformed_spec(rng) for _ in range(ctx.n(60, 600))])
    check_observed_malformed(st)
    # 3. phase stream
    npay = ctx.n(14, 160)
    forced = ("reads", "trio", "trio", "poly", "poly", "poly")
    pays = [make_phase_payload(rng, kind) for kind in forced] + [make_phase_payload(rng) for _ in range(npay - len(forced))]
    check_phase(st, pays, perturb=pert if os.environ.get("WHVERIF_C13_PERTURB") == "order" else None)
    settle_variant(st)
    ctx.extra["observation_header_with_several_phasing_lines"] = {
        "files_where_second_application_changes_the_header_in_phasing_lines_only": st.obs_header_not_fixpoint,
        "example": st.obs_header_example,
        "note": "unphase_header removes only the first ##phasing line (break); modelled faithfully "
                "(C13_header_phasing_lines, C13_header_idempotent_refuted); not counted as a violation: the property "
                "text speaks about genotypes, HP/PS/PQ values and records"}
    ctx.extra["crash_signature_counts"] = st.crash_counts
    ctx.extra["violations_by_signature"] = st.reported


def replay(ctx, data):
    st = State(ctx)
    if data.get("kind") == "spec":
        check_specs(st, [data["spec"]], "replay")
        settle_variant(st)
    elif data.get("kind") == "phase":
        check_phase(st, [data["payload"]], "replay")
    else:
        run(ctx)
