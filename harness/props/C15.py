"""C15 — polyphase output obeys the input genotypes and forms contiguous blocks."""
import json
import os

from ..coqeval import term, Raw, Nat, eval_checks
from .. import polyphase_gen as G
from .. import synth, util

RULE = ("direct calls of the real step functions: force_genotypes on random threads/haplotypes/genotypes/cluster depths "
        "(ploidy 2-6, 2-5 alleles, undetermined alleles, alleles absent from the reads, shallow and deep (60-2500 reads) "
        "clusters); get_optimal_assignments (greedy branch on random link likelihoods incl. ties; ILP branch with random "
        "affiliations); permute_blocks; aggregate_results + compute_cut_positions for all six sensitivities, with and "
        "without border lists, plus free-standing (also unsorted) breakpoint lists; the real phase_single_individual "
        "under a tracer on matrix-level instances (k haplotypes with collapsed regions, uneven haplotype coverage, cold "
        "junctions, allele errors, wrong dosages / alleles in the VCF genotype, adjacent positions, optional pre-phasing) "
        "recording every call of force_genotypes / get_optimal_assignments / permute_blocks / integrate_sub_results / "
        "aggregate_results / compute_cut_positions (recursive sub-instances included), the same driver with a generated "
        "solver result (generated columns and breakpoints) for the component construction, and the real PhasedVcfWriter "
        "on its output; real `whatshap polyphase` runs on synthetic BAM+VCF (ploidy 2-6, multi-allelic SNVs, indels, "
        "two samples (sometimes only one of them a target: --sample), collapsed haplotypes, uneven coverage, wrong-dosage "
        "genotypes, fully and partially missing genotypes of target samples at read-covered variants inside blocks, "
        "homozygous calls, neighbouring positions with a cut between them, all -B values, --use-prephasing, "
        "--threads 1). A direct case is non-trivial if the step changes something (forcing needed / non-identity "
        "assignment / non-identity permutation / >= 1 sub-instance / >= 2 blocks or cuts); a CLI case if >= 2 variants "
        "are phased; distinct = distinct input.")
TRUSTED = [
    "modelled as envelopes, not verified: read clustering, the threading DP (haplothreader.cpp), the float arg-max in "
    "force_genotypes (scipy binom.pmf), link likelihoods, the ILP solver in get_optimal_assignments and the float "
    "thresholds of compute_cut_positions for sensitivities 2-4 - constrained only through the conformance of their outputs",
    "find_subinstances / AlleleMatrix.extractSubMatrix: only the shape of their output (distinct threads and variants, "
    "no shared cell) is checked on every traced call; it is a hypothesis of C15_sub_results_preserve",
    "find_breakpoints and the sort-and-merge of breakpoints in integrate_sub_results are not modelled: that a block's "
    "breakpoint positions are strictly increasing and inside the block is checked on every traced call and is a "
    "hypothesis of C15_aggregate_sorted_from_zero; hap_cuts / the HS tag (--include-haploid-sets) are out of scope",
    "haplotype matrices are handed to Coq column-wise and genotype dicts as allele vectors (transposition and dict "
    "expansion done by the harness)",
    "CLI level: the read-covered heterozygous variants of a sample are obtained with the real PhasedInputReader/VcfReader "
    "(allele detection is C06's subject); VCF files are parsed with pysam (harness/vcfabs.py)",
    "the writer model covers tag PS on records with distinct positions and fully called genotypes (C04/C09 own the writer)",
]
ASSUMPTIONS = [
    "every genotype handed to force_genotypes lists ploidy many alleles (create_genotype_list of a VCF whose calls have "
    "the requested ploidy; VcfReader raises PloidyError otherwise)",
    "--distrust-genotypes is not given; --threads 1; tag PS; no duplicate positions in the VCF",
    "C15_cuts_sorted_start_at_zero is stated for the breakpoint lists the pipeline produces: sorted by position and "
    "starting with the zero-confidence breakpoint at 0 (integrate_sub_results sorts each block's list, aggregate_results "
    "adds non-decreasing offsets and always emits (0, all, 0.0) first - C15_aggregate_sorted_from_zero); unsorted lists or "
    "lists without that first breakpoint are not reachable and are only used to compare model and code (L2), the spec "
    "`sorted, starts at 0` is not demanded of them",
]

HEADER = """From Coq Require Import ZArith List Bool Arith.
From WH.Model Require Import Polyphase.
Import ListNotations.
Open Scope Z_scope.
"""

SIG_UNDERFLOW = "force:likelihood-underflow"


# ------------------------------------------------------------------------------------------------ rendering
def L(items, ty):
    """typed Coq list of already rendered items (an empty list needs its type spelled out)"""
    items = list(items)
    return "[" + "; ".join(items) + "]" if items else f"(@nil ({ty}))"


def zl(l):
    return L((term(int(x)) for x in l), "Z")


def zcols(cols):
    return L((zl(c) for c in cols), "list Z")


def nlist(l):
    return L((term(Nat(int(x))) for x in l), "nat")


def ncols(ls):
    return L((nlist(l) for l in ls), "list nat")


def bps_term(bps):
    """[(pos, haps, conf)] -> list bp"""
    return L(("(" + term(Nat(int(p))) + ", " + term(bool(c == 0.0)) + ")" for p, _, c in bps), "nat * bool")


def cut_decisions(sens, bps, obs):
    """per-breakpoint decisions under which the model's loop (Polyphase.cuts_loop: skip a breakpoint at the position of the
    last cut, stop after the first cut for -B 0, always cut on confidence 0.0, never cut a non-zero confidence for -B 0/1,
    always for -B 5, free for -B 2..4) reproduces the observed cuts. Found by a depth-first search over the free decisions
    (search only - the verdict is Coq's evaluation of cuts_replay with these decisions). For sorted breakpoint lists the
    first branch succeeds; unsorted lists (not reachable from the pipeline, kept as a malformed stream) may need backtracking."""
    obs = list(obs)
    n = len(bps)

    def rec(i, cuts, decs):
        if cuts != obs[:len(cuts)]:
            return None
        if i == n:
            return decs if cuts == obs else None
        p, _, c = bps[i]
        if cuts and cuts[-1] == p:
            return rec(i + 1, cuts, decs + [False])
        if cuts and sens == 0:
            return decs if cuts == obs else None
        if c == 0.0 or sens >= 5:
            options = [True]
        elif sens <= 1:
            options = [False]
        else:
            options = [True, False] if len(cuts) < len(obs) and obs[len(cuts)] == p else [False]
        for d in options:
            r = rec(i + 1, cuts + [p] if d else cuts, decs + [d])
            if r is not None:
                return r
        return None
    decs = rec(0, [], []) or []
    return L((term(bool(d)) for d in decs), "bool")


def evaluate(name, checks, cases, shard=300):
    if not cases:
        return {k: [] for k in checks}
    failing, errors = eval_checks(name, HEADER, checks, cases, shard=shard)
    if errors:
        raise RuntimeError(f"coq evaluation failed ({name}): " + errors[0][1])
    return failing


# ------------------------------------------------------------------------------------------------ A: force
FORCE_CHECKS = {
    "L1": "fun c => let '(gs, cols, outs) := c in all_conform gs outs",
    "L2": "fun c => let '(gs, cols, outs) := c in in_force_envelope AlwaysCandidate gs cols outs",
}


def force_record(case, out):
    gs = [G.geno_vector({int(a): m for a, m in g.items()}) for g in case["genos"]]
    cols = G.transpose(case["haps"])
    outs = G.transpose(out)
    return gs, cols, outs


def check_force(ctx, items, label):
    """items: list of (case, out rows). Returns number of L1 failures."""
    cases, raw = [], []
    for case, out in items:
        if isinstance(out, tuple):
            ctx.violation("force:crash", f"force_genotypes raised {out[1]} on a well-formed input {json.dumps(case)[:400]}",
                          {"kind": "force", "case": case})
            continue
        gs, cols, outs = force_record(case, out)
        raw.append((case, gs, cols, outs))
        cases.append("(" + zcols(gs) + ", " + zcols(cols) + ", " + zcols(outs) + ")")
        forced = any(not G.conforms(g, c) for g, c in zip(gs, cols))
        ctx.count(("force", json.dumps(case, sort_keys=True)), nontrivial=forced)
        ctx.tally(f"force.{label}")
        ctx.tally(f"force.ploidy{case['k']}")
        if forced:
            ctx.tally("force.needs_forcing")
    failing = evaluate("C15force", FORCE_CHECKS, cases)
    for i in failing["L1"]:
        case, gs, cols, outs = raw[i]
        bad = [p for p in range(len(gs)) if not G.conforms(gs[p], outs[p])]
        under = bad and all(G.force_all_candidates_zero(case, p) for p in bad)
        p = bad[0] if bad else 0
        if under:
            ctx.violation(SIG_UNDERFLOW,
                          f"force_genotypes keeps a configuration that contradicts the genotype: position {p}, genotype "
                          f"{gs[p]}, threaded alleles {cols[p]}, result {outs[p]}; every candidate's likelihood is -inf "
                          f"(binom.pmf underflow, cluster depths {case['depths'][p]})",
                          {"kind": "force", "case": shrink_force(case, p)})
        else:
            ctx.violation("force:spec", f"force_genotypes result contradicts the genotype at position {p}: genotype {gs[p]}, "
                          f"given {cols[p]}, result {outs[p]}", {"kind": "force", "case": case})
    l2 = [raw[i] for i in failing["L2"]]
    if l2:
        ctx.disagreements_checked += len(l2)
        ctx.l2_disagreement("force_genotypes in Polyphase.force_pos_envelope (L2)",
                            [{"case": c, "out": o} for c, _, _, o in l2])
    return len(failing["L1"])


def shrink_force(case, pos):
    """keep only the failing position (positions are independent in force_genotypes)"""
    c = dict(case)
    c["path"] = [case["path"][pos]]
    c["haps"] = [[h[pos]] for h in case["haps"]]
    c["genos"] = [case["genos"][pos]]
    c["cov"] = [case["cov"][pos]]
    c["depths"] = [case["depths"][pos]]
    out = G.run_force(c)
    if isinstance(out, tuple) or G.conforms(G.geno_vector({int(a): m for a, m in c["genos"][0].items()}),
                                            [h[0] for h in out]):
        return case
    return c


# ------------------------------------------------------------------------------------------- B: assignments
ASSIGN_CHECKS = {
    "L1": "fun c => let '(k, affs, obs) := c in forallb (is_permb k) obs && Nat.eqb (length obs) (S (length affs))",
    "L2": ("fun c => let '(k, affs, obs) := c in match obs with first :: rest => "
           "natlist_eqb first (seq 0 k) && assignments_in_envelope first affs rest | [] => false end"),
}
ASSIGN_EXACT = {
    "L2": ("fun c => let '(k, bests, obs) := c in match assignments k bests with Some a => list_eqb natlist_eqb a obs "
           "| None => false end"),
}
ILP_CHECKS = {
    "L1": "fun c => let '(k, affs, obs) := c in forallb (is_permb k) obs && Nat.eqb (length obs) (S (length affs))",
}


def check_assign(ctx, items, label, ilp=False):
    """items: (k, [affected lists], observed assignments, bests or None, replay)"""
    cases, exact, raw, raw_exact = [], [], [], []
    for k, affs, obs, bests, rep in items:
        if isinstance(obs, tuple):
            ctx.violation("assign:crash", f"get_optimal_assignments raised {obs[1]}", rep)
            continue
        raw.append((k, affs, obs, rep))
        cases.append("(" + term(Nat(k)) + ", " + ncols(affs) + ", " + ncols(obs) + ")")
        ctx.count(("assign", k, json.dumps(affs), json.dumps(obs), ilp),
                  nontrivial=any(a != list(range(k)) for a in obs))
        ctx.tally(f"assign.{label}")
        if bests is not None:
            exact.append("(" + term(Nat(k)) + ", " + ncols(bests) + ", " + ncols(obs) + ")")
            raw_exact.append((k, affs, obs, rep))
    failing = evaluate("C15assign", ILP_CHECKS if ilp else ASSIGN_CHECKS, cases)
    for i in failing["L1"]:
        k, affs, obs, rep = raw[i]
        ctx.violation("assign:ilp-not-permutation" if ilp else "assign:not-permutation",
                      f"get_optimal_assignments returned a non-permutation: ploidy {k}, breakpoints {affs} -> {obs}", rep)
    l2 = [raw[i] for i in failing.get("L2", [])]
    if exact:
        f2 = evaluate("C15assignx", ASSIGN_EXACT, exact)
        l2 += [raw_exact[i] for i in f2["L2"]]
    if l2:
        ctx.disagreements_checked += len(l2)
        ctx.l2_disagreement("get_optimal_assignments = Polyphase.assignments (L2)",
                            [{"k": k, "affected": a, "impl": o} for k, a, o, _ in l2])


def python_bests(lllh):
    """the arg-max key per breakpoint with the code's own tie rule (first maximal key in dict order)"""
    return [list(max(d, key=d.get)) for d in lllh]


# ---------------------------------------------------------------------------------------------- C: permute
PERMUTE_CHECKS = {
    "L1": "fun c => let '(k, cols, bps, perms, outs) := c in all2 same_mset cols outs",
    "L2": "fun c => let '(k, cols, bps, perms, outs) := c in ocols_eqb (permute_blocks_cols k cols bps perms) (Some outs)",
}


def check_permute(ctx, items, label):
    """items: (k, haps rows, bp positions, perms, out rows, replay)"""
    cases, raw = [], []
    for k, haps, bps, perms, out, rep in items:
        if isinstance(out, tuple):
            ctx.violation("permute:crash", f"permute_blocks raised {out[1]}", rep)
            continue
        n = len(haps[0]) if haps else 0
        cols, outs = G.transpose(haps, n), G.transpose(out, n)
        raw.append((k, cols, bps, perms, outs, rep))
        cases.append("(" + ", ".join([term(Nat(k)), zcols(cols), nlist(bps), ncols(perms), zcols(outs)]) + ")")
        ctx.count(("permute", json.dumps([haps, bps, perms])), nontrivial=any(p != list(range(k)) for p in perms))
        ctx.tally(f"permute.{label}")
    failing = evaluate("C15permute", PERMUTE_CHECKS, cases)
    for i in failing["L1"]:
        k, cols, bps, perms, outs, rep = raw[i]
        ctx.violation("permute:column-multiset", f"permute_blocks changed the alleles of a position: {cols} -> {outs} "
                      f"with breakpoints {bps}, assignments {perms}", rep)
    l2 = [raw[i] for i in failing["L2"]]
    if l2:
        ctx.disagreements_checked += len(l2)
        ctx.l2_disagreement("permute_blocks = Polyphase.permute_blocks_cols (L2)",
                            [{"k": k, "cols": c, "bps": b, "perms": p, "impl": o} for k, c, b, p, o, _ in l2])


# ------------------------------------------------------------------------------------- D: aggregate and cuts
AGG_CHECKS = {
    "L1": ("fun c => let '(borders, blocks, ocols, obps, sens, cuts, decs) := c in "
           "nondecN (map fst obps) && match obps with (O, true) :: _ => true | _ => false end && cuts_okb cuts"),
    "L2": ("fun c => let '(borders, blocks, ocols, obps, sens, cuts, decs) := c in "
           "let r := aggregate borders blocks in cols_eqb (fst r) ocols && "
           "list_eqb (fun a b => Nat.eqb (fst a) (fst b) && Bool.eqb (snd a) (snd b)) (snd r) obps && "
           "cuts_replay sens decs obps cuts && cuts_in_envelope sens obps cuts"),
}
CUTS_CHECKS = {
    "L1": ("fun c : bool * nat * list bp * list nat * list bool => let '(wf, sens, bps, cuts, decs) := c in "
           "if wf then cuts_okb cuts else true"),
    "L2": ("fun c : bool * nat * list bp * list nat * list bool => let '(wf, sens, bps, cuts, decs) := c in "
           "cuts_replay sens decs bps cuts && (if wf then cuts_in_envelope sens bps cuts else true)"),
}


def check_aggregate(ctx, items, label):
    """items: (case dict with blocks/borders/sens, result dict haps/bps/cuts, replay)"""
    cases, raw = [], []
    for case, res, rep in items:
        k = case["k"]
        blocks = L(("(" + zcols(G.transpose(b["haps"])) + ", " + bps_term(b["bps"]) + ")"
                    for b in case["blocks"]), "blockres")
        n = len(res["haps"][0]) if res["haps"] else 0
        ocols = G.transpose(res["haps"], n)
        cases.append("(" + ", ".join([nlist(case["borders"] or []), blocks, zcols(ocols), bps_term(res["bps"]),
                                      term(Nat(case["sens"])), nlist(res["cuts"]),
                                      cut_decisions(case["sens"], res["bps"], res["cuts"])]) + ")")
        raw.append((case, res, rep))
        ctx.count(("aggregate", json.dumps(case, sort_keys=True)), nontrivial=len(case["blocks"]) >= 2 or len(res["cuts"]) >= 2)
        ctx.tally(f"aggregate.{label}")
        ctx.tally(f"cuts.sens{case['sens']}")
    failing = evaluate("C15agg", AGG_CHECKS, cases)
    for i in failing["L1"]:
        case, res, rep = raw[i]
        ctx.violation("cuts:not-sorted-from-zero", f"breakpoints/cuts of aggregated block results are not sorted from 0: "
                      f"breakpoints {[(p, c) for p, _, c in res['bps']]} cuts {res['cuts']}", rep)
    l2 = [raw[i] for i in failing["L2"]]
    if l2:
        ctx.disagreements_checked += len(l2)
        ctx.l2_disagreement("aggregate_results / compute_cut_positions = Polyphase.aggregate / compute_cuts envelope (L2)",
                            [{"case": c, "impl": r} for c, r, _ in l2])


def check_cuts(ctx, items, label):
    """items: (wellformed, sens, bps, cuts, replay)"""
    cases, raw = [], []
    for wf, sens, bps, cuts, rep in items:
        cases.append("(" + ", ".join([term(bool(wf)), term(Nat(sens)), bps_term(bps), nlist(cuts),
                                      cut_decisions(sens, bps, cuts)]) + ")")
        raw.append((wf, sens, bps, cuts, rep))
        ctx.count(("cuts", sens, json.dumps(bps)), nontrivial=len(bps) >= 2)
        ctx.tally(f"cuts.{label}")
        ctx.tally(f"cuts.sens{sens}")
    failing = evaluate("C15cuts", CUTS_CHECKS, cases)
    for i in failing["L1"]:
        wf, sens, bps, cuts, rep = raw[i]
        ctx.violation("cuts:not-sorted-from-zero", f"compute_cut_positions(-B {sens}) on sorted breakpoints "
                      f"{[(p, c) for p, _, c in bps]} gives {cuts}", rep)
    l2 = [raw[i] for i in failing["L2"]]
    if l2:
        ctx.disagreements_checked += len(l2)
        ctx.l2_disagreement("compute_cut_positions in Polyphase.compute_cuts envelope (L2)",
                            [{"sens": s, "bps": b, "impl": c} for _, s, b, c, _ in l2])


# -------------------------------------------------------------------------------------------- E: integrate
INTEGRATE_CHECKS = {
    "L1": ("fun c => let '(k, n, cols, subs, outs, bps) := c in "
           "all2 (fun a b => memZ undet b || same_mset a b) cols outs"),
    "L2": ("fun c => let '(k, n, cols, subs, outs, bps) := c in ocols_eqb (integrate cols subs) (Some outs) && "
           "forallb (sub_wfb k n) subs && subs_disjointb subs && strictly_incN bps && forallb (fun p => (p <? n)%nat) bps"),
}


def check_integrate(ctx, events, label, rep):
    cases, raw = [], []
    for e in events:
        k, n = e["k"], e["n"]
        cols, outs = G.transpose(e["haps"], n), G.transpose(e["out"], n)
        subs = L(("(" + nlist(s["threads"]) + ", " + nlist(s["snps"]) + ", " + zcols(s["cols"]) + ")"
                  for s in e["subs"]), "subres")
        cases.append("(" + ", ".join([term(Nat(k)), term(Nat(n)), zcols(cols), subs, zcols(outs),
                                      nlist([p for p, _, _ in e["bps"]])]) + ")")
        raw.append(e)
        ctx.count(("integrate", json.dumps([e["haps"], e["subs"]])), nontrivial=len(e["subs"]) >= 1)
        ctx.tally(f"integrate.{label}")
        ctx.tally("integrate.subinstances", len(e["subs"]))
    failing = evaluate("C15integ", INTEGRATE_CHECKS, cases)
    for i in failing["L1"]:
        e = raw[i]
        ctx.violation("integrate:column-multiset", f"integrate_sub_results changed the alleles of a position: "
                      f"{G.transpose(e['haps'], e['n'])} -> {G.transpose(e['out'], e['n'])} (sub-instances {e['subs']})", rep)
    l2 = [raw[i] for i in failing["L2"]]
    if l2:
        ctx.disagreements_checked += len(l2)
        ctx.l2_disagreement("integrate_sub_results = Polyphase.integrate, sub-instance shape (L2)",
                            [{k: e[k] for k in ("k", "n", "haps", "subs", "out", "bps")} for e in l2])


# ------------------------------------------------------------------- F: phase_single_individual + writer
INDIV_CHECKS = {
    "L1": ("fun c => let '(acc, cuts, comps, cols, genos, srs, recs, outs) := c in "
           "all_conform genos cols && sample_okb (map (fun a => a + 1) acc) (obs_of_model recs outs)"),
    "L2": ("fun c => let '(acc, cuts, comps, cols, genos, srs, recs, outs) := c in "
           "match components acc cuts with "
           "| Some m => forallb (fun kv => match lookup m (fst kv) with Some v => Z.eqb v (snd kv) | None => false end) comps "
           "            && forallb (fun kv => memZ (fst kv) (map fst comps)) m "
           "| None => false end && "
           "list_eqb (fun a b => Z.eqb (fst a) (fst b) && col_eqb (snd a) (snd b)) (phases_of acc cols) srs && "
           "match sample_out acc cols cuts recs with "
           "| Some mo => list_eqb (fun a b => Z.eqb (fst a) (fst b) && rawcall_eqb (snd a) (snd b)) "
           "               (map (fun x : Z * call => (fst x, (fst (fst (snd x)), "
           "                                       snd (fst (snd x)), snd (snd x)))) mo) outs "
           "| None => false end"),
}


def optz(x):
    return "(@None Z)" if x is None else f"(Some {term(int(x))})"


def call_term(gt, phased, ps):
    return "(" + zl(gt) + ", " + term(bool(phased)) + ", " + optz(ps) + ")"


def check_individual(ctx, items, label):
    """items: dict(acc, cuts, comps, cols, genos, srs, recs, outs, rep, deep)"""
    cases, raw = [], []
    for it in items:
        comps = L(("(" + term(int(a)) + ", " + term(int(b)) + ")" for a, b in sorted(it["comps"].items())), "Z * Z")
        srs = L(("(" + term(int(p)) + ", " + zl(c) + ")" for p, c in it["srs"]), "Z * list Z")
        recs = L(("(" + term(int(p)) + ", " + zl(g) + ", " + optz(ps) + ")" for p, g, ps in it["recs"]), "inrec")
        outs = L(("(" + term(int(p)) + ", " + call_term(*c) + ")" for p, c in it["outs"]), "Z * rawcall")
        cases.append("(" + ", ".join([zl(it["acc"]), nlist(it["cuts"]), comps, zcols(it["cols"]),
                                      zcols(it["genos"]), srs, recs, outs]) + ")")
        raw.append(it)
        nph = sum(1 for _, c in it["outs"] if c[1])
        ctx.count(("indiv", json.dumps(it["rep"], sort_keys=True, default=str)), nontrivial=nph >= 2)
        ctx.tally(f"individual.{label}")
        ctx.tally("individual.phased_calls", nph)
        acc_, undet_ = it["acc"], [(-1 in c) for c in it["cols"]]
        nadj = sum(1 for i in G.adjacent_pairs(acc_) if (i + 1) in it["cuts"] and not undet_[i] and not undet_[i + 1])
        ctx.tally("individual.adjacent_positions_with_cut_between", nadj)
        ctx.tally("individual.phase_sets", len({c[2] for _, c in it["outs"] if c[1]}))
    failing = evaluate("C15indiv", INDIV_CHECKS, cases, shard=100)
    for i in failing["L1"]:
        it = raw[i]
        badg = [(p, g, c) for p, g, c in zip(it["acc"], it["genos"], it["cols"]) if not G.conforms(g, c)]
        if badg and it.get("deep"):
            sig, what = SIG_UNDERFLOW, (f"phase_single_individual returns alleles {badg[0][2]} for genotype {badg[0][1]} at "
                                        f"position {badg[0][0]} (deep pile-up showing alleles absent from the genotype)")
        elif badg:
            sig, what = "pipeline:genotype", f"solver result contradicts the genotypes: {badg[:3]}"
        else:
            sig, what = "components:intervals", (f"phase sets are not intervals named by their first variant or a call "
                                                 f"breaks the genotype clause: accessible {it['acc']} cuts {it['cuts']} "
                                                 f"output {it['outs']}")
        ctx.violation(sig, what, it["rep"])
    l2 = [raw[i] for i in failing["L2"]]
    if l2:
        ctx.disagreements_checked += len(l2)
        ctx.l2_disagreement("phase_single_individual components/superreads + PhasedVcfWriter = Polyphase.sample_out (L2)",
                            [{k: it[k] for k in ("acc", "cuts", "comps", "cols", "srs", "recs", "outs")} for it in l2])


def drive_individual(ctx, inst, wd, tag, stub=None):
    """run the real phase_single_individual (+ writer) on a matrix instance; returns (events, item for check_individual)"""
    from .. import vcfabs
    ev, comps, sr, acc, superreads = G.run_individual(inst, stub=stub)
    top = [e for e in ev if e["kind"] == "solve_top"]
    cuts = [e for e in ev if e["kind"] == "cuts"][-1]["cuts"]
    if stub is not None:
        rows = stub[0]
        gmap = dict(zip(inst["positions"], inst["genos"]))
        genos = [list(gmap[p]) for p in acc]
    else:
        rows = top[-1]["haps"]
        genos = [G.geno_vector(g) for g in top[-1]["genos"]]
    cols = G.transpose(rows, len(acc))
    in_path = os.path.join(wd, f"{tag}.in.vcf")
    out_path = os.path.join(wd, f"{tag}.out.vcf")
    recs = G.write_instance_vcf(inst, in_path)
    G.run_writer(in_path, out_path, superreads, comps, inst["k"])
    outv = vcfabs.parse_vcf(out_path)
    outs = []
    for r in outv.records:
        c = r.calls[0]
        gt = [(-1 if a is None else a) for a in (c.gt or ())]
        outs.append((r.pos, (gt, c.phased, c.ps)))
    item = dict(acc=acc, cuts=cuts, comps=comps, cols=cols, genos=genos, srs=sorted(sr.items()), recs=recs, outs=outs,
                rep={"kind": "individual", "inst": inst, "stub": stub}, deep=inst.get("deep", False))
    return ev, item


def dispatch_events(ctx, events, rep, label, buckets):
    for e in events:
        kd = e["kind"]
        if kd == "force":
            case = {k: e[k] for k in ("k", "path", "haps", "genos", "cov", "depths", "err")}
            case["genos"] = [{int(a): m for a, m in g.items()} for g in case["genos"]]
            buckets["force"].append((json.loads(json.dumps(case)), e["out"]))
        elif kd == "assign":
            (buckets["ilp"] if e["ilp"] else buckets["assign"]).append((e["k"], [h for _, h in e["bps"]], e["out"], None, rep))
        elif kd == "permute":
            buckets["permute"].append((e["k"], e["haps"], e["bps"], e["perms"], e["out"], rep))
        elif kd == "integrate":
            buckets["integrate"].append(e)
        elif kd == "aggregate":
            case = dict(k=e["k"], blocks=e["blocks"], borders=e["borders"], sens=0)
            buckets["aggregate"].append((case, dict(haps=e["out_haps"], bps=e["out_bps"], cuts=[0]), rep, True))
        elif kd == "cuts":
            wf = bool(e["bps"]) and e["bps"][0][0] == 0 and e["bps"][0][2] == 0.0 and \
                all(a[0] <= b[0] for a, b in zip(e["bps"], e["bps"][1:]))
            buckets["cuts"].append((wf, e["sens"], e["bps"], e["cuts"], rep))


AGG_ONLY_CHECKS = {
    "L1": ("fun c => let '(borders, blocks, ocols, obps) := c in "
           "nondecN (map fst obps) && match obps with (O, true) :: _ => true | _ => false end"),
    "L2": ("fun c => let '(borders, blocks, ocols, obps) := c in "
           "let r := aggregate borders blocks in cols_eqb (fst r) ocols && "
           "list_eqb (fun a b => Nat.eqb (fst a) (fst b) && Bool.eqb (snd a) (snd b)) (snd r) obps"),
}


def check_aggregate_traced(ctx, items, label):
    cases, raw = [], []
    for case, res, rep, _ in items:
        k = case["k"]
        blocks = L(("(" + zcols(G.transpose(b["haps"])) + ", " + bps_term(b["bps"]) + ")"
                    for b in case["blocks"]), "blockres")
        n = len(res["haps"][0]) if res["haps"] else 0
        cases.append("(" + ", ".join([nlist(case["borders"] or []), blocks, zcols(G.transpose(res["haps"], n)),
                                      bps_term(res["bps"])]) + ")")
        raw.append((case, res, rep))
        ctx.count(("aggregate-traced", json.dumps(case, sort_keys=True)), nontrivial=len(case["blocks"]) >= 2)
        ctx.tally(f"aggregate.{label}")
    failing = evaluate("C15aggt", AGG_ONLY_CHECKS, cases)
    for i in failing["L1"]:
        case, res, rep = raw[i]
        # inside the recursion with a border list the first breakpoint may be missing only if borders are given
        ctx.violation("aggregate:not-sorted-from-zero", f"aggregated breakpoints are not sorted from 0: "
                      f"{[(p, c) for p, _, c in res['bps']]}", rep)
    l2 = [raw[i] for i in failing["L2"]]
    if l2:
        ctx.disagreements_checked += len(l2)
        ctx.l2_disagreement("aggregate_results = Polyphase.aggregate (L2, traced)", [{"case": c, "impl": r} for c, r, _ in l2])


# -------------------------------------------------------------------------------------------------- G: CLI
CLI_CHECKS = {
    "L1": ("fun c => let '(samples, untouched, fin, fout) := c in "
           "forallb (fun s => sample_okb (fst s) (snd s)) samples && "
           "forallb (fun u => untouched_okb (fst u) (snd u)) untouched && frame_okb fin fout"),
}


CLI_DISTRUST_CHECKS = {
    # with --distrust-genotypes the genotype clause is not demanded; blocks, untouched samples and the frame are
    "L1": ("fun c => let '(samples, untouched, fin, fout) := c in "
           "forallb (fun s : list Z * list obs => intervals_okb (fst s) (phased_pairs (snd s))) samples && "
           "forallb (fun u => untouched_okb (fst u) (snd u)) untouched && frame_okb fin fout"),
}


def make_cli_spec(rng, ploidy=None, deep=False, adjacent=False):
    k = ploidy or rng.choice([3, 4])
    if adjacent:
        return dict(k=rng.choice([2, 3]), nsamples=1, nvars=rng.randint(6, 9), seed=rng.randrange(1 << 30),
                    sens=rng.randint(1, 5), prephase=False, reference=False, deep=False, adjacent=True,
                    nreads=rng.randint(10, 16) * 3)
    if deep:
        return dict(k=2, nsamples=1, nvars=5, seed=rng.randrange(1 << 30), sens=4, prephase=False, reference=False,
                    deep=True, nreads=720)
    spec = dict(k=k, nsamples=rng.choice([1, 2, 2]), nvars=rng.choice([1, 2, 3] + list(range(8, 17)) * 2),
                seed=rng.randrange(1 << 30), sens=rng.randrange(6), prephase=rng.random() < 0.4,
                reference=rng.random() < 0.3, deep=False, nreads=rng.randint(14, 30) * k,
                only_first_sample=rng.random() < 0.4)
    spec.update(draw_cli_options(rng))
    return spec


SAMPLE_NAMES = [["S1", "S2"], ["b", "a"], ["sample10", "sample2"], ["NA1x", "NA1"], ["mother", "child"]]
CHROM_NAMES = [["chrA", "chrB"], ["10", "2"], ["chrB", "chrA"]]


def draw_cli_options(rng):
    """every option of `whatshap polyphase` that touches the phased output, and the shapes of the input files"""
    return dict(
        threads=rng.choice([1, 1, 1, 2, 3]),
        tag=rng.choice(["PS", "PS", "PS", "HP"]),
        haploid_sets=rng.random() < 0.2,
        nchrom=rng.choice([1, 1, 2]),
        one_chromosome=rng.random() < 0.35,          # --chromosome <first>: the other chromosome passes through
        ignore_rg=rng.random() < 0.3,                # applied only with a single (target) sample
        drop_rg=rng.random() < 0.5,                  # with --ignore-read-groups: BAM without RG header/tags
        only_snvs=rng.random() < 0.2,
        no_mav=rng.random() < 0.2,
        min_overlap=rng.choice([2, 2, 2, 1, 3, 4]),
        mapq=rng.choice([None, None, 0, 30]),
        lowq=rng.random() < 0.5,                     # a fifth of the reads with mapping quality 5 or 25
        nbams=rng.choice([1, 1, 2]),
        multi_rg=rng.random() < 0.4,                 # two read groups per sample
        names=rng.randrange(len(SAMPLE_NAMES)),
        chrom_names=rng.randrange(len(CHROM_NAMES)),
        gz_in=rng.random() < 0.2,
        out_mode=rng.choice(["file", "file", "file", "gz", "stdout"]),
        monomorphic=rng.random() < 0.3,              # records without ALT between the variants
        hom_prephased=rng.random() < 0.5,            # with pre-phasing: homozygous calls written a|a|a with PS, too
    )


def build_cli_inputs(spec, wd):
    import random
    rng = random.Random(spec["seed"])
    k = spec["k"]
    if spec.get("adjacent"):
        # two heterozygous SNVs on directly neighbouring reference positions p, p+1; every read ends after p or starts
        # at p+1, so the variants are read-covered but never linked: a phase-set cut exactly between them (-B >= 1)
        sc = synth.make_poly_scenario(rng, k, nsamples=1, nvars=spec["nvars"], kinds=("snv",), multiallelic_fraction=0.3,
                                      collapse_prob=0, het_fraction=1.0)
        vs = sc.variants["chrA"]
        cols = sc.haps["S1"]["chrA"]
        j = rng.randint(1, len(vs) - 3)                       # variant j at p, new variant at p + 1
        p = vs[j].pos
        ref = sc.ref["chrA"]
        alt = rng.choice([b for b in synth.BASES if b != ref[p + 1]])
        vs.insert(j + 1, synth.PolyVariant(p + 1, ref[p + 1], [alt], "snv"))
        while True:
            col = tuple(rng.randrange(2) for _ in range(k))
            if len(set(col)) > 1:
                break
        cols.insert(j + 1, col)
        reads = []
        L = len(ref)
        for n in range(spec["nreads"]):
            h = n % k
            tv = [synth.Variant(v.pos, v.ref, v.alts[c[h] - 1] if c[h] > 0 else v.alts[0], v.kind) for v, c in zip(vs, cols)]
            ta = [0 if c[h] == 0 else 1 for c in cols]
            if n % 2 == 0:
                lo, hi = rng.randint(0, max(0, vs[j - 1].pos - 5)), p + 1          # left group: ..., p
            else:
                lo, hi = p + 1, rng.randint(min(L - 1, vs[j + 2].pos + 5), L - 1)   # right group: p+1, ...
            while lo < hi and not synth.legal_boundary([v for v in tv if v.pos not in (p, p + 1)], lo):
                lo += 1
            seq, cig = synth.hap_walk(ref, tv, ta, lo, hi)
            reads.append(dict(name=f"adj{n}", sample="S1", chrom="chrA", start=lo, end=hi, cigar=cig, seq=seq, qual=30,
                              hap=h, flag=0))
        override, planted, phased = {}, set(), None
    elif spec["deep"]:
        sc = synth.make_poly_scenario(rng, k, nsamples=1, nvars=spec["nvars"], kinds=("snv",), multiallelic_fraction=1.0,
                                      collapse_prob=0, het_fraction=1.0)
        cols = sc.haps["S1"]["chrA"]
        cols[2] = tuple([2] * k)
        override = {("S1", "chrA", 2): "/".join(["0"] * (k - 1) + ["1"])}
        reads = synth.simulate_poly_reads(rng, sc, "S1", "chrA", spec["nreads"], len_range=(300, 600))
        planted = {("S1", "chrA", sc.variants["chrA"][2].pos + 1)}
        phased = None
    else:
        nchrom = spec.get("nchrom") or rng.choice([1, 1, 2])
        sc = synth.make_poly_scenario(rng, k, nsamples=spec["nsamples"], nvars=spec["nvars"], nchrom=nchrom,
                                      kinds=("snv", "snv", "ins", "del"),
                                      sample_names=SAMPLE_NAMES[spec.get("names", 0)][:spec["nsamples"]],
                                      chrom_names=CHROM_NAMES[spec.get("chrom_names", 0)][:nchrom])
        override, planted, reads = {}, set(), []
        for s in sc.samples:
            for c in sc.chroms:
                n = len(sc.variants[c])
                # wrong dosage in the VCF for a few heterozygous sites (the reads follow the true haplotypes)
                for i in range(n):
                    col = sc.haps[s][c][i]
                    if len(set(col)) > 1 and rng.random() < 0.15:
                        g = sorted(col)
                        g[rng.randrange(k)] = rng.choice(sorted(set(col)))
                        if len(set(g)) > 1:
                            override[(s, c, i)] = "/".join(map(str, sorted(g)))
                # calls without a genotype at read-covered variants INSIDE the chromosome (neighbours on both sides keep
                # their genotype, so the variant would sit inside a block): fully missing and partially missing (the
                # remaining alleles heterozygous, '.' not at the end) - they must pass through untouched
                if n >= 4:
                    inner = list(range(1, n - 1))
                    rng.shuffle(inner)
                    picks = inner[:2] + [i for i in inner[2:] if rng.random() < 0.08]
                    for j, i in enumerate(picks):
                        if j % 2 == 0:
                            override[(s, c, i)] = "/".join(["."] * k)
                        else:
                            g = [str(a) for a in sc.haps[s][c][i]]
                            g[rng.randrange(max(1, k - 1))] = "."
                            override[(s, c, i)] = "/".join(g)
                weights = [rng.choice([1, 1, 2, 3]) for _ in range(k)]
                L = len(sc.ref[c])
                hot = [(0, L // 3, 3.0), (L // 3, 2 * L // 3, 0.4), (2 * L // 3, L, 2.0)] if rng.random() < 0.5 else None
                nr = spec["nreads"] if not (len(sc.samples) > 1 and s == sc.samples[-1] and rng.random() < 0.15) else 0
                reads += synth.simulate_poly_reads(rng, sc, s, c, nr, hap_weights=weights, hotspots=hot)
        if spec.get("lowq"):
            for r in reads:
                if rng.random() < 0.2:
                    r["mapq"] = rng.choice([5, 25])
        phased = None
        if spec["prephase"]:
            phased = {}
            for s in sc.samples:
                phased[s] = {}
                for c in sc.chroms:
                    n = len(sc.variants[c])
                    d = {}
                    i = 0
                    while i < n:
                        j = min(n, i + rng.randint(2, 7))
                        ps = sc.variants[c][i].pos + 1
                        for q in range(i, j):
                            col = sc.haps[s][c][q]
                            het_ = len(set(col)) > 1 or spec.get("hom_prephased")
                            if het_ and (s, c, q) not in override and rng.random() < 0.8:
                                d[q] = ps
                        i = j
                    phased[s][c] = d
    vcf = os.path.join(wd, "in.vcf")
    bam = os.path.join(wd, "in.bam")
    synth.write_poly_vcf(sc, vcf, phased=phased, gt_override=override or None,
                         extra_format=("DP", '##FORMAT=<ID=DP,Number=1,Type=Integer,Description="Depth">',
                                       lambda s, c, i: str(7 + i)), info="NS=2")
    # info header for NS
    txt = open(vcf).read().replace("##FORMAT=<ID=GT", '##INFO=<ID=NS,Number=1,Type=Integer,Description="n">\n##FORMAT=<ID=GT', 1)
    open(vcf, "w").write(txt)
    if spec.get("monomorphic"):
        # records without ALT allele (the writer skips them; the reader never sees them) 3 bases after some SNVs
        lines = open(vcf).read().split("\n")
        out_lines = []
        fmt_has_ps = phased is not None
        for ln in lines:
            out_lines.append(ln)
            f = ln.split("\t")
            if len(f) > 9 and not ln.startswith("#") and len(f[3]) == 1 and len(f[4]) == 1 and rng.random() < 0.4:
                pos0 = int(f[1]) - 1 + 3
                call = "/".join(["0"] * k) + (":." if fmt_has_ps else "") + ":5"
                out_lines.append("\t".join([f[0], str(pos0 + 1), ".", sc.ref[f[0]][pos0], ".", ".", "PASS", "NS=2", f[8]]
                                           + [call] * len(sc.samples)))
        open(vcf, "w").write("\n".join(out_lines))
    if not reads:
        reads = synth.simulate_poly_reads(rng, sc, sc.samples[0], sc.chroms[0], 4)
    single = len(sc.samples) == 1 or spec.get("only_first_sample")
    ignore_rg = bool(spec.get("ignore_rg") and single)
    parts = [reads]
    if spec.get("nbams", 1) == 2 and len(reads) >= 2:
        a = [r for i, r in enumerate(reads) if i % 3 != 0]
        parts = [a, [r for i, r in enumerate(reads) if i % 3 == 0]]
    bams = []
    for bi, part in enumerate(parts):
        bpath = os.path.join(wd, f"in{bi}.bam")
        synth.write_bam(sc, part, bpath, read_groups=not (ignore_rg and spec.get("drop_rg")),
                        rg_per_sample=2 if spec.get("multi_rg") else 1)
        bams.append(bpath)
    vcf_arg = vcf
    if spec.get("gz_in"):
        import pysam
        vcf_arg = vcf + ".gz"
        pysam.tabix_compress(vcf, vcf_arg, force=True)
    ref = None
    if spec["reference"]:
        ref = synth.write_fasta(sc, os.path.join(wd, "ref.fa"))
    return sc, vcf, vcf_arg, bams, ref, planted, ignore_rg


def accessible_positions(vcf, bams, ref, ploidy, targets=None, chromosomes=None, ignore_rg=False, only_snvs=False,
                         mav=True, min_overlap=2, mapq=20):
    """{(chrom, sample): sorted 0-based positions of the read-covered heterozygous variants, or None if polyphase does
    not process the sample on that chromosome} - the preprocessing of run_polyphase with the real readers."""
    from whatshap.vcf import VcfReader
    from whatshap.cli import PhasedInputReader
    from whatshap.core import NumericSampleIds
    from copy import deepcopy
    out = {}
    with PhasedInputReader(list(bams), ref, NumericSampleIds(), ignore_rg, only_snvs=only_snvs, mapq_threshold=mapq) as pir:
        with VcfReader(vcf, only_snvs=only_snvs, phases=True, genotype_likelihoods=False, ploidy=ploidy, mav=mav) as vr:
            for table in vr:
                for sample in vr.samples:
                    if (targets is not None and sample not in targets) or \
                            (chromosomes is not None and table.chromosome not in chromosomes):
                        out[(table.chromosome, sample)] = None
                        continue
                    gts = table.genotypes_of(sample)
                    het = {i for i, g in enumerate(gts) if not g.is_none() and not g.is_homozygous()}
                    t = deepcopy(table)
                    t.remove_rows_by_index(set(range(len(table))) - het)
                    key = (table.chromosome, sample)
                    if len(t) < 2:
                        out[key] = None
                        continue
                    rs, _ = pir.read(table.chromosome, t.variants, sample)
                    rs.sort()
                    rs = rs.subset([i for i, r in enumerate(rs) if len(r) >= max(2, min_overlap)])
                    out[key] = sorted(rs.get_positions()) if len(rs) else None
    return out


def cli_case(ctx, spec, wd):
    """run the real CLI on the spec; returns dict with the Coq case and bookkeeping, or None after reporting a crash"""
    from .. import vcfabs
    os.makedirs(wd, exist_ok=True)
    sc, vcf, vcf_arg, bams, ref, planted, ignore_rg = build_cli_inputs(spec, wd)
    out = os.path.join(wd, "out.vcf")
    out_mode = spec.get("out_mode", "file")
    args = ["polyphase", "--ploidy", spec["k"], "-B", spec["sens"], "--threads", spec.get("threads", 1)]
    if out_mode == "file":
        args += ["-o", out]
    elif out_mode == "gz":
        args += ["-o", out + ".gz"]
    targets = chromosomes = None
    if spec.get("only_first_sample") and len(sc.samples) > 1:
        targets = [sc.samples[0]]                 # the other sample is not a target: it must pass through untouched
        args += ["--sample", sc.samples[0]]
    if spec.get("one_chromosome") and len(sc.chroms) > 1:
        chromosomes = [sc.chroms[0]]
        args += ["--chromosome", sc.chroms[0]]
    if spec["prephase"]:
        args.append("--use-prephasing")
    if spec.get("distrust"):
        args.append("--distrust-genotypes")
    tag = spec.get("tag", "PS")
    if tag != "PS":
        args += ["--tag", tag]
    if spec.get("haploid_sets"):
        args.append("--include-haploid-sets")
    if ignore_rg:
        args.append("--ignore-read-groups")
    if spec.get("only_snvs"):
        args.append("--only-snvs")
    if spec.get("no_mav"):
        args.append("--no-mav")
    if spec.get("min_overlap", 2) != 2:
        args += ["--min-overlap", spec["min_overlap"]]
    if spec.get("mapq") is not None:
        args += ["--mapping-quality", spec["mapq"]]
    if ref:
        args += ["--reference", ref]
    args += [vcf_arg] + bams
    rc, so, se = util.run_cli(ctx, args, cwd=wd, timeout=900)
    rep = {"kind": "cli", "spec": spec}
    if rc != 0:
        ctx.violation("cli:crash", f"whatshap polyphase exits {rc} on generated input {spec}: {se[-400:]}", rep)
        return None
    if out_mode == "stdout":
        open(out, "w").write(so)
    elif out_mode == "gz":
        import gzip
        open(out, "wb").write(gzip.open(out + ".gz", "rb").read())
    acc = accessible_positions(vcf, bams, ref, spec["k"], targets, chromosomes, ignore_rg, bool(spec.get("only_snvs")),
                               not spec.get("no_mav"), spec.get("min_overlap", 2),
                               20 if spec.get("mapq") is None else spec["mapq"])
    fin = vcfabs.parse_vcf(vcf)
    try:
        fout = vcfabs.parse_vcf(out)
    except Exception as e:  # noqa
        ctx.violation("cli:unreadable-output", f"output VCF of whatshap polyphase {spec} cannot be parsed: {type(e).__name__}: {e}", rep)
        return None
    it = vcfabs.Interner()
    samples_t, untouched_t, info = [], [], []
    if len(fin.records) != len(fout.records):
        ctx.violation("cli:frame", f"record count differs {len(fin.records)} -> {len(fout.records)}", rep)
        return None
    nphased = 0
    for si, s in enumerate(fin.samples):
        for chrom in sc.chroms:
            idx = [i for i, r in enumerate(fin.records) if r.chrom == chrom]
            a = acc.get((chrom, s))

            def gtl(c):
                return [(-1 if x is None else x) for x in (c.gt or ())]

            def phase_of(c):
                """(phased?, phase set) of an output call under the tag in use"""
                if tag == "PS":
                    return c.phased, c.ps
                nums = [x for x in (c.hp or ()) if isinstance(x, tuple)]
                return (True, nums[0][1]) if nums else (False, None)
            if a is None:
                ins = [(gtl(fin.records[i].calls[si]), fin.records[i].calls[si].phased, fin.records[i].calls[si].ps) for i in idx]
                outs = [(gtl(fout.records[i].calls[si]), fout.records[i].calls[si].phased, fout.records[i].calls[si].ps) for i in idx]
                untouched_t.append("(" + L((call_term(*x) for x in ins), "rawcall") + ", " + L((call_term(*x) for x in outs), "rawcall") + ")")
                info.append((s, chrom, None, ins, outs))
                continue
            obs = []
            for i in idx:
                ci, co = fin.records[i].calls[si], fout.records[i].calls[si]
                oph, ops = phase_of(co)
                if tag == "HP" and (co.phased or co.ps is not None):
                    oph, ops = True, -1            # old '|' / PS left next to the HP phasing: reported by the genotype clause
                obs.append((fin.records[i].pos + 1, gtl(ci), ci.ps, gtl(co), oph, ops))
                nphased += 1 if oph else 0
            ot = L(("(" + ", ".join([term(int(p)), zl(gi), optz(ips), zl(go), term(bool(ph)), optz(ps)]) + ")"
                    for p, gi, ips, go, ph, ps in obs), "obs")
            samples_t.append("(" + zl([int(p) + 1 for p in a]) + ", " + ot + ")")
            info.append((s, chrom, a, obs, None))

    def frame(f, other_ps):
        rows = []
        for r in f.records:
            row = [it("chrom:" + r.chrom), r.pos, it("id:" + r.id), it("ref:" + r.ref), it("alt:" + ",".join(r.alts)),
                   it("qual:" + r.qual), it("filter:" + r.filter), it("info:" + ";".join(k + "=" + v for k, v in r.info)),
                   it("fmt:" + ":".join(k for k in r.fmt if k not in ("PS", "HP", "HS")))]
            for c in r.calls:
                row.append(it("other:" + ";".join(k + "=" + v for k, v in c.other if k != "HS") + "|pq:" + str(c.pq)))
            rows.append(row)
        rows.append([it("samples:" + ",".join(f.samples))])
        return rows
    inhdr = [ln for ln in open(vcf).read().split("\n") if ln.startswith("##")]
    outhdr = [ln for ln in open(out).read().split("\n") if ln.startswith("##")]
    fi, fo = frame(fin, None), frame(fout, None)
    # header lines of the input survive (FORMAT/PS may be re-described)
    keep = [ln for ln in inhdr if not ln.startswith("##FORMAT=<ID=PS")]
    fi.append([it("hdr:" + ln) for ln in keep])
    fo.append([it("hdr:" + ln) for ln in keep if ln in outhdr or any(o.replace(" ", "") == ln.replace(" ", "") for o in outhdr)])
    case = "(" + ", ".join([L(samples_t, "list Z * list obs"), L(untouched_t, "list rawcall * list rawcall"),
                            zcols(fi), zcols(fo)]) + ")"
    nadjcut = nfixed = nhom = 0
    for s_, chrom, a, obs, outs in info:
        if a is None:
            continue
        ph = {p: ps for p, gi, ips, go, phd, ps in obs if phd}
        # neighbouring positions, both phased; in an `adjacent` spec no read links them, so a cut lies between them
        nfixed += sum(1 for p, gi, ips, go, phd, ps in obs if -1 in gi)
        nhom += sum(1 for p, gi, ips, go, phd, ps in obs if gi and -1 not in gi and len(set(gi)) == 1)
        nadjcut += sum(1 for x in a if (x + 1) in ph and (x + 2) in ph and (spec.get("adjacent") or ph[x + 1] != ph[x + 2]))
    return dict(case=case, rep=rep, info=info, nphased=nphased, planted=planted, spec=spec, wd=wd, nadjcut=nadjcut,
                nfixed=nfixed, nhom=nhom, nuntouched=sum(1 for x in info if x[2] is None))


def check_cli(ctx, runs, label):
    runs = [r for r in runs if r is not None]
    cases = [r["case"] for r in runs]
    for r in runs:
        ctx.count(("cli", json.dumps(r["spec"], sort_keys=True)), nontrivial=r["nphased"] >= 2)
        ctx.tally(f"cli.{label}")
        ctx.tally(f"cli.ploidy{r['spec']['k']}")
        ctx.tally(f"cli.sens{r['spec']['sens']}")
        ctx.tally("cli.prephasing" if r["spec"]["prephase"] else "cli.no_prephasing")
        if r["spec"].get("distrust"):
            ctx.tally("cli.distrust_genotypes")
        ctx.tally("cli.phased_calls", r["nphased"])
        ctx.tally("cli.adjacent_positions_with_cut_between", r.get("nadjcut", 0))
        ctx.tally("cli.missing_or_partial_calls_of_processed_samples", r.get("nfixed", 0))
        ctx.tally("cli.homozygous_calls_of_processed_samples", r.get("nhom", 0))
        ctx.tally("cli.untouched_sample_chromosomes", r.get("nuntouched", 0))
        sp = r["spec"]
        if sp.get("only_first_sample") and sp["nsamples"] > 1:
            ctx.tally("cli.with_--sample")
        ctx.tally(f"cli.threads{sp.get('threads', 1)}")
        ctx.tally(f"cli.tag{sp.get('tag', 'PS')}")
        ctx.tally(f"cli.nsamples{sp['nsamples']}")
        ctx.tally(f"cli.nchrom{sp.get('nchrom', 1)}")
        ctx.tally(f"cli.nvars{'<=3' if sp['nvars'] <= 3 else '>=8' if sp['nvars'] >= 8 else '4-7'}")
        ctx.tally(f"cli.min_overlap{sp.get('min_overlap', 2)}")
        ctx.tally(f"cli.mapq_{sp.get('mapq')}{'+lowq_reads' if sp.get('lowq') else ''}")
        ctx.tally(f"cli.bams{sp.get('nbams', 1)}")
        ctx.tally(f"cli.out_{sp.get('out_mode', 'file')}")
        ctx.tally(f"cli.names{sp.get('names', 0)}")
        ctx.tally(f"cli.chromnames{sp.get('chrom_names', 0)}")
        for flag in ("haploid_sets", "only_snvs", "no_mav", "multi_rg", "gz_in", "monomorphic", "reference", "adjacent", "deep"):
            if sp.get(flag):
                ctx.tally(f"cli.{flag}")
        if sp.get("one_chromosome") and sp.get("nchrom", 1) > 1:
            ctx.tally("cli.with_--chromosome")
        if sp.get("ignore_rg") and (sp["nsamples"] == 1 or sp.get("only_first_sample")):
            ctx.tally("cli.ignore_read_groups" + ("+no_RG_in_bam" if sp.get("drop_rg") else ""))
        if sp["prephase"]:
            ctx.tally(f"cli.prephasing+sens{sp['sens']}")
            if sp.get("hom_prephased"):
                ctx.tally("cli.prephased_homozygous_calls_in_input")
        if sp.get("threads", 1) > 1:
            ctx.tally("cli.threads>1.phased_calls", r["nphased"])
        if sp.get("tag") == "HP":
            ctx.tally("cli.tagHP.phased_calls", r["nphased"])
    trusted = [i for i, r in enumerate(runs) if not r["spec"].get("distrust")]
    distrusted = [i for i, r in enumerate(runs) if r["spec"].get("distrust")]
    f1 = evaluate("C15cli", CLI_CHECKS, [cases[i] for i in trusted], shard=4)
    f2 = evaluate("C15clid", CLI_DISTRUST_CHECKS, [cases[i] for i in distrusted], shard=4)
    failing_idx = [trusted[i] for i in f1["L1"]] + [distrusted[i] for i in f2["L1"]]
    for i in failing_idx:
        r = runs[i]
        msgs, sig = [], None
        for s, chrom, a, obs, outs in r["info"]:
            if a is None:
                if obs != outs:
                    msgs.append(f"sample {s} on {chrom} is not processed but its calls changed")
                    sig = sig or "cli:untouched-sample-changed"
                continue
            for p, gi, ips, go, ph, ps in obs:
                if r["spec"].get("distrust"):
                    continue
                if (-1 in gi or len(set(gi)) < 2) and (ph or go != gi):
                    msgs.append(f"{chrom}:{p} sample {s}: missing/partial/homozygous input genotype {gi} -> output {go}"
                                f"{' phased, PS ' + str(ps) if ph else ''}")
                    sig = sig or "cli:call-without-heterozygous-genotype-changed"
                elif sorted(gi) != sorted(go):
                    msgs.append(f"{chrom}:{p} sample {s}: input genotype {gi} -> output {go}{' phased' if ph else ''}")
                    sig = sig or (SIG_UNDERFLOW if (s, chrom, p) in r["planted"] else "cli:genotype")
                elif ph and len(set(gi)) < 2:
                    msgs.append(f"{chrom}:{p} sample {s}: homozygous genotype {gi} phased")
                    sig = sig or "cli:homozygous-phased"
            if not sig:
                pairs = [(p, ps) for p, gi, ips, go, ph, ps in obs if ph]
                msgs.append(f"sample {s} on {chrom}: phase sets {pairs} vs read-covered heterozygous variants {[x + 1 for x in a]}")
        if not sig:
            sig = "cli:intervals-or-frame"
        ctx.violation(sig, f"whatshap polyphase {r['spec']}: " + "; ".join(msgs[:4]), r["rep"])


# ------------------------------------------------------------------------------------------------- driver
def guarded(ctx, sig, rep, fn, *a, **kw):
    """an exception of the implementation in an in-process driver is an outcome (a violation with the input as
    replay), never a harness error"""
    try:
        return fn(*a, **kw)
    except Exception as e:  # noqa
        import traceback
        tb = traceback.format_exc().strip().split("\n")
        ctx.violation(sig, f"{type(e).__name__}: {e} ({tb[-3].strip() if len(tb) >= 3 else ''}) on a generated input", rep)
        return None


def new_buckets():
    return {k: [] for k in ("force", "assign", "ilp", "permute", "integrate", "aggregate", "cuts")}


def flush_buckets(ctx, b, label, rep=None):
    if b["force"]:
        check_force(ctx, b["force"], label)
    if b["assign"]:
        check_assign(ctx, b["assign"], label)
    if b["ilp"]:
        check_assign(ctx, b["ilp"], label + ".ilp", ilp=True)
    if b["permute"]:
        check_permute(ctx, b["permute"], label)
    if b["integrate"]:
        check_integrate(ctx, b["integrate"], label, rep or {"kind": "traced"})
    if b["aggregate"]:
        check_aggregate_traced(ctx, b["aggregate"], label)
    if b["cuts"]:
        check_cuts(ctx, b["cuts"], label)


def run(ctx):
    import logging
    logging.getLogger("whatshap").setLevel(logging.ERROR)
    rng = ctx.rng
    wd = util.workdir(ctx)

    # ---- A: force_genotypes, synthetic (shallow and deep clusters)
    items = []
    for i in range(ctx.n(140, 3000)):
        c = G.gen_force_case(rng, deep=False)
        items.append((c, G.run_force(c)))
    for i in range(ctx.n(40, 600)):
        c = G.gen_force_case(rng, deep=True)
        items.append((c, G.run_force(c)))
    # corpus: the minimal witness of the underflow defect (kept so that the finding is re-confirmed every run)
    corpus = dict(k=4, path=[[0, 0, 0, 0]], haps=[[0], [0], [0], [0]], genos=[{0: 2, 1: 2}], cov=[[0]],
                  depths=[{0: {0: 1100}}], err=0.05)
    items.append((corpus, G.run_force(corpus)))
    check_force(ctx, items, "synthetic")
    ctx.sample({"force_case": items[0][0], "impl_out": items[0][1]})
    # exhaustive small space: all genotypes x configurations at one position, ploidy 2..3 (thorough: ..4)
    items = [(c, G.run_force(c)) for c in G.gen_force_exhaustive(ctx.n(3, 4))]
    ctx.extra["force_exhaustive_cases"] = len(items)
    check_force(ctx, items, "exhaustive")

    # ---- B: assignments
    items = []
    for i in range(ctx.n(60, 1500)):
        c = G.gen_assign_case(rng)
        obs = G.run_assign(c)
        items.append((c["k"], [h for _, h in c["bps"]], obs, python_bests(G._mk_lllh(c["lllh"])), {"kind": "assign", "case": c}))
    check_assign(ctx, items, "synthetic")
    items = []
    for i in range(ctx.n(8, 150)):
        c = G.gen_assign_case(rng)
        if not c["bps"]:
            continue
        aff = G.gen_affiliations(rng, c["k"], len(c["bps"]) + 1)
        obs = G.run_assign(c, aff)
        items.append((c["k"], [h for _, h in c["bps"]], obs, None, {"kind": "assign-ilp", "case": c, "aff": aff}))
    check_assign(ctx, items, "synthetic.ilp", ilp=True)

    # ---- C: permute_blocks
    items = []
    for i in range(ctx.n(60, 1500)):
        c = G.gen_permute_case(rng)
        items.append((c["k"], c["haps"], [p for p, _ in c["bps"]], c["perms"], G.run_permute(c), {"kind": "permute", "case": c}))
    check_permute(ctx, items, "synthetic")

    # ---- D: aggregate + cuts
    items = []
    for i in range(ctx.n(60, 1500)):
        c = G.gen_aggregate_case(rng)
        res = guarded(ctx, "aggregate:crash", {"kind": "aggregate", "case": c}, G.run_aggregate, c)
        if res is not None:
            items.append((c, res, {"kind": "aggregate", "case": c}))
    check_aggregate(ctx, items, "synthetic")
    items = []
    for i in range(ctx.n(60, 1500)):
        c = G.gen_cuts_case(rng)
        res = guarded(ctx, "cuts:crash", {"kind": "cuts", "case": c}, G.run_cuts, c)
        if res is not None:
            items.append((c["wellformed"], c["sens"], c["bps"], res, {"kind": "cuts", "case": c}))
    check_cuts(ctx, items, "synthetic")

    # ---- E/F: traced real pipeline on matrix instances + stubbed solver for the component construction
    b = new_buckets()
    indiv = []
    for i in range(ctx.n(50, 700)):
        inst = G.gen_matrix_instance(rng)
        if rng.random() < 0.35:
            G.add_prephasing(rng, inst)
        res = guarded(ctx, "individual:crash", {"kind": "individual", "inst": inst, "stub": None}, drive_individual, ctx, inst, wd, f"m{i}")
        if res is None:
            continue
        ev, item = res
        dispatch_events(ctx, ev, item["rep"], "traced", b)
        indiv.append(item)
        ctx.tally(f"matrix.ploidy{inst['k']}")
        ctx.tally(f"matrix.sens{inst['sens']}")
        ctx.tally("matrix.prephasing" if inst.get("prephase") else "matrix.no_prephasing")
        ctx.tally(f"matrix.nvars{'2-3' if len(inst['positions']) <= 3 else '>=4'}")
    for i in range(ctx.n(2, 12)):
        inst = G.gen_matrix_instance(rng, k=2, nvars=rng.randint(3, 6), nreads=10, deep=True)
        inst["deep"] = True
        res = guarded(ctx, "individual:crash", {"kind": "individual", "inst": inst, "stub": None}, drive_individual, ctx, inst, wd, f"d{i}")
        if res is None:
            continue
        ev, item = res
        item["deep"] = True
        dispatch_events(ctx, ev, item["rep"], "traced-deep", b)
        indiv.append(item)
    for i in range(ctx.n(8, 100)):
        # variants on neighbouring positions p, p+1 with no read across: a real block cut exactly between them
        inst = G.gen_matrix_instance(rng, adjacent_split=True)
        res = guarded(ctx, "individual:crash", {"kind": "individual", "inst": inst, "stub": None}, drive_individual, ctx, inst, wd, f"a{i}")
        if res is None:
            continue
        ev, item = res
        dispatch_events(ctx, ev, item["rep"], "traced-adjacent", b)
        indiv.append(item)
    for i in range(ctx.n(40, 700)):
        plant = i % 2 == 0
        inst = G.gen_matrix_instance(rng, adjacent_split=plant)
        stub = G.gen_stub_result(rng, inst, plant_adjacent_cut=plant)
        res = guarded(ctx, "individual:crash", {"kind": "individual", "inst": inst, "stub": stub}, drive_individual, ctx, inst, wd, f"s{i}", stub=stub)
        if res is None:
            continue
        ev, item = res
        dispatch_events(ctx, [e for e in ev if e["kind"] == "cuts"], item["rep"], "stub", b)
        indiv.append(item)
    flush_buckets(ctx, b, "traced")
    check_individual(ctx, indiv, "all")
    if not ctx.dist.get("individual.adjacent_positions_with_cut_between") and not ctx.violations:
        raise RuntimeError("generator lost its coverage: no neighbouring positions with a phase-set cut between them")
    ctx.sample({"matrix_instance": {k: indiv[0]["rep"]["inst"][k] for k in ("k", "positions", "genos")},
                "cuts": indiv[0]["cuts"], "output": indiv[0]["outs"]})

    # ---- G: CLI
    runs = []
    specs = []
    ploidies = [3, 4, 2, 4, 3, 5, 4, 3, 6, 2, 4, 3, 5, 4, 2, 3, 4, 3] if ctx.quick else [2, 3, 4, 5, 6] * 14
    for i, k in enumerate(ploidies[:ctx.n(18, 70)]):
        s = make_cli_spec(rng, ploidy=k)
        s["sens"] = i % 6
        s["prephase"] = (i % 3 == 1) or s["prephase"]
        # rarely drawn values are forced in turn so that every one occurs a few times in every run
        if i % 6 == 0:
            s["only_snvs"] = True
        if i % 6 == 1:
            s["monomorphic"] = True
        if i % 6 == 2:
            s["gz_in"] = True
        if i % 6 == 3:
            s["min_overlap"] = 3
        if i % 5 == 4:
            s["threads"] = 2 + (i % 2)
        if i % 7 == 3:
            s["tag"] = "HP"
        if i % 9 == 4:
            s["nvars"] = 1 + (i % 3)
        if i % 8 == 5:
            s["nsamples"], s["only_first_sample"], s["ignore_rg"] = 1, False, True
        specs.append(s)
    for _ in range(ctx.n(1, 8)):                     # --distrust-genotypes: only blocks / frame are demanded
        s = make_cli_spec(rng)
        s["distrust"] = True
        specs.append(s)
    for _ in range(ctx.n(2, 12)):                    # neighbouring positions p, p+1 with a cut between them
        specs.append(make_cli_spec(rng, adjacent=True))
    corpus_deep = make_cli_spec(rng, deep=True)      # corpus: the CLI-level witness of force:likelihood-underflow
    corpus_deep["seed"] = 7
    specs.append(corpus_deep)
    for _ in range(ctx.n(0, 3)):
        specs.append(make_cli_spec(rng, deep=True))
    for i, s in enumerate(specs):
        runs.append(guarded(ctx, "cli:crash", {"kind": "cli", "spec": s}, cli_case, ctx, s, os.path.join(wd, f"cli{i}")))
    check_cli(ctx, runs, "synthetic")
    if not ctx.dist.get("cli.adjacent_positions_with_cut_between") and not ctx.violations:
        raise RuntimeError("generator lost its coverage: no CLI run with a phase-set cut between neighbouring positions")
    ok = [r for r in runs if r]
    if ok:
        ctx.sample({"cli_spec": ok[0]["spec"], "phased_calls": ok[0]["nphased"]})


def replay(ctx, data):
    kind = data.get("kind")
    wd = util.workdir(ctx)
    if kind == "force":
        c = data["case"]
        check_force(ctx, [(c, G.run_force(c))], "replay")
    elif kind == "assign":
        c = data["case"]
        check_assign(ctx, [(c["k"], [h for _, h in c["bps"]], G.run_assign(c), python_bests(G._mk_lllh(c["lllh"])), data)], "replay")
    elif kind == "assign-ilp":
        c = data["case"]
        check_assign(ctx, [(c["k"], [h for _, h in c["bps"]], G.run_assign(c, data["aff"]), None, data)], "replay", ilp=True)
    elif kind == "permute":
        c = data["case"]
        check_permute(ctx, [(c["k"], c["haps"], [p for p, _ in c["bps"]], c["perms"], G.run_permute(c), data)], "replay")
    elif kind == "aggregate":
        c = data["case"]
        check_aggregate(ctx, [(c, G.run_aggregate(c), data)], "replay")
    elif kind == "cuts":
        c = data["case"]
        check_cuts(ctx, [(c["wellformed"], c["sens"], c["bps"], G.run_cuts(c), data)], "replay")
    elif kind == "individual":
        inst = data["inst"]
        inst["reads"] = [[tuple(x) for x in rd] for rd in inst["reads"]]
        stub = data.get("stub")
        if stub is not None:
            stub = (stub[0], [tuple(x) for x in stub[1]])
        b = new_buckets()
        ev, item = drive_individual(ctx, inst, wd, "replay", stub=stub)
        item["deep"] = inst.get("deep", False)
        dispatch_events(ctx, ev if stub is None else [e for e in ev if e["kind"] == "cuts"], item["rep"], "replay", b)
        flush_buckets(ctx, b, "replay")
        check_individual(ctx, [item], "replay")
    elif kind == "cli":
        check_cli(ctx, [cli_case(ctx, data["spec"], os.path.join(wd, "cli"))], "replay")
    else:
        run(ctx)
