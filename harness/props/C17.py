"""C17 — haplotag followed by haplotagphase reproduces the phasing that tagged the reads."""
import json
import os
import zlib
import random
import shutil
import traceback
from concurrent.futures import ProcessPoolExecutor

from .. import synth
from ..coqeval import term, Raw, eval_checks
from ..util import run_cli, workdir

RULE = ("pipelines phase -> haplotag -> unphase -> haplotagphase through the real CLI on synthetic diploid data "
        "(1-2 samples, 1-2 chromosomes, 5-14 SNV/insertion/deletion/MNP records, homozygous records mixed in, "
        "SNVs planted inside homopolymer runs of 2-14 bases on either side, error-free reads of the true haplotypes "
        "confined to 1-4 disjoint regions per chromosome so that phase sets are separated by coverage gaps). "
        "The phased VCF is either the output of `whatshap phase` on the reads or a synthetic phasing of the true "
        "haplotypes (arbitrary PS ids, set-wise flips, some heterozygous records left unphased); the tagged read set is "
        "the phasing read set, a random half of it, or it minus a window (uncovered records). The haplotagphase "
        "input is the `whatshap unphase` output with 0-100% of the phased records put back (partially pre-phased). "
        "The pre-phased and `unrecognised` streams also write `|` on calls VcfReader does not regard as phased: homozygous "
        "a|a:PS, a|b without PS key or with PS '.', records without ALT or at a duplicate position (inserted into all "
        "files), multi-ALT records under --no-mav, a second sample without any read. "
        "Every stream also draws freely: 1-14 records (all-homozygous and 1-3-record chromosomes included), sample and "
        "chromosome names from pools that sort against column order and share prefixes, read-group layout (ID = sample, "
        "other IDs, two groups per sample, shuffled header, no groups / a foreign group with --ignore-read-groups), paired "
        "reads, BX tags, low-MAPQ and duplicate-flagged reads, read ends exactly on a variant, variants on the first/last base, "
        "an empty contig, a chromosome or a sample without reads, an untagged BAM, PS ids 0 / 1 / 2^31-1, extra ID/FILTER/INFO/"
        "FORMAT fields, single ./. or 0/. calls, read names shared by two samples, output to stdout, bgzipped+indexed input, "
        "--chromosome, and haplotag options (--regions, --no-reference, --ignore-linked-read, --tag-supplementary, "
        "--output-threads, --skip-missing-contigs). Streams `rawtags` (HP/PS written by the harness: exact vote fractions "
        "incl. 0.70 and ties, HP 0/3, PS 0/absent; L2 only), `twice` (haplotagphase on its own output), `mav` (genotypes "
        "over two ALT alleles). "
        "History stream: the reads first get HP/PS tags from an earlier haplotag run against another phasing of the same "
        "haplotypes (opposite orientation, other PS ids, all samples), then haplotag with the new VCF for all samples or "
        "with --sample for the first sample only; samples not selected must come out unphased, selected ones as the new VCF says. "
        "L2-only streams: phasings that split a read-connected region into two sets (reads over two sets), phasings "
        "that contradict the reads (mixed votes, gap threshold), non-default --gap-threshold/--cut-poly/--only-indels, "
        "foreign pre-phased calls (flipped order, other PS). A case = one chromosome of one pipeline; it is "
        "non-trivial if haplotagphase phases at least two records of one phase set; distinct = distinct "
        "(input table, reads) content.")
TRUSTED = [
    "modelled, not verified: pysam/htslib VCF and BAM parsing and writing (records enter the model as decoded "
    "GT/phased/PS values), allele detection by re-alignment (the Read objects PhasedInputReader returns enter as data), "
    "core.Genotype (descending as_vector, is_homozygous), python dict insertion order and stable sort",
    "the float test `100 * (score / total) < gap_threshold` is modelled by the exact rational comparison (agrees with "
    "IEEE double arithmetic for the default threshold 70 whenever total < 2^50)",
    "record-level skip rules of VcfReader/PhasedVcfWriter (no ALT, duplicate position, multi-ALT under --no-mav) are "
    "modelled as a wrapper (haplotagphase_file) that is compared on real runs but about which only the refutation "
    "witness is proved; HP-tag phased input and the allele-count limit are not modelled; the generated VCFs contain none",
    "L1 decodes the three VCFs and the tagged BAM with pysam; 'reads that cover a variant' = tagged alignments whose "
    "reference span contains the record start",
]
ASSUMPTIONS = [
    "diploid, fully called genotypes; reads are error-free copies of the sample's two haplotypes; the phasing that tags "
    "the reads is a phasing of these haplotypes (set-wise orientation free); no read overlaps two phase sets "
    "(clause 1 is checked only on cases where the decoded data satisfy this, evaluated in Coq)",
    "a read shows the same allele at a variant in the haplotag run and in the haplotagphase run; reads carry no HP/PS "
    "tags other than those written by haplotag; thresholds at their defaults for L1",
    "`already phased` = the call is written with `|` (pysam call.phased), judged on the real output in three classes: "
    "what VcfReader recognises as phased with a phase set id (heterozygous, diploid, fully called, PS present, record "
    "not skipped: proved untouched for the rule now in /repo), heterozygous `|` calls without a PS value, and every other "
    "`|` call (homozygous, on skipped records); the last two are altered by the current code (refuted, known signatures)",
]

HEADER = """From Coq Require Import ZArith List Bool Arith.
From WH.Model Require Import HaplotagPhase.
Import ListNotations.
Open Scope Z_scope.
"""
BASE_CODE = {"A": 0, "C": 1, "G": 2, "T": 3, "N": 4}
SIG_PRE = "haplotagphase:prephased-altered"          # any alteration of a pre-phased call that is not one of the four below
# residual classes (input class AND observed alteration), recorded as known findings:
SIG_HOM = "haplotagphase:prephased-homozygous-unphased"             # a|a:PS -> a/a:.
SIG_SKIP = "haplotagphase:prephased-on-skipped-record-unphased"     # no ALT / duplicate position / multi-ALT under --no-mav
SIG_NOKEY = "haplotagphase:prephased-no-ps-key-gains-ps0"           # het a|b with FORMAT GT only -> a|b:0
SIG_STALE = "history:unselected-sample-phased-from-stale-tags"      # haplotag --sample left old HP/PS tags on other samples
SIG_MISSING = "haplotagphase:missing-genotype-crash"                # a ./. or 0/. call covered by reads: IndexError in realign
SIG_COLLIDE = "haplotag:read-name-shared-by-two-samples-mistagged"  # read_to_haplotype is keyed by the read name only
SIG_NOREF_SYM = "haplotag:no-reference-reads-symbolic-alt-as-ref"    # CIGAR-based detection takes "<DEL>" for an inserted string
SIG_PSDOT = "haplotagphase:prephased-ps-missing-rewritten"          # het a|b:. rewritten from the votes


# =============================================================================== input construction
def plant_homopolymers(rng, sc, chrom, prob):
    """surround some SNVs with homopolymer runs (the reference is edited before reads are simulated)"""
    ref = list(sc.ref[chrom])
    planted = 0
    for v in sc.variants[chrom]:
        if v.kind != "snv" or rng.random() >= prob:
            continue
        h = rng.choice(synth.BASES)
        left, right = rng.randint(2, 14), rng.randint(2, 14)
        for i in range(v.pos - left, v.pos):
            ref[i] = h
        for i in range(v.pos + 1, v.pos + 1 + right):
            ref[i] = h
        if rng.random() < 0.5 and h != v.alt:          # the variant base itself continues the run
            ref[v.pos] = h
            v.ref = h
        planted += 1
    sc.ref[chrom] = "".join(ref)
    return planted


def regions_for(rng, sc, chrom, ngroups):
    """split the records of a chromosome into consecutive groups; returns [(lo, hi, [variant indices])] with
    pairwise disjoint [lo, hi) separated by a dead zone"""
    vs = sc.variants[chrom]
    n = len(vs)
    L = len(sc.ref[chrom])
    ngroups = max(1, min(ngroups, n))
    cuts = sorted(rng.sample(range(1, n), ngroups - 1)) if ngroups > 1 else []
    bounds = [0] + cuts + [n]
    out = []
    for g in range(len(bounds) - 1):
        idx = list(range(bounds[g], bounds[g + 1]))
        first, last = vs[idx[0]], vs[idx[-1]]
        if bounds[g] == 0:
            lo = max(0, first.pos - rng.randint(15, 38))
        else:
            prev = vs[bounds[g] - 1]
            mid = (prev.pos + len(prev.ref) + first.pos) // 2
            lo = mid + 3
        if bounds[g + 1] == n:
            hi = min(L - 1, last.pos + len(last.ref) + rng.randint(15, 38))
        else:
            nxt = vs[bounds[g + 1]]
            mid = (last.pos + len(last.ref) + nxt.pos) // 2
            hi = mid - 3
        out.append((lo, hi, idx))
    return out


def legal_end(vs, L, p):
    return p == L or synth.legal_boundary(vs, p)


def simulate_region_reads(rng, sc, sample, chrom, lo, hi, cov, len_range, prefix, feat=None, full_span=0, p0=0.5):
    """error-free reads of one sample inside [lo, hi).  feat: pairs / bx / lowq / dup / edge probabilities.
    full_span = n > 0: exactly n reads that all span the whole region (for exact vote fractions)."""
    feat = feat or {}
    ref = sc.ref[chrom]
    L = len(ref)
    vs = sc.variants[chrom]
    haps = sc.haps[sample][chrom]
    alts = getattr(sc, "alts", {}).get(chrom, {})

    def walk(h, s, e):
        # multi-allelic records: the haplotype's own ALT sequence, written as allele 1 of a per-haplotype copy
        vv, al = [], []
        for i, (v, x) in enumerate(zip(vs, haps)):
            a_ = x[h]
            if a_ >= 2:
                vv.append(synth.Variant(v.pos, v.ref, alts[i][a_ - 1], v.kind))
                al.append(1)
            else:
                vv.append(synth.Variant(v.pos, v.ref, alts[i][0] if i in alts else v.alt, v.kind))
                al.append(a_)
        return synth.hap_walk(ref, vv, al, s, e)

    def clip(s, e):
        while s < e and not synth.legal_boundary(vs, s):
            s += 1
        while e > s and not legal_end(vs, L, e):
            e -= 1
        return s, e
    n = full_span or max(3, int(cov * (hi - lo) / ((len_range[0] + len_range[1]) / 2)))
    reads = []
    inside = [v for v in vs if lo <= v.pos and v.pos + len(v.ref) < hi]
    for k in range(n):
        h = rng.randint(0, 1) if p0 == 0.5 else (0 if rng.random() < p0 else 1)
        length = rng.randint(*len_range)
        if full_span:
            s, e = lo, hi
        else:
            s = rng.randint(lo, max(lo, hi - 30))
            e = min(hi, s + length)
            if inside and rng.random() < feat.get("edge", 0):
                v = rng.choice(inside)               # a read boundary exactly at a variant
                if rng.random() < 0.5:
                    s, e = v.pos, min(hi, v.pos + length)
                else:
                    e = min(hi, v.pos + len(v.ref) + 1)
                    s = max(lo, e - length)
        s, e = clip(s, e)
        if e - s < 12:
            continue
        seq, cig = walk(h, s, e)
        name = f"{prefix}{k}"
        r = dict(name=name, sample=sample, chrom=chrom, start=s, cigar=cig, seq=seq,
                 qual=rng.choice([20, 30, 30, 40]), hap=h, flag=0, end=e)
        if rng.random() < feat.get("lowq", 0):
            r["mapq"] = rng.choice([0, 5, 19])
        if rng.random() < feat.get("dup", 0):
            r["flag"] |= 0x400
        if rng.random() < feat.get("bx", 0) and reads and reads[-1]["hap"] == h and "mate_start" not in reads[-1]:
            bx = reads[-1].setdefault("bx", f"BX{sample}{chrom}{k}")
            r["bx"] = bx
        if not full_span and rng.random() < feat.get("pairs", 0):
            s2 = rng.randint(s, max(s, hi - 30))
            e2 = min(hi, s2 + rng.randint(*len_range))
            s2, e2 = clip(s2, e2)
            if e2 - s2 >= 12:
                seq2, cig2 = walk(h, s2, e2)
                r.update(flag=r["flag"] | 0x1 | 0x2 | 0x40 | 0x20, mate_start=s2)
                reads.append(r)
                reads.append(dict(name=name, sample=sample, chrom=chrom, start=s2, cigar=cig2, seq=seq2, qual=r["qual"],
                                  hap=h, flag=0x1 | 0x2 | 0x80 | 0x10, end=e2, mate_start=s))
                continue
        reads.append(r)
    return reads


def write_bam2(sc, reads, path, rginfo):
    """indexed BAM. rginfo: dict(header=[(rg id, sample name)] in header order, of={sample: [rg ids]}) or None (no read
    groups at all). Reads may carry: mapq, flag, bx, tags [(tag, value)], mate_start."""
    import pysam
    header = {"HD": {"VN": "1.6", "SO": "coordinate"}, "SQ": [{"SN": c, "LN": len(sc.ref[c])} for c in sc.chroms]}
    if rginfo:
        header["RG"] = [{"ID": i, "SM": sm} for i, sm in rginfo["header"]]
    opmap = {"M": 0, "I": 1, "D": 2}
    tid = {c: i for i, c in enumerate(sc.chroms)}
    rs = sorted(reads, key=lambda r: (tid[r["chrom"]], r["start"]))
    with pysam.AlignmentFile(path, "wb", header=header) as out:
        for r in rs:
            a = pysam.AlignedSegment(out.header)
            a.query_name = r["name"]
            a.query_sequence = r["seq"]
            a.flag = r.get("flag", 0)
            a.reference_id = tid[r["chrom"]]
            a.reference_start = r["start"]
            a.mapping_quality = r.get("mapq", 60)
            a.cigartuples = [(opmap[o], n) for o, n in r["cigar"]]
            a.query_qualities = pysam.qualitystring_to_array(chr(33 + r.get("qual", 30)) * len(r["seq"]))
            if "mate_start" in r:
                a.next_reference_id = tid[r["chrom"]]
                a.next_reference_start = r["mate_start"]
            tags = []
            if rginfo:
                ids = rginfo["of"][r["sample"]]
                tags.append(("RG", ids[zlib.crc32(r["name"].encode()) % len(ids)] if len(ids) > 1 else ids[0]))
            if "bx" in r:
                tags.append(("BX", r["bx"]))
            tags += list(r.get("tags", []))
            a.set_tags(tags)
            out.write(a)
    pysam.index(path)
    return path


def parse_calls(f):
    """[(GT text, PS text or None)] of a VCF line split into fields (FORMAT GT[:..][:PS][:..])"""
    fmt = f[8].split(":")
    out = []
    for c in f[9:]:
        v = c.split(":")
        out.append((v[fmt.index("GT")], v[fmt.index("PS")] if "PS" in fmt and len(v) > fmt.index("PS") else None))
    return out


def build_line(f, calls, with_ps):
    """the line with new (GT, PS) per call; FORMAT fields other than GT and PS are kept"""
    fmt = f[8].split(":")
    other = [k for k in fmt if k not in ("GT", "PS")]
    newfmt = ["GT"] + (["PS"] if with_ps else []) + other
    cols = []
    for old, (g, p_) in zip(f[9:], calls):
        v = old.split(":")
        vals = {k: (v[i] if i < len(v) else ".") for i, k in enumerate(fmt)}
        cols.append(":".join([g] + (["." if p_ is None else str(p_)] if with_ps else []) + [vals[k] for k in other]))
    g = list(f[:9])
    g[8] = ":".join(newfmt)
    return "\t".join(g + cols)


def decorate_vcf(rng, path, deco, missing):
    """textual decoration of a VCF: ID / FILTER / INFO values and a FORMAT field next to GT(:PS) (deco); genotypes of
    single calls replaced by ./. or 0/. (missing = probability per call)"""
    lines = open(path).read().splitlines()
    out = []
    for l in lines:
        if l.startswith("#CHROM") and deco:
            out += ['##FILTER=<ID=q10,Description="low quality">', '##INFO=<ID=DP,Number=1,Type=Integer,Description="depth">',
                    '##FORMAT=<ID=DP,Number=1,Type=Integer,Description="depth">',
                    '##FORMAT=<ID=GQ,Number=1,Type=Integer,Description="genotype quality">']
        if l.startswith("#"):
            out.append(l)
            continue
        f = l.split("\t")
        fmt = f[8].split(":")
        calls = [c.split(":") for c in f[9:]]
        if missing:
            for c in calls:
                if "|" not in c[0] and rng.random() < missing:
                    c[0] = rng.choice(["./.", "./.", "0/."])
        if deco:
            f[2] = f"rs{rng.randint(1, 99999)}" if rng.random() < 0.5 else f[2]
            f[6] = rng.choice(["PASS", "q10", "."])
            f[7] = f"DP={rng.randint(1, 90)}"
            where = rng.choice(["after_gt", "end"])
            key = rng.choice(["DP", "GQ"])
            pos_ = 1 if where == "after_gt" else len(fmt)
            fmt.insert(pos_, key)
            for c in calls:
                while len(c) < len(fmt) - 1:
                    c.append(".")
                c.insert(pos_, str(rng.randint(1, 60)))
        f[8] = ":".join(fmt)
        out.append("\t".join(f[:9] + [":".join(c) for c in calls]))
    with open(path, "w") as fh:
        fh.write("\n".join(out) + "\n")


def symbolize_vcf(rng, sc, path, prob):
    """rewrite deletion records as symbolic <DEL> records (REF = anchor base, INFO SVTYPE/END/SVLEN; the reads still carry
    the real deletion) and insert a homozygous-reference <DUP> record in front of the first record of a chromosome.
    Returns {(chrom, pos text): genotype class} of the symbolic records."""
    lines = open(path).read().splitlines()
    out, made = [], {}
    seen_chrom = set()
    for l in lines:
        if l.startswith("#CHROM"):
            out += ['##ALT=<ID=DEL,Description="Deletion">', '##ALT=<ID=DUP,Description="Duplication">',
                    '##INFO=<ID=SVTYPE,Number=1,Type=String,Description="Type of structural variant">',
                    '##INFO=<ID=END,Number=1,Type=Integer,Description="End position">',
                    '##INFO=<ID=SVLEN,Number=1,Type=Integer,Description="Length">']
        if l.startswith("#"):
            out.append(l)
            continue
        f = l.split("\t")
        if f[0] not in seen_chrom:
            seen_chrom.add(f[0])
            p0 = int(f[1]) - 6
            if p0 >= 1 and rng.random() < prob:
                ns = len(f) - 9
                g = [f[0], str(p0), ".", sc.ref[f[0]][p0 - 1], "<DUP>", ".", "PASS", f"SVTYPE=DUP;END={p0 + 40};SVLEN=40", "GT"]
                out.append("\t".join(g + ["0/0"] * ns))
                made[(f[0], g[1])] = "hom"
        if len(f[3]) > 1 and len(f[4]) == 1 and f[3][0] == f[4] and rng.random() < prob:
            k = len(f[3]) - 1
            gts = {c.split(":")[0].replace("|", "/") for c in f[9:]}
            f[7] = f"SVTYPE=DEL;END={int(f[1]) + k};SVLEN=-{k}"
            f[3], f[4] = f[3][0], "<DEL>"
            made[(f[0], f[1])] = "het" if any(len(set(g.split("/"))) > 1 for g in gts) else "hom"
        out.append("\t".join(f))
    with open(path, "w") as fh:
        fh.write("\n".join(out) + "\n")
    return made


def add_extra_records(rng, sc, path):
    """insert (unphased) a record without ALT and a second record at the position of an SNV; returns their keys"""
    lines = open(path).read().splitlines()
    head = [l for l in lines if l.startswith("#")]
    body = [l.split("\t") for l in lines if not l.startswith("#")]
    keys = set()
    new = []
    for c in sc.chroms:
        idx = [i for i, f in enumerate(body) if f[0] == c and not f[4].startswith("<")]
        if not idx:
            continue
        ns = len(body[idx[0]]) - 9
        i = rng.choice(idx)
        f = body[i]
        p0 = int(f[1]) - 1 + len(f[3]) + 8                       # 0-based, inside the gap behind the record
        if p0 < len(sc.ref[c]) - 1 and rng.random() < 0.8:
            g = [c, str(p0 + 1), ".", sc.ref[c][p0], ".", ".", "PASS", ".", "GT"] + ["0/0"] * ns
            new.append((i + 0.5, g))
            keys.add((c, g[1], g[4]))
        snvs = [j for j in idx if len(body[j][3]) == 1 and len(body[j][4]) == 1]
        if snvs and rng.random() < 0.8:
            j = rng.choice(snvs)
            f = body[j]
            alt = [x for x in "ACGT" if x not in (f[3], f[4])][0]
            g = [c, f[1], ".", f[3], alt, ".", "PASS", ".", "GT"] + ["0/1"] * ns
            new.append((j + 0.25, g))
            keys.add((c, g[1], g[4]))
    allr = sorted([(float(i), f) for i, f in enumerate(body)] + new, key=lambda x: x[0])
    with open(path, "w") as fh:
        fh.write("\n".join(head + ["\t".join(f) for _, f in allr]) + "\n")
    return keys


def make_spec(rng, stream):
    spec = dict(seed=rng.randrange(1 << 40), stream=stream,
                nvars=rng.randint(5, 14), nsamples=rng.choice([1, 1, 1, 2]), nchrom=rng.choice([1, 1, 1, 2]),
                het=rng.choice([0.7, 0.85, 1.0]), ngroups=rng.randint(1, 4), cov=rng.choice([3, 5, 8, 11]),
                homop=rng.choice([0.0, 0.4, 0.8]), phi=rng.choice(["phase", "phase", "synthetic"]),
                bmode=rng.choice(["same", "same", "subsample", "window"]),
                prephase=0.0, foreign=False, params=None, unrec=0.0, extras=False, nomav=False)
    if stream == "prephased":
        spec["prephase"] = rng.choice([0.3, 0.6, 1.0])
        # a modest share of pre-phased calls that VcfReader does not recognise as phased
        spec["unrec"] = rng.choice([0.0, 0.0, 0.25, 0.5])
        spec["extras"] = rng.random() < 0.3
        spec["nomav"] = rng.random() < 0.15
        if spec["nsamples"] == 2 and rng.random() < 0.3:
            spec["bmode"] = "dropsample"
    elif stream == "history":
        spec["nsamples"] = rng.choice([2, 2, 3])
        spec["phi"] = "synthetic"
        spec["bmode"] = rng.choice(["same", "subsample"])
        spec["het"] = rng.choice([0.85, 1.0])
        spec["history"] = rng.choice(["first", "first", "all"])
    elif stream == "unrecognised":
        spec["prephase"] = rng.choice([0.3, 1.0])
        spec["unrec"] = rng.choice([0.6, 1.0])
        spec["extras"] = rng.random() < 0.6
        spec["nomav"] = rng.random() < 0.3
        spec["het"] = rng.choice([0.5, 0.7])
    elif stream == "bridged":
        spec["phi"] = "bridged"
        spec["prephase"] = rng.choice([0.0, 0.3])
    elif stream == "noisy":
        spec["phi"] = "noisy"
        spec["params"] = rng.choice([None, {"gap": rng.choice([40, 60, 100])}])
    elif stream == "params":
        spec["params"] = rng.choice([{"only_indels": True}, {"cut": rng.choice([0, 2, 5])},
                                     {"gap": rng.choice([0, 100])}, {"only_indels": True, "cut": 3}])
        spec["prephase"] = rng.choice([0.0, 0.4])
    elif stream == "foreign":
        spec["prephase"] = rng.choice([0.4, 1.0])
        spec["foreign"] = True
    elif stream == "rawtags":
        # HP/PS tags written by the harness (no haplotag run): wrong tags in exact proportions, ties, HP/PS edge values
        spec["phi"] = "synthetic"
        spec["bmode"] = "same"
        spec["rawtags"] = dict(n=rng.choice([2, 4, 10, 10, 20]), wrong=rng.choice([0.0, 0.25, 0.3, 0.3, 0.4, 0.5]),
                               odd=rng.choice([0.0, 0.2]))
        spec["params"] = rng.choice([None, {"gap": rng.choice([0, 50, 60, 70, 75, 100])}])
        spec["prephase"] = rng.choice([0.0, 0.3])
    elif stream == "twice":
        spec["twice"] = True
        spec["prephase"] = rng.choice([0.0, 0.5])
    elif stream == "mav":
        spec["phi"] = "synthetic"
        spec["mavrec"] = rng.choice([0.3, 0.6])
        spec["prephase"] = rng.choice([0.0, 0.4])
    draw_free(rng, spec)
    return spec


SKEWS = [(3, 1), (4, 1), (1, 3), (1, 4), (1, 0), (0, 1), (9, 1), (1, 1)]     # reads of haplotype 0 : haplotype 1, per region
SAMPLE_NAMES = ["S1", "S10", "S2", "mother", "child", "father", "NA12878", "a", "B", "zz-top", "sample_1", "sample_11"]
CHROM_NAMES = ["chr10", "chr2", "chr1", "1", "X", "ctgB", "ctgA", "scaffold_7", "chrUn.1"]


def draw_free(rng, spec):
    """dimensions every stream draws freely: names, read groups, read kinds, chromosome edges, options"""
    ns, nc = spec["nsamples"], spec["nchrom"]
    if rng.random() < 0.15:
        spec["nvars"] = rng.randint(1, 3)
    if rng.random() < 0.05:
        spec["het"] = 0.0
    spec["names"] = "random" if rng.random() < 0.6 else "plain"
    spec["rg"] = rng.choice(["sample", "ids", "ids", "multi"])
    spec["feat"] = dict(pairs=rng.choice([0, 0, 0.3]), bx=rng.choice([0, 0, 0.3]), lowq=rng.choice([0, 0, 0.15]),
                        dup=rng.choice([0, 0, 0.15]), edge=rng.choice([0, 0.3]))
    spec["edges"] = rng.random() < 0.25
    spec["emptychrom"] = rng.random() < 0.2
    spec["psids"] = "extreme" if rng.random() < 0.2 else "usual"
    spec["deco"] = rng.random() < 0.3
    io = dict(stdout=rng.random() < 0.25, gz=rng.random() < 0.25)
    if nc > 1 and rng.random() < 0.5:
        io["chromosome"] = rng.randint(0, nc - 1)
    if ns == 1 and not spec.get("history") and rng.random() < 0.25:
        io["ignore_rg"] = rng.choice(["norg", "foreign"])
    io["haplotag"] = [o for o in ("--ignore-linked-read", "--tag-supplementary", "--output-threads=2", "--regions",
                                  "--no-reference", "--skip-missing-contigs") if rng.random() < 0.15]
    spec["io"] = io
    if nc > 1 and spec["bmode"] == "same" and rng.random() < 0.2:
        spec["bmode"] = "dropchrom"
    if spec["stream"] in ("plain", "prephased") and rng.random() < 0.08:
        spec["bmode"] = "untagged"
    spec["skew"] = rng.random() < 0.4
    spec["symbolic"] = rng.choice([0.0, 0.0, 0.5, 1.0])          # symbolic-ALT records (<DEL>, <DUP>)
    # malformed-but-accepted input: single calls with a missing genotype (./. or 0/.)
    spec["missing"] = 0.15 if rng.random() < 0.12 else 0.0
    # read names shared by two samples of one BAM
    spec["collide"] = ns >= 2 and not spec.get("history") and rng.random() < 0.2


# =============================================================================== decoding
def decode_vcf(path):
    """{chrom: [ (pos, snv, pskey, [(gt, phased, ps) per sample]) ]} with pysam (trusted parser)"""
    import pysam
    out = {}
    with pysam.VariantFile(path) as vf:
        samples = list(vf.header.samples)
        for rec in vf:
            pskey = "PS" in rec.format
            calls = []
            for s in samples:
                c = rec.samples[s]
                gt = list(c["GT"]) if "GT" in rec.format and c["GT"] is not None else []
                ps = c["PS"] if pskey else None
                calls.append((gt, bool(c.phased), ps))
            snv = len(rec.ref) == 1 and len(rec.alts or ()) == 1 and len(rec.alts[0]) == 1 and rec.alts[0] != rec.ref
            out.setdefault(rec.chrom, []).append((rec.start, snv, pskey, calls, len(rec.alts or ()),
                                                  any(a.startswith("<") for a in (rec.alts or ()))))
    return samples, out


def decode_bam(path, samples):
    """[(chrom, sample_index, start, end, hp, ps)] for usable primary alignments (sample via the @RG SM field;
    sample 0 if there are no usable read groups)"""
    import pysam
    out = []
    with pysam.AlignmentFile(path) as bf:
        sm = {rg["ID"]: rg.get("SM") for rg in bf.header.to_dict().get("RG", [])}
        for a in bf:
            if a.is_unmapped or a.is_secondary or a.is_supplementary:
                continue
            rg = sm.get(a.get_tag("RG")) if a.has_tag("RG") else None
            si = samples.index(rg) if rg in samples else 0
            hp = a.get_tag("HP") if a.has_tag("HP") else None
            ps = a.get_tag("PS") if a.has_tag("PS") else None
            out.append((a.reference_name, si, a.reference_start, a.reference_end, hp, ps))
    return out


# =============================================================================== one pipeline (worker process)
def _cli(impl, args, cwd):
    class C:
        pass
    c = C()
    c.impl = impl
    return run_cli(c, args, cwd=cwd)


def run_pipeline(job):
    """Runs in a forked worker. Returns a json-able dict (never raises)."""
    spec, impl, wd = job["spec"], job["impl"], job["dir"]
    try:
        return _run_pipeline(spec, impl, wd)
    except Exception:
        return {"spec": spec, "fatal": traceback.format_exc()}
    finally:
        if not os.environ.get("WHVERIF_KEEP_WORK"):
            shutil.rmtree(wd, ignore_errors=True)


def _run_pipeline(spec, impl, d):
    import pysam
    os.makedirs(d, exist_ok=True)
    rng = random.Random(spec["seed"])
    io = spec.get("io") or {}
    feat = spec.get("feat") or {}
    kinds = ("snv", "snv", "ins", "del", "mnp")
    snames = cnames = None
    if spec.get("names") == "random":
        nrng = random.Random(spec["seed"] + 1)
        snames = nrng.sample(SAMPLE_NAMES, spec["nsamples"])
        cnames = nrng.sample(CHROM_NAMES, spec["nchrom"])
    sc = synth.make_scenario(rng, nchrom=spec["nchrom"], nsamples=spec["nsamples"], nvars=spec["nvars"], kinds=kinds,
                             het_fraction=spec["het"], min_gap=40, sample_names=snames, chrom_names=cnames)
    res = {"spec": spec, "steps": {}, "chroms": {}}
    xr = random.Random(spec["seed"] + 2)          # draws of the newer dimensions (keeps older replays reproducible)
    if spec.get("edges"):
        for c in sc.chroms:
            vs = sc.variants[c]
            if vs and vs[-1].kind == "snv" and vs[-1].pos - vs[0].pos >= 120 and xr.random() < 0.7:   # a variant on the last base
                sc.ref[c] = sc.ref[c][:vs[-1].pos + 1]
                res["edge_last"] = res.get("edge_last", 0) + 1
            if vs and vs[0].kind == "snv" and len(sc.ref[c]) - vs[0].pos >= 120 and xr.random() < 0.7:   # ... on the first base
                cut = vs[0].pos
                sc.ref[c] = sc.ref[c][cut:]
                for v in vs:
                    v.pos -= cut
                res["edge_first"] = res.get("edge_first", 0) + 1
    sc.alts = {}
    if spec.get("mavrec"):
        # genuinely multi-allelic SNVs: ALT "X,Y"; the sample's genotype uses alleles from {0, 1, 2}
        for c in sc.chroms:
            sc.alts[c] = {}
            for i, v in enumerate(sc.variants[c]):
                if v.kind == "snv" and xr.random() < spec["mavrec"]:
                    a2 = xr.choice([x for x in "ACGT" if x not in (v.ref, v.alt)])
                    sc.alts[c][i] = [v.alt, a2]
                    v.alt = v.alt + "," + a2
                    for s_ in sc.samples:
                        sc.haps[s_][c][i] = tuple(xr.choice([(1, 2), (2, 1), (0, 2), (2, 0), (0, 1), (2, 2)]))
    if spec.get("emptychrom"):
        name = "empty_ctg"
        sc.ref[name] = synth.random_seq(xr, 300)
        sc.variants[name] = []
        for s_ in sc.samples:
            sc.haps[s_][name] = []
        sc.chroms.insert(xr.randint(0, len(sc.chroms)), name)
        sc.ref = {c: sc.ref[c] for c in sc.chroms}
    groups = {}
    for c in sc.chroms:
        if not sc.variants[c]:
            continue
        if spec["homop"] and not spec.get("edges") and not spec.get("mavrec"):
            plant_homopolymers(rng, sc, c, spec["homop"])
        groups[c] = regions_for(rng, sc, c, spec["ngroups"])
        if spec.get("edges"):
            L = len(sc.ref[c])
            lo, hi, idx = groups[c][-1]
            if sc.variants[c][-1].pos == L - 1:
                groups[c][-1] = (lo, L, idx)
    # reads A (for phasing) and B (tagged / given to haplotagphase)
    raw = spec.get("rawtags")
    reads_a = []
    for s in sc.samples:
        for c in groups:
            for gi, (lo, hi, idx) in enumerate(groups[c]):
                pre = "r_" if spec.get("collide") else f"{s}_"
                ratio = xr.choice(SKEWS) if spec.get("skew") else (1, 1)
                res.setdefault("skews", []).append("%d:%d" % ratio)
                rr = simulate_region_reads(rng, sc, s, c, lo, hi, max(spec["cov"], 8) if ratio != (1, 1) else spec["cov"],
                                           (60, 220), f"{pre}{c}_g{gi}_r", feat=feat, full_span=raw["n"] if raw else 0,
                                           p0=ratio[0] / (ratio[0] + ratio[1]))
                for r_ in rr:
                    r_["gi"] = gi
                reads_a += rr
    if spec["bmode"] == "subsample":
        keepn = {r["name"] for r in reads_a if rng.random() < 0.5}
        reads_b = [r for r in reads_a if r["name"] in keepn]
    elif spec["bmode"] == "window":
        c = rng.choice(list(groups)) if groups else None
        vs = sc.variants[c] if c else []
        i = rng.randrange(len(vs)) if vs else 0
        w0 = vs[i].pos - rng.randint(0, 60) if vs else 0
        w1 = vs[min(len(vs) - 1, i + rng.randint(0, 2))].pos + rng.randint(1, 60) if vs else 0
        reads_b = [r for r in reads_a if not (r["chrom"] == c and r["start"] < w1 and r["end"] > w0)]
    elif spec["bmode"] == "dropsample":
        reads_b = [r for r in reads_a if r["sample"] == sc.samples[0]]      # the last sample has no reads at all
    elif spec["bmode"] == "dropchrom":
        gone = sorted(groups)[0] if groups else None
        reads_b = [r for r in reads_a if r["chrom"] != gone]                # a chromosome with records but no reads
    else:
        reads_b = list(reads_a)
    if not reads_b:
        reads_b = list(reads_a)      # whatshap rejects a BAM without any alignment ("No reads could be retrieved")
    if not reads_a:
        res["degenerate"] = "no read could be simulated"
        return res
    # read groups
    rgmode = spec.get("rg", "sample")
    irg = io.get("ignore_rg")
    if irg == "norg":
        rginfo = None
    elif irg == "foreign":
        rginfo = dict(header=[("lane1", "somebody_else")], of={sc.samples[0]: ["lane1"]})
    else:
        of, header = {}, []
        for k, s_ in enumerate(sc.samples):
            ids = [s_] if rgmode == "sample" else ([f"rg{7 - k}"] if rgmode == "ids" else [f"L{k}a", f"L{k}b"])
            of[s_] = ids
            header += [(i_, s_) for i_ in ids]
        xr.shuffle(header)
        rginfo = dict(header=header, of=of)
    irg_args = ["--ignore-read-groups"] if irg else []
    fa = synth.write_fasta(sc, os.path.join(d, "ref.fa"))
    synth.write_vcf(sc, os.path.join(d, "in.vcf"))
    write_bam2(sc, reads_a, os.path.join(d, "A.bam"), rginfo)
    write_bam2(sc, reads_b, os.path.join(d, "B.bam"), rginfo)

    # ---- step 1: the phased VCF
    phased = os.path.join(d, "phased.vcf")
    if spec["phi"] == "phase":
        rc, so, se = _cli(impl, ["phase", "--reference", fa, "-o", phased] + irg_args +
                          [os.path.join(d, "in.vcf"), os.path.join(d, "A.bam")], d)
        res["steps"]["phase"] = rc
        if rc != 0:
            res["failed"] = ("phase", se[-1500:])
            return res
    else:
        ph = {}
        flipinfo = {}
        flipped = synth.Scenario(sc.ref, sc.variants, sc.samples,
                                 {s: {c: list(h) for c, h in dd.items()} for s, dd in sc.haps.items()})
        for s in sc.samples:
            ph[s] = {}
            for c in groups:
                ph[s][c] = {}
                for lo, hi, idx in groups[c]:
                    het = [i for i in idx if sc.haps[s][c][i][0] != sc.haps[s][c][i][1]]
                    if spec["phi"] == "bridged" and len(het) >= 2:
                        parts = [[], []]
                        for i in het:
                            parts[rng.randint(0, 1)].append(i)
                        parts = [p for p in parts if p]
                    else:
                        parts = [het] if het else []
                    for part in parts:
                        psid = rng.choice([sc.variants[c][part[0]].pos + 1, rng.randint(1, 5000)])
                        if spec.get("psids") == "extreme":
                            psid = xr.choice([0, 1, 2147483647, psid])
                        flip = rng.randint(0, 1)
                        for i in part:
                            if spec["phi"] != "noisy" and rng.random() < 0.15:
                                continue                       # left unphased in the phased VCF
                            ph[s][c][i] = psid
                            f = flip ^ (1 if spec["phi"] == "noisy" and rng.random() < 0.3 else 0)
                            flipinfo[(s, c, i)] = f
                            if f:
                                a, b = flipped.haps[s][c][i]
                                flipped.haps[s][c][i] = (b, a)
        synth.write_vcf(flipped, phased, phased=ph)
        res["steps"]["phase"] = 0
    if spec.get("deco") or spec.get("missing"):
        decorate_vcf(xr, phased, spec.get("deco"), spec.get("missing", 0.0))
    if spec.get("symbolic"):
        res["symbolic"] = sorted(symbolize_vcf(xr, sc, phased, spec["symbolic"]).values())
    extra_keys = add_extra_records(rng, sc, phased) if spec.get("extras") else set()
    pysam.tabix_index(phased, preset="vcf", force=True, keep_original=True)

    # ---- history: the reads already carry HP/PS tags of an EARLIER haplotag run against another phasing of the
    # same haplotypes (every set in the opposite orientation, other phase set ids, also records the new VCF leaves
    # unphased), for all samples
    bam_in = os.path.join(d, "B.bam")
    sel_args = []
    unsel = []
    if spec.get("history"):
        assert spec["phi"] == "synthetic"
        ph_old = {}
        flipped_old = synth.Scenario(sc.ref, sc.variants, sc.samples,
                                     {s: {c: list(h) for c, h in dd.items()} for s, dd in sc.haps.items()})
        for s in sc.samples:
            ph_old[s] = {}
            for c in groups:
                ph_old[s][c] = {}
                for gi, (lo, hi, idx) in enumerate(groups[c]):
                    het = [i for i in idx if sc.haps[s][c][i][0] != sc.haps[s][c][i][1]]
                    newf = [flipinfo[(s, c, i)] for i in het if (s, c, i) in flipinfo]
                    fold = 1 - newf[0] if newf else rng.randint(0, 1)
                    for i in het:
                        ph_old[s][c][i] = 900000 + gi
                        if fold:
                            a, b = flipped_old.haps[s][c][i]
                            flipped_old.haps[s][c][i] = (b, a)
        old = os.path.join(d, "old.vcf")
        synth.write_vcf(flipped_old, old, phased=ph_old)
        pysam.tabix_index(old, preset="vcf", force=True, keep_original=True)
        tagged_old = os.path.join(d, "tagged_old.bam")
        rc, so, se = _cli(impl, ["haplotag", "--reference", fa, "-o", tagged_old, old + ".gz", bam_in], d)
        res["steps"]["haplotag_old"] = rc
        if rc != 0:
            res["failed"] = ("haplotag", se[-1500:])
            return res
        pysam.index(tagged_old)
        res["stale_tagged"] = sum(1 for a in decode_bam(tagged_old, sc.samples) if a[4] is not None)
        bam_in = tagged_old
        if spec["history"] == "first" and len(sc.samples) > 1:
            sel_args = ["--sample", sc.samples[0]]
            unsel = list(range(1, len(sc.samples)))

    # ---- step 2: haplotag
    tagged = os.path.join(d, "tagged.bam")
    if raw:
        # the harness writes the HP/PS tags itself: per region the tags of the phasing, `wrong` of the n reads with the
        # other haplotype, some reads with HP 0 / 3 or PS 0 / no PS
        by_region = {}
        for r in reads_b:
            by_region.setdefault((r["sample"], r["chrom"], r["gi"]), []).append(r)
        for (s_, c, gi), rs in by_region.items():
            idx = groups[c][gi][2]
            phd = [i for i in idx if i in ph[s_][c]]
            if not phd:
                continue
            f0, psid = flipinfo[(s_, c, phd[0])], ph[s_][c][phd[0]]
            bad = set(xr.sample(range(len(rs)), int(round(raw["wrong"] * len(rs)))))
            for k, r in enumerate(rs):
                hp = (r["hap"] ^ f0) + 1
                if k in bad:
                    hp = 3 - hp
                tags = [("HP", hp), ("PS", psid)]
                if xr.random() < raw["odd"]:
                    tags = xr.choice([[("HP", 0), ("PS", psid)], [("HP", 3), ("PS", psid)], [("HP", hp), ("PS", 0)],
                                      [("HP", hp)], [("PS", psid)]])
                r["tags"] = tags
        write_bam2(sc, reads_b, tagged, rginfo)
    elif spec["bmode"] == "untagged":
        write_bam2(sc, reads_b, tagged, rginfo)            # haplotag never ran: no read carries a tag
    else:
        hopts = list(io.get("haplotag") or [])
        args = ["haplotag", "-o", tagged] + irg_args + sel_args
        args += ["--no-reference"] if "--no-reference" in hopts else ["--reference", fa]
        for o in hopts:
            if o == "--regions":
                for c in sc.chroms:
                    args += ["--regions", xr.choice([c, f"{c}:1-{len(sc.ref[c])}", f"{c}:1"])]
            elif o != "--no-reference":
                args.append(o)
        rc, so, se = _cli(impl, args + [phased + ".gz", bam_in], d)
        res["steps"]["haplotag"] = rc
        if rc != 0:
            res["failed"] = ("haplotag", se[-1500:])
            return res
        pysam.index(tagged)

    # ---- step 3: unphase (real CLI), then put some phased records back
    rc, so, se = _cli(impl, ["unphase", phased], d)
    res["steps"]["unphase"] = rc
    if rc != 0:
        res["failed"] = ("unphase", se[-1500:])
        return res
    plines = [l for l in open(phased).read().splitlines()]
    ulines = [l for l in so.splitlines()]
    phead, pbody = [l for l in plines if l.startswith("#")], [l for l in plines if not l.startswith("#")]
    ubody = [l for l in ulines if not l.startswith("#")]
    if len(pbody) != len(ubody):
        res["failed"] = ("unphase", f"unphase wrote {len(ubody)} records for {len(pbody)} input records")
        return res
    body = []
    nkept = 0
    unrec = spec.get("unrec", 0.0)
    for pl, ul in zip(pbody, ubody):
        fp = pl.split("\t")
        is_extra = (fp[0], fp[1], fp[4]) in extra_keys
        pcalls = parse_calls(fp)
        has_phase = any("|" in g for g, _ in pcalls)
        has_hom = any("|" not in g and len(set(g.split("/"))) == 1 and "." not in g for g, _ in pcalls)
        if is_extra:
            # a record the reader and the writer skip (no ALT / duplicate position), written phased
            if rng.random() < 0.7:
                ps = rng.choice([4242, int(fp[1])])
                body.append(build_line(fp, [(g.replace("/", "|"), ps) for g, _ in pcalls], True))
                nkept += 1
            else:
                body.append(ul)
            continue
        choices = (["hom"] if has_hom else []) + (["nops", "psdot"] if has_phase else [])
        if choices and rng.random() < unrec:
            mode = rng.choice(choices)
            keep = has_phase and rng.random() < max(spec["prephase"], 0.5)
            base = pcalls if (keep or mode != "hom") else parse_calls(ul.split("\t"))
            if mode == "hom":
                pss = [p_ for g, p_ in pcalls if p_ not in (None, ".")]
                ps = rng.choice(pss + [4242])
                calls = [((g.replace("/", "|"), ps) if ("|" not in g and len(set(g.split("/"))) == 1 and "." not in g
                                                        and rng.random() < 0.8) else (g, p_)) for g, p_ in base]
                body.append(build_line(fp, calls, True))
            elif mode == "nops":
                body.append(build_line(fp, [(g, None) for g, _ in base], False))        # FORMAT = GT
            else:
                body.append(build_line(fp, [(g, "." if "|" in g else p_) for g, p_ in base], True))
            nkept += 1
            continue
        if has_phase and rng.random() < spec["prephase"]:
            f = list(fp)
            if spec["foreign"] and rng.random() < 0.5 and f[8] == "GT:PS":
                g, ps = f[9].split(":")
                if "|" in g:
                    a, b = g.split("|")
                    f[9] = f"{b}|{a}:{rng.choice([7777, ps])}"
            body.append("\t".join(f))
            nkept += 1
        else:
            body.append(ul)
    if spec.get("nomav"):
        # multi-ALT records (skipped under --no-mav): a second, unused ALT allele on some SNV records
        for i, l in enumerate(body):
            f = l.split("\t")
            if len(f[3]) == 1 and len(f[4]) == 1 and f[4] in "ACGT" and (f[0], f[1], f[4]) not in extra_keys \
                    and rng.random() < 0.3:
                f[4] = f[4] + "," + [x for x in "ACGT" if x not in (f[3], f[4])][0]
                body[i] = "\t".join(f)
    inp = os.path.join(d, "inp.vcf")
    with open(inp, "w") as f:
        f.write("\n".join(phead + body) + "\n")
    res["nkept"] = nkept

    # ---- step 4: haplotagphase through the CLI
    final = os.path.join(d, "final.vcf")
    pr = spec.get("params") or {}
    extra = []
    if "gap" in pr:
        extra += ["--gap-threshold", pr["gap"]]
    if "cut" in pr:
        extra += ["--cut-poly", pr["cut"]]
    if pr.get("only_indels"):
        extra += ["--only-indels"]
    if spec.get("nomav"):
        extra += ["--no-mav"]
    extra += irg_args
    sel_chrom = None
    real_chroms = [c for c in sc.chroms if sc.variants[c]]
    if io.get("chromosome") is not None and real_chroms:
        sel_chrom = real_chroms[io["chromosome"] % len(real_chroms)]
        extra += ["--chromosome", sel_chrom]
    if spec.get("twice"):
        # history: haplotagphase applied to its own output (with the same reads)
        first = os.path.join(d, "first.vcf")
        rc, so, se = _cli(impl, ["haplotagphase", "--reference", fa, "-o", first] + extra + [inp, tagged], d)
        res["steps"]["haplotagphase_first"] = rc
        if rc != 0:
            res["failed"] = ("haplotagphase", se[-1500:])
            return res
        inp = first
    inp_arg = inp
    if io.get("gz"):
        pysam.tabix_index(inp, preset="vcf", force=True, keep_original=True)
        inp_arg = inp + ".gz"
    rc, so, se = _cli(impl, ["haplotagphase", "--reference", fa] + ([] if io.get("stdout") else ["-o", final]) + extra +
                      [inp_arg, tagged], d)
    res["steps"]["haplotagphase"] = rc
    if rc != 0:
        res["failed"] = ("haplotagphase", se[-1500:])
        return res
    if io.get("stdout"):
        with open(final, "w") as fh:
            fh.write(so)

    # ---- the same run in process, with the arguments/results of compute_votes and consensus recorded
    import logging
    import whatshap.cli.haplotagphase as H
    logging.getLogger("whatshap").setLevel(logging.ERROR)
    cap = []
    cv0, cs0 = H.compute_votes, H.consensus

    def cv(is_hom, reads, a2i):
        v = cv0(is_hom, reads, a2i)
        cap.append(("votes",
                    [[r.PS_tag, r.HP_tag, [[x.position, x.allele, x.quality] for x in r]] for r in reads],
                    [[p, [[k[0], k[1], w] for k, w in m.items()]] for p, m in v.items()]))
        return v

    def cs(*a, **kw):
        sr, comp = cs0(*a, **kw)
        assert len(sr) == 2 and len(sr[0]) == len(sr[1])
        cap.append(("cons", [[x.position, x.allele, y.allele, x.quality] for x, y in zip(sr[0], sr[1])],
                    [[p, k] for p, k in comp.items()]))
        return sr, comp
    H.compute_votes, H.consensus = cv, cs
    try:
        final2 = os.path.join(d, "final_inproc.vcf")
        H.run_haplotagphase(variant_file=inp_arg, alignment_file=tagged, reference=fa, output=final2,
                            write_command_line_header=False, gap_threshold=pr.get("gap", 70),
                            cut_poly=pr.get("cut", 10), only_indels=bool(pr.get("only_indels")),
                            mav=not spec.get("nomav"), ignore_read_groups=bool(irg),
                            chromosomes=[sel_chrom] if sel_chrom else [])
    except BaseException:
        res["inproc_exc"] = traceback.format_exc()[-1500:]
        return res
    finally:
        H.compute_votes, H.consensus = cv0, cs0
    b1 = [l for l in open(final).read().splitlines() if not l.startswith("##")]
    b2 = [l for l in open(final2).read().splitlines() if not l.startswith("##")]
    res["inproc_equal"] = b1 == b2

    # ---- decode
    try:
        samples, t_orig = decode_vcf(phased)
        _, t_inp = decode_vcf(inp)
        _, t_out = decode_vcf(final)
        aln = decode_bam(tagged, samples)
    except Exception:
        res["unreadable"] = traceback.format_exc()[-1500:]
        return res
    chroms = [c for c in sc.chroms if c in t_inp]
    nproc = sum(1 for c in chroms if sel_chrom is None or c == sel_chrom)
    if len(cap) != 2 * len(samples) * nproc:
        res["inproc_exc"] = f"compute_votes/consensus were called {len(cap)} times for {nproc} chromosomes x {len(samples)} samples"
        return res
    ci = 0
    for c in chroms:
        votes, csts, readss = [], [], []
        untouched = sel_chrom is not None and c != sel_chrom
        for s in samples:
            if untouched:
                readss.append([])
                votes.append([])
                csts.append([[], []])
                continue
            kv, kc = cap[ci], cap[ci + 1]
            ci += 2
            assert kv[0] == "votes" and kc[0] == "cons"
            readss.append(kv[1])
            votes.append(kv[2])
            csts.append([kc[1], kc[2]])
        orig, inpt, out = t_orig.get(c, []), t_inp[c], t_out.get(c, [])
        cover = []
        for si in range(len(samples)):
            cover.append([[a[5] for a in aln if a[0] == c and a[1] == si and a[4] is not None and a[5] is not None
                           and a[2] <= rec[0] < a[3]] for rec in inpt])
        rsets = []
        for a in aln:
            if a[0] != c:
                continue
            sets = []
            for rec in orig:
                g, phd, ps = rec[3][a[1]]
                if phd and ps is not None and len(set(g)) > 1 and a[2] <= rec[0] < a[3]:
                    sets.append(ps)
            rsets.append(sets)
        res["chroms"][c] = dict(ref=[BASE_CODE.get(b, 4) for b in sc.ref[c]], orig=orig, inp=inpt, out=out,
                                reads=readss, votes=votes, cst=csts, cover=cover, rsets=rsets, mav=not spec.get("nomav"),
                                unsel=unsel, untouched=untouched)
    return res


# =============================================================================== rendering
def call_term(c):
    gt, phased, ps = c
    return Raw(f"(mkCall {term([None if a is None else _some(a) for a in gt])} {term(bool(phased))} {term(_opt(ps))})")


def _some(x):
    from ..coqeval import Some
    return Some(x)


def _opt(x):
    from ..coqeval import opt
    return opt(x)


def table_term(t):
    return term([Raw(f"(mkRec {term(r[0])} {term(bool(r[1]))} {term(bool(r[2]))} {term([call_term(c) for c in r[3]])})")
                 for r in t])


def reads_term(rs):
    return term([Raw(f"(mkRead {term(r[0])} {term(r[1])} "
                     + term([Raw(f"(mkRV {term(v[0])} {term(v[1])} {term(v[2])})") for v in r[2]]) + ")") for r in rs])


def votes_term(v):
    return term([(p, [((k[0], k[1]), k[2]) for k in m]) if m else Raw(f"({term(p)}, @nil (vkey * Z))") for p, m in v])


def cst_term(c):
    svs, comps = c
    a = term([Raw(f"(mkSV {term(x[0])} {term(x[1])} {term(x[2])} {term(x[3])})") for x in svs]) if svs else "(@nil sv)"
    b = term([(p, k) for p, k in comps]) if comps else "(@nil (Z * Z))"
    return Raw(f"({a}, {b})")


def _zl(xs):
    return term(list(xs)) if xs else "(@nil Z)"


def case_term(spec, ch):
    pr = spec.get("params") or {}
    params = f"(mkParams {term(bool(pr.get('only_indels')))} {term(pr.get('gap', 70))} {term(pr.get('cut', 10))})"
    cover = "[" + "; ".join("[" + "; ".join(_zl(x) for x in per) + "]" if per else "(@nil (list Z))"
                            for per in ch["cover"]) + "]"
    rsets = ("[" + "; ".join(_zl(x) for x in ch["rsets"]) + "]") if ch["rsets"] else "(@nil (list Z))"
    reads = "[" + "; ".join(reads_term(r) if r else "(@nil read)" for r in ch["reads"]) + "]"
    votes = "[" + "; ".join(votes_term(v) if v else "(@nil (Z * inner))" for v in ch["votes"]) + "]"
    csts = "[" + "; ".join(cst_term(c) for c in ch["cst"]) + "]"
    return (f"(mkCase {params} {_zl(ch['ref'])} {table_term(ch['orig'])} {table_term(ch['inp'])} "
            f"{table_term(ch['out'])} {reads} {votes} {csts} {cover} {rsets} {term(bool(ch.get('mav', True)))} "
            f"{_zl([r[4] for r in ch['inp']])} "
            + ("[" + "; ".join(f"{i}%nat" for i in ch.get("unsel", [])) + "]" if ch.get("unsel") else "(@nil nat)")
            + " " + term(bool(ch.get("untouched"))) + ")")


CHECKS = {
    "proviso": "l1_proviso",
    "L1order": "l1_order",
    "L1ps": "l1_ps",
    "L1pre0": "l1_prephased_class 0",
    "L1pre1": "l1_prephased_class 1",
    "L1pre2": "l1_prephased_class 2",
    "L1unsel": "l1_unselected",
    "L2cur": "l2_run Cur",
    "L2fix": "l2_run Fixed",
    "L2votes": "l2_votes",
    "L2consCur": "l2_cons Cur",
    "L2consFix": "l2_cons Fixed",
    "L2tags": "l2_tags",
    "Hef": "hyp_error_free",
    "Hsites": "hyp_sites",
}
CONSISTENT_STREAMS = ("plain", "prephased", "unrecognised", "params", "foreign", "history")   # the phased VCF is a phasing of the reads' haplotypes


# =============================================================================== python-side summaries
def nontrivial(ch):
    """haplotagphase phased at least two records of one phase set (in some sample)"""
    for si in range(len(ch["reads"])):
        cnt = {}
        for ri, ro in zip(ch["inp"], ch["out"]):
            ci, co = ri[3][si], ro[3][si]
            if co[1] and not ci[1]:
                cnt[co[2]] = cnt.get(co[2], 0) + 1
        if any(v >= 2 for v in cnt.values()):
            return True
    return False


def skip_flags(ch):
    """python mirror of HaplotagPhase.skip_flags (messages and tallies only)"""
    mav, prev, out = ch.get("mav", True), None, []
    for r in ch["inp"]:
        if r[4] == 0 or (r[4] > 1 and not mav) or prev == r[0]:
            out.append(True)
        else:
            out.append(False)
            prev = r[0]
    return out


def call_class(skip, pskey, c):
    het = len(c[0]) == 2 and None not in c[0] and c[0][0] != c[0][1]
    if not skip and het:
        return 0 if (pskey and c[2] is not None) else 1
    return 2


def classify_alteration(skip, pskey, ci, co, voted):
    """signature for one altered pre-phased call: one of the four known residual classes only if both the input class
    and the observed alteration are exactly the recorded ones, SIG_PRE otherwise"""
    gt_i, _, ps_i = ci
    gt_o, ph_o, ps_o = co
    called = None not in gt_i
    unphased_same = (not ph_o) and called and gt_o == sorted(gt_i)
    if skip:
        # only _remove_existing_phasing acts on the record: `|` -> `/`, alleles sorted, PS value cleared
        return SIG_SKIP if unphased_same and ps_o is None else SIG_PRE
    cls = call_class(skip, pskey, ci)
    if cls == 2 and len(gt_i) == 2 and called and gt_i[0] == gt_i[1]:
        # a|a:PS -> a/a:. (_remove_existing_phasing clears the PS value)
        return SIG_HOM if unphased_same and ps_o is None else SIG_PRE
    if cls == 1 and not pskey:
        return SIG_NOKEY if ph_o and gt_o == gt_i and ps_o == 0 else SIG_PRE
    if cls == 1 and pskey and ps_i is None:
        if voted:       # re-phased from the votes into the phase set of the reads (either order)
            return SIG_PSDOT if ph_o and sorted(gt_o) == sorted(gt_i) and ps_o is not None else SIG_PRE
        return SIG_PSDOT if unphased_same and ps_o is None else SIG_PRE      # no vote at all: left unphased
    return SIG_PRE


def altered_prephased(ch, cls=None):
    """[(1-based pos, sample index, input call, output call, signature)]"""
    out = []
    voted = [set(p for p, _ in v) for v in ch["votes"]]
    for sk, ri, ro in zip(skip_flags(ch), ch["inp"], ch["out"]):
        for si, (ci, co) in enumerate(zip(ri[3], ro[3])):
            if ci[1] and (ci[0] != co[0] or ci[1] != co[1] or ci[2] != co[2]):
                if cls is None or call_class(sk, ri[2], ci) == cls:
                    out.append((ri[0] + 1, si, ci, co,
                                classify_alteration(sk, ri[2], ci, co, si < len(voted) and ri[0] in voted[si])))
    return out


def fmt_call(c):
    g = ("|" if c[1] else "/").join("." if a is None else str(a) for a in c[0])
    return g + (":" + str(c[2]) if c[2] is not None else "")


# =============================================================================== driver
def tally_dimensions(ctx, spec, r):
    """one counter per value of every generator dimension (ends up in evidence: coverage.input_distribution)"""
    t = ctx.tally
    io, feat = spec.get("io") or {}, spec.get("feat") or {}
    t(f"dim.nsamples.{spec['nsamples']}")
    t(f"dim.nchrom.{spec['nchrom']}")
    t("dim.nvars." + ("1-3" if spec["nvars"] <= 3 else "4-14"))
    t(f"dim.het_fraction.{spec['het']}")
    t(f"dim.names.{spec.get('names', 'plain')}")
    t(f"dim.read_groups.{io.get('ignore_rg') and 'ignore-read-groups:' + io['ignore_rg'] or spec.get('rg', 'sample')}")
    for k in ("pairs", "bx", "lowq", "dup", "edge"):
        if feat.get(k):
            t(f"dim.reads.{k}")
    for k in ("edges", "emptychrom", "deco", "twice", "collide", "extras", "nomav", "foreign"):
        if spec.get(k):
            t(f"dim.{k}")
    if spec.get("missing"):
        t("dim.missing_genotypes")
    if spec.get("mavrec"):
        t("dim.multiallelic_genotypes")
    t(f"dim.psids.{spec.get('psids', 'usual')}")
    t("dim.output." + ("stdout" if io.get("stdout") else "file"))
    t("dim.input_vcf." + ("gz+tbi" if io.get("gz") else "plain"))
    if io.get("chromosome") is not None:
        t("dim.option.--chromosome")
    for o in io.get("haplotag") or []:
        t("dim.haplotag_option." + o)
    pr = spec.get("params") or {}
    for k, v in pr.items():
        t(f"dim.param.{k}={v}")
    if spec.get("rawtags"):
        t(f"dim.rawtags.n={spec['rawtags']['n']},wrong={spec['rawtags']['wrong']}")
    for x in r.get("skews", []):
        t("dim.region_coverage_hap0:hap1." + x)
    for x in r.get("symbolic", []):
        t("dim.symbolic_alt_record." + x)
    for k in ("edge_first", "edge_last"):
        if r.get(k):
            t("dim.variant_on_" + ("first" if k == "edge_first" else "last") + "_base", r[k])


def run_specs(ctx, specs, label):
    base = workdir(ctx)
    jobs = [dict(spec=s, impl=ctx.impl, dir=os.path.join(base, f"p{i}")) for i, s in enumerate(specs)]
    with ProcessPoolExecutor(max_workers=12) as ex:
        results = list(ex.map(run_pipeline, jobs))
    cases, meta = [], []
    for r in results:
        spec = r["spec"]
        ctx.tally(f"pipelines.{label}")
        ctx.tally(f"stream.{spec['stream']}")
        ctx.tally(f"phi.{spec['phi']}")
        ctx.tally(f"bmode.{spec['bmode']}")
        if spec.get("history"):
            ctx.tally(f"history.second_run_selects_{spec['history']}")
            ctx.tally("history.alignments_with_stale_tags", r.get("stale_tagged", 0))
        tally_dimensions(ctx, spec, r)
        if "degenerate" in r:
            ctx.tally("pipelines.degenerate_not_run")
            continue
        if "fatal" in r:
            if "ModuleNotFoundError" in r["fatal"] or "ImportError" in r["fatal"]:
                raise RuntimeError("pipeline worker crashed:\n" + r["fatal"])
            # an exception while driving or decoding the implementation's files: reported with the input, not swallowed
            ctx.count(("fatal", json.dumps(spec, sort_keys=True)), nontrivial=False)
            ctx.violation("pipeline:exception", f"exception while running the pipeline / reading its files (spec {spec}): "
                          + r["fatal"][-700:], {"spec": spec})
            continue
        if "failed" in r:
            step, msg = r["failed"]
            if "ModuleNotFoundError" in msg or "ImportError" in msg:
                # the shared scratch build was rebuilt by another process while this check was running
                raise RuntimeError(f"scratch build unusable while running `whatshap {step}` (rebuilt concurrently?): "
                                   + msg[-400:])
            ctx.count(("failed", json.dumps(spec, sort_keys=True)), nontrivial=False)
            sig = f"pipeline:{step}-failed"
            if step == "haplotagphase" and spec.get("missing") and "realign" in msg and "IndexError" in msg:
                sig = SIG_MISSING
            ctx.violation(sig, f"`whatshap {step}` exits non-zero on generated input "
                          f"(spec {spec}): {msg[-600:]}", {"spec": spec, "signature": sig})
            continue
        if "inproc_exc" in r:
            ctx.count(("inproc", json.dumps(spec, sort_keys=True)), nontrivial=False)
            ctx.violation("haplotagphase:run_haplotagphase-raises", "the CLI run succeeds but run_haplotagphase called in "
                          f"process on the same files fails (spec {spec}): {r['inproc_exc'][-600:]}", {"spec": spec})
            continue
        if "unreadable" in r:
            ctx.count(("unreadable", json.dumps(spec, sort_keys=True)), nontrivial=False)
            ctx.violation("haplotagphase:output-unreadable", f"a file of the pipeline cannot be read back with pysam "
                          f"(spec {spec}): {r['unreadable'][-600:]}", {"spec": spec})
            continue
        if not r.get("inproc_equal", True):
            ctx.violation("haplotagphase:cli-differs-from-run_haplotagphase",
                          f"CLI output and in-process run_haplotagphase output differ (spec {spec})", {"spec": spec})
        for c, ch in r["chroms"].items():
            cases.append(case_term(spec, ch))
            meta.append((spec, c, ch))
            key = (json.dumps(ch["inp"]), json.dumps(ch["reads"]))
            ctx.count(key, nontrivial=nontrivial(ch))
            ctx.tally("records", len(ch["inp"]))
            ctx.tally("reads", sum(len(x) for x in ch["reads"]))
            ctx.tally("prephased_calls", sum(1 for rec in ch["inp"] for c_ in rec[3] if c_[1]))
            for sk, rec in zip(skip_flags(ch), ch["inp"]):
                if sk:
                    ctx.tally("records_skipped_by_reader_and_writer")
                for c_ in rec[3]:
                    if c_[1]:
                        ctx.tally("prephased_calls.class%d" % call_class(sk, rec[2], c_))
            # genotype classes of neighbouring records (the reader restricts every record to its own genotype)
            for si_ in range(len(ch["reads"])):
                seen_sym = False
                prev = None
                for rec, na in zip(ch["inp"], [x[4] for x in ch["inp"]]):
                    g = rec[3][si_][0]
                    cls = ("missing" if (not g or None in g) else "hom%d" % g[0] if len(set(g)) == 1
                           else "het0%d" % max(g) if 0 in g else "het12")
                    if prev is not None and prev != cls:
                        ctx.tally(f"neighbours.{prev}->{cls}" + (".after_symbolic" if seen_sym else ""))
                    prev = cls
                    if rec[5]:
                        seen_sym = True
            if ch.get("untouched"):
                ctx.tally("cases.chromosome_not_requested")
            if not ch["inp"] or not any(ch["reads"]):
                ctx.tally("cases.no_reads_for_any_sample")
            for v_ in ch["votes"]:
                for p_, m_ in v_:
                    ws = sorted((w for _, _, w in m_), reverse=True)
                    tot = sum(ws)
                    if len(ws) >= 2 and ws[0] == ws[1]:
                        ctx.tally("votes.tie_for_best")
                    if tot and 100 * ws[0] == 70 * tot:
                        ctx.tally("votes.fraction_exactly_at_threshold_70")
                    elif tot and 100 * ws[0] < 70 * tot:
                        ctx.tally("votes.fraction_below_70")
                    if len(m_) > 2:
                        ctx.tally("votes.position_with_two_phase_sets")
            for rs_ in ch["reads"]:
                for r_ in rs_:
                    if r_[1] not in (-1, 1, 2) or r_[0] in (0,):
                        ctx.tally("reads.odd_HP_or_PS_tag")
            ctx.tally("newly_phased_calls", sum(1 for ri, ro in zip(ch["inp"], ch["out"])
                                                for a, b in zip(ri[3], ro[3]) if b[1] and not a[1]))
    if not cases:
        return meta, {k: [] for k in CHECKS}
    failing, errors = eval_checks("C17", HEADER, CHECKS, cases, shard=8)
    if errors:
        raise RuntimeError("coq evaluation failed: " + errors[0][1])
    return meta, failing


def report(ctx, meta, failing):
    """turn the Coq verdicts into violations / L2 disagreements"""
    n = len(meta)
    prov_fail = set(failing["proviso"])
    ctx.tally("cases.proviso_holds", n - len(prov_fail))
    ctx.tally("cases.proviso_fails", len(prov_fail))
    texts = {
        SIG_PRE: "haplotagphase alters calls that are already phased in its input",
        SIG_HOM: "haplotagphase unphases an already phased homozygous call (a|a:PS -> a/a)",
        SIG_SKIP: "haplotagphase unphases already phased calls on a record the writer skips (no ALT / duplicate "
                  "position / multi-ALT under --no-mav)",
        SIG_NOKEY: "an already phased heterozygous call without a PS key comes out with PS = 0",
        SIG_PSDOT: "an already phased heterozygous call whose PS value is '.' is rewritten from the read votes",
    }
    for cls, lab in ((0, "L1pre0"), (1, "L1pre1"), (2, "L1pre2")):      # verdicts (which case fails) come from Coq
        for i in failing[lab]:
            spec, c, ch = meta[i]
            by_sig = {}
            for p, si, a, b, sig in altered_prephased(ch, cls):
                by_sig.setdefault(sig, []).append((p, si, a, b))
            if not by_sig:      # Coq and the python mirror disagree on what is altered: never a known class
                by_sig[SIG_PRE] = []
            for sig, alt in by_sig.items():
                what = "; ".join(f"{c}:{p} sample#{si} {fmt_call(a)} -> {fmt_call(b)}" for p, si, a, b in alt[:4])
                ctx.tally("violations." + sig.split(":")[1])
                ctx.violation(sig, f"{texts[sig]}: {what} (pipeline spec {spec})", {"spec": spec, "signature": sig})
    for i in failing["L1unsel"]:
        spec, c, ch = meta[i]
        bad = [f"{c}:{ri[0] + 1} sample#{si} {fmt_call(ri[3][si])} -> {fmt_call(ro[3][si])}"
               for ri, ro in zip(ch["inp"], ch["out"]) for si in ch.get("unsel", [])
               if ro[3][si][1] and not ri[3][si][1]]
        ctx.violation(SIG_STALE, "a sample that the last haplotag run did not select (--sample) is phased by haplotagphase, "
                      "i.e. from HP/PS tags of an earlier haplotag run that should have been removed: " + "; ".join(bad[:4]) +
                      f" (pipeline spec {spec})", {"spec": spec, "signature": SIG_STALE})
    for lab, sig, txt in (("L1order", "haplotagphase:order-differs",
                           "a variant phased by haplotagphase has another haplotype order than in the phased VCF that tagged the reads"),
                          ("L1ps", "haplotagphase:ps-differs",
                           "a variant phased by haplotagphase has a phase set that no covering tagged read carries")):
        for i in failing[lab]:
            spec, c, ch = meta[i]
            if spec["stream"] in ("noisy", "rawtags"):
                # by construction the phased VCF / the tags contradict the reads' haplotypes: outside the property's
                # precondition (L2-only streams); haplotagphase rightly follows the tagged reads there
                ctx.tally(spec["stream"] + "." + lab + ".not_applicable")
                continue
            sig_, txt_ = sig, txt
            sym_phased = any(rec[5] and any(c_[1] for c_ in rec[3]) for rec in ch["orig"])
            if "--no-reference" in ((spec.get("io") or {}).get("haplotag") or []) and sym_phased:
                sig_ = SIG_NOREF_SYM
                txt_ = ("haplotag --no-reference with a phased symbolic-ALT record in the VCF: the CIGAR-based allele "
                        "detection reads every alignment as REF at that record (also those that carry the deletion) and tags "
                        "the reads from it; " + txt)
            elif spec.get("collide"):
                sig_ = SIG_COLLIDE
                txt_ = ("with read names shared by two samples of the BAM, haplotag tags a read with the decision made for "
                        "the other sample's read of that name; " + txt)
            ctx.violation(sig_, f"{txt_} (chromosome {c}, pipeline spec {spec})", {"spec": spec, "signature": sig_})
    # L2: the code follows the model with the repaired rule (Fixed); a tree that follows Cur is a disagreement
    cur_bad = sorted(set(failing["L2cur"]) | set(failing["L2consCur"]))
    fix_bad = sorted(set(failing["L2fix"]) | set(failing["L2consFix"]))
    l2 = []
    if failing["L2votes"]:
        l2.append(("HaplotagPhase.compute_votes = compute_votes (L2)", failing["L2votes"]))
    # under --no-mav the multi-ALT records are missing from the reads haplotagphase sees, so the tag decision cannot be
    # replayed on them (haplotag saw these records as biallelic)
    def tags_replayable(sp):
        # the tag decision is replayed on the reads haplotagphase sees; not possible when haplotag saw other records
        # (--no-mav / multi-allelic records are skipped by haplotag), pooled linked reads, or never ran
        io_, feat_ = sp.get("io") or {}, sp.get("feat") or {}
        return not (sp.get("nomav") or sp.get("mavrec") or sp.get("rawtags") or sp["bmode"] == "untagged"
                    or "--no-reference" in (io_.get("haplotag") or [])      # other allele detection at tagging time
                    or (feat_.get("dup") and feat_.get("pairs"))    # haplotag reads duplicate-flagged mates, haplotagphase not
                    or (feat_.get("bx") and "--ignore-linked-read" not in (io_.get("haplotag") or [])))
    tags_bad = [i for i in failing["L2tags"] if tags_replayable(meta[i][0])]
    # shared read names: a tag that is not the sample's own decision is the same defect as SIG_COLLIDE; it is a violation
    # of this property only where it changes what haplotagphase phases (L1 above), so it is tallied, not reported
    ctx.tally("collide.cases_with_foreign_tags", sum(1 for i in tags_bad if meta[i][0].get("collide")))
    tags_bad = [i for i in tags_bad if not meta[i][0].get("collide")]
    if tags_bad:
        l2.append(("HaplotagPhase.tags_of (haplotag_decide) = HP/PS tags written by haplotag (L2)", tags_bad))
    # the premises of the theorems hold on the data for which clause 1 is checked
    prem_bad = [i for i in sorted(set(failing["Hef"]) | set(failing["Hsites"]))
                if i not in prov_fail and meta[i][0]["stream"] in CONSISTENT_STREAMS]
    ctx.tally("cases.theorem_premises_hold",
              sum(1 for i in range(n) if i not in prov_fail and meta[i][0]["stream"] in CONSISTENT_STREAMS) - len(prem_bad))
    if prem_bad:
        l2.append(("premises of C17_consensus_reproduces (error_free, same sites) hold on the generated pipelines", prem_bad))
    if fix_bad:
        l2.append(("HaplotagPhase.haplotagphase_file Fixed / consensus Fixed = run_haplotagphase / consensus (L2)", fix_bad))
    rule = "Fixed" if not fix_bad else ("Cur" if not cur_bad else "neither")
    return rule, l2


def run(ctx):
    rng = ctx.rng
    specs = []
    # corpus: a phasing with an uncovered pre-phased record; the plain pipeline
    specs.append(dict(seed=17, stream="prephased", nvars=6, nsamples=1, nchrom=1, het=1.0, ngroups=2, cov=5, homop=0.0,
                      phi="synthetic", bmode="window", prephase=1.0, foreign=False, params=None))
    specs.append(dict(seed=18, stream="plain", nvars=8, nsamples=1, nchrom=1, het=0.85, ngroups=2, cov=8, homop=0.8,
                      phi="phase", bmode="same", prephase=0.0, foreign=False, params=None))
    # corpus: pre-phased calls that VcfReader does not recognise as phased (homozygous a|a, a|b without PS,
    # records without ALT / at a duplicate position, multi-ALT under --no-mav, a sample without reads)
    specs.append(dict(seed=21, stream="unrecognised", nvars=6, nsamples=1, nchrom=1, het=0.5, ngroups=1, cov=5, homop=0.0,
                      phi="synthetic", bmode="same", prephase=1.0, foreign=False, params=None, unrec=1.0, extras=True,
                      nomav=False))
    specs.append(dict(seed=22, stream="unrecognised", nvars=7, nsamples=2, nchrom=1, het=0.7, ngroups=2, cov=5, homop=0.0,
                      phi="phase", bmode="dropsample", prephase=1.0, foreign=False, params=None, unrec=0.6, extras=True,
                      nomav=False))
    specs.append(dict(seed=23, stream="unrecognised", nvars=8, nsamples=1, nchrom=1, het=0.7, ngroups=2, cov=8, homop=0.0,
                      phi="phase", bmode="same", prephase=0.6, foreign=False, params=None, unrec=0.3, extras=False,
                      nomav=True))
    # corpus: reads carrying the tags of an earlier haplotag run; the second run selects only the first sample
    specs.append(dict(seed=31, stream="history", nvars=8, nsamples=2, nchrom=1, het=1.0, ngroups=2, cov=5, homop=0.0,
                      phi="synthetic", bmode="same", prephase=0.0, foreign=False, params=None, unrec=0.0, extras=False,
                      nomav=False, history="first"))
    specs.append(dict(seed=41, stream="rawtags", nvars=6, nsamples=1, nchrom=1, het=1.0, ngroups=2, cov=5, homop=0.0,
                      phi="synthetic", bmode="same", prephase=0.0, foreign=False, params=None, unrec=0.0, extras=False,
                      nomav=False, rawtags=dict(n=10, wrong=0.3, odd=0.0)))          # fraction exactly 0.7
    specs.append(dict(seed=42, stream="rawtags", nvars=6, nsamples=1, nchrom=1, het=1.0, ngroups=2, cov=5, homop=0.0,
                      phi="synthetic", bmode="same", prephase=0.0, foreign=False, params={"gap": 50}, unrec=0.0,
                      extras=False, nomav=False, rawtags=dict(n=4, wrong=0.5, odd=0.2)))   # ties
    # corpus: two samples whose reads share their names; a call with a missing genotype under the reads
    specs.append(dict(seed=57, stream="plain", nvars=6, nsamples=2, nchrom=1, het=1.0, ngroups=1, cov=8, homop=0.0,
                      phi="synthetic", bmode="same", prephase=0.0, foreign=False, params=None, unrec=0.0, extras=False,
                      nomav=False, collide=True))
    specs.append(dict(seed=53, stream="plain", nvars=6, nsamples=1, nchrom=1, het=1.0, ngroups=1, cov=8, homop=0.0,
                      phi="synthetic", bmode="same", prephase=0.0, foreign=False, params=None, unrec=0.0, extras=False,
                      nomav=False, missing=0.3))
    # corpus: symbolic-ALT records in front of records of every genotype class, coverage skewed by haplotype (the reader
    # restricts every record to its own genotype: a restriction applied to the wrong record shows under skewed coverage)
    for sd in (60, 65):
        specs.append(dict(seed=sd, stream="plain", nvars=10, nsamples=1, nchrom=1, het=0.6, ngroups=2, cov=8, homop=0.0,
                          phi="synthetic", bmode="same", prephase=0.0, foreign=False, params=None, unrec=0.0, extras=False,
                          nomav=False, skew=True, symbolic=1.0))
    # corpus: haplotag --no-reference with phased symbolic-ALT records in the VCF (found with VERIF_SEED=13)
    specs.append({'seed': 461647484801, 'stream': 'history', 'nvars': 13, 'nsamples': 2, 'nchrom': 2, 'het': 1.0, 'ngroups': 3, 'cov': 3, 'homop': 0.4, 'phi': 'synthetic', 'bmode': 'same', 'prephase': 0.0, 'foreign': False, 'params': None, 'unrec': 0.0, 'extras': False, 'nomav': False, 'history': 'first', 'names': 'plain', 'rg': 'sample', 'feat': {'pairs': 0, 'bx': 0.3, 'lowq': 0, 'dup': 0, 'edge': 0}, 'edges': False, 'emptychrom': False, 'psids': 'usual', 'deco': False, 'io': {'stdout': True, 'gz': False, 'chromosome': 0, 'haplotag': ['--no-reference']}, 'skew': True, 'symbolic': 1.0, 'missing': 0.0, 'collide': False})
    plan = [("history", ctx.n(3, 40)), ("rawtags", ctx.n(4, 50)), ("twice", ctx.n(2, 25)), ("mav", ctx.n(3, 30)),
            ("plain", ctx.n(14, 200)), ("prephased", ctx.n(12, 160)), ("unrecognised", ctx.n(4, 50)),
            ("bridged", ctx.n(4, 40)), ("noisy", ctx.n(4, 40)), ("params", ctx.n(4, 40)), ("foreign", ctx.n(3, 30))]
    for stream, k in plan:
        for _ in range(k):
            specs.append(make_spec(rng, stream))
    meta, failing = run_specs(ctx, specs, "all")
    rule, l2 = report(ctx, meta, failing)
    ctx.extra["model_rule_followed_by_code"] = rule
    ctx.extra["pipelines"] = len(specs)
    for spec, c, ch in meta[:3]:
        ctx.sample({"spec": spec, "chromosome": c, "input_calls": [[r[0] + 1] + [fmt_call(x) for x in r[3]] for r in ch["inp"]],
                    "output_calls": [[r[0] + 1] + [fmt_call(x) for x in r[3]] for r in ch["out"]]})
    if l2:
        for name, idx in l2:
            ctx.disagreements_checked += len(idx)
            ctx.l2_disagreement(name, [{"spec": meta[i][0], "chromosome": meta[i][1]} for i in idx])
        if not any(v["found_input"] for v in ctx.violations):
            # wider seeded search for an input violating the property text (verdicts from Coq)
            more = [make_spec(rng, rng.choice(["plain", "prephased"])) for _ in range(ctx.n(40, 200))]
            m2, f2 = run_specs(ctx, more, "search")
            report(ctx, m2, f2)


def replay(ctx, data):
    if "spec" not in data:
        return run(ctx)
    meta, failing = run_specs(ctx, [data["spec"]], "replay")
    rule, l2 = report(ctx, meta, failing)
    for name, idx in l2:
        ctx.l2_disagreement(name, [{"spec": meta[i][0], "chromosome": meta[i][1]} for i in idx])
