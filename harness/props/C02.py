"""C02 — read-based phasing of error-free reads reproduces the true haplotypes (end to end)."""
import json
import os

from .. import synth
from ..coqeval import term, Raw, Nat, eval_checks
from ..util import run_cli, workdir

RULE = ("end-to-end runs of the real `whatshap phase` CLI (default exact algorithm, with reference) on synthetic data: "
        "1-3 samples, 1-2 chromosomes, 4-12 well separated variants per chromosome (SNV/insertion/deletion/MNP), random true "
        "diploid haplotypes, error-free single and paired reads of random length/placement/depth (often above "
        "--internal-downsampling), --tag PS|HP, --only-snvs, --sample subsets. One evaluation = one (run, sample) output "
        "compared with the truth inside Coq, plus one per traced solver instance. Non-trivial = at least one phase set with "
        ">= 2 phased variants; distinct = distinct (scenario, options).")
TRUSTED = [
    "modelled, not verified: BAM/FASTA/VCF I/O through pysam/htslib; the pipeline stages are tied per run through the "
    "WHATSHAP_VERIF_TRACE hook (detected alleles = true alleles, zero-cost witness, components) and proved separately as C01/C03/C06",
    "read merging (--merge-reads) and the affine/kmerald re-alignment modes are not modelled (defaults are off)",
    "HP tags are decoded by their definition (haplotype id per listed GT allele), not through whatshap's reader",
]
ASSUMPTIONS = ["reads are error-free copies of one true haplotype with canonical CIGARs; variants are separated by >= 25 bp; "
               "genotypes in the input VCF are the true genotypes (trusted)"]

HEADER = """From Coq Require Import ZArith List Bool Arith.
From WH.Model Require Import UnionFind UFSpec Mec.
Import ListNotations.
"""


def b(x):
    return Raw("true" if x else "false")


def pair(p):
    return Raw(f"({b(p[0])}, {b(p[1])})")


def decode_call(call):
    """-> (ps, (allele hap0, allele hap1)) for a phased diploid call, else None. PS: GT a|b. HP: 'ps-h' per GT allele."""
    gt = call.get("GT")
    if gt is None or len(gt) != 2 or any(a is None for a in gt):
        return None
    hp = call.get("HP") if "HP" in call else None
    if hp is not None and not (len(hp) == 1 and hp[0] in (None, ".")):
        try:
            items = [x.split("-") for x in hp]
            ps = int(items[0][0])
            out = [None, None]
            for allele, (p, hnum) in zip(gt, items):
                out[int(hnum) - 1] = allele
            if None in out:
                return None
            return ps, tuple(out)
        except Exception:
            return ("bad-hp", tuple(hp))
    if call.phased:
        ps = call.get("PS") if "PS" in call else None
        return (ps if ps is not None else -1), (gt[0], gt[1])
    return None


def nested_reads(rng, sc, sample, chrom):
    """Interleaved components: paired fragments whose mates cover only an outer pair of variants (A, D) and whose insert
    contains variants (B, C, ...) that are connected only among themselves by short single reads. The true components
    are {A, D} and {B, C, ...}; a phase set that lumps them together is right only by luck of two independent tie-breaks."""
    ref, vs, haps = sc.ref[chrom], sc.variants[chrom], sc.haps[sample][chrom]
    het = [i for i, x in enumerate(haps) if x[0] != x[1]]
    if len(vs) < 4:
        return []

    def window(i, j, alleles):
        a, e = max(0, vs[i].pos - 12), min(len(ref) - 1, vs[j].pos + len(vs[j].ref) + 12)
        while a < e and not synth.legal_boundary(vs, a):
            a += 1
        while e > a and not synth.legal_boundary(vs, e, alleles, True):
            e -= 1
        return a, e

    out, k = [], 0
    i = rng.randint(0, len(vs) - 4)
    j = rng.randint(i + 3, len(vs) - 1)
    for rep in range(rng.randint(2, 4)):
        for h in (0, 1):
            alleles = [x[h] for x in haps]
            (s1, e1), (s2, e2) = window(i, i, alleles), window(j, j, alleles)
            if e1 - s1 < 10 or e2 - s2 < 10 or s2 < e1:
                continue
            q1, c1 = synth.hap_walk(ref, vs, alleles, s1, e1)
            q2, c2 = synth.hap_walk(ref, vs, alleles, s2, e2)
            name = f"{sample}_{chrom}_n{k}"
            k += 1
            out.append(dict(name=name, sample=sample, chrom=chrom, start=s1, cigar=c1, seq=q1, qual=30, hap=h,
                            flag=0x1 | 0x2 | 0x40 | 0x20, mate_start=s2))
            out.append(dict(name=name, sample=sample, chrom=chrom, start=s2, cigar=c2, seq=q2, qual=30, hap=h,
                            flag=0x1 | 0x2 | 0x80 | 0x10, mate_start=s1))
            s3, e3 = window(i + 1, j - 1, alleles)
            if e3 - s3 >= 10:
                q3, c3 = synth.hap_walk(ref, vs, alleles, s3, e3)
                out.append(dict(name=f"{sample}_{chrom}_n{k}", sample=sample, chrom=chrom, start=s3, cigar=c3, seq=q3,
                                qual=30, hap=h, flag=0))
                k += 1
    return out


def make_case(ctx, rng):
    nsamples = rng.choice([1, 1, 2, 3])
    nchrom = rng.choice([1, 1, 2])
    nvars = rng.randint(4, 12)
    kinds = rng.choice([("snv",), ("snv", "ins", "del", "mnp"), ("snv", "ins", "del"), ("ins", "del"), ("snv", "mnp")])
    twin = rng.random() < 0.15
    if twin:
        nchrom, kinds = 2, ("snv",)
    sc = synth.make_scenario(rng, nchrom=nchrom, nsamples=nsamples, nvars=nvars, kinds=kinds,
                             het_fraction=rng.choice([0.6, 0.8, 1.0]))
    if twin:
        # twin contigs (paralogous / alternative-haplotype contigs): the second chromosome has the sequence of the first
        # and variants at the same coordinates, about half of them with REF and ALT exchanged; the true haplotypes
        # of the two chromosomes are independent
        a, b_ = sc.chroms
        seq = list(sc.ref[a])
        vs2 = []
        for v in sc.variants[a]:
            if rng.random() < 0.5:
                seq[v.pos] = v.alt
                vs2.append(synth.Variant(v.pos, v.alt, v.ref, v.kind))
            else:
                vs2.append(synth.Variant(v.pos, v.ref, v.alt, v.kind))
        sc.ref[b_] = "".join(seq)
        sc.variants[b_] = vs2
        for s_ in sc.samples:
            sc.haps[s_][b_] = [rng.choice([(0, 1), (1, 0)]) if rng.random() < 0.8 else rng.choice([(0, 0), (1, 1)]) for _ in vs2]
    reads = []
    depth_mode = rng.choice(["low", "mid", "high"])
    nested = rng.random() < 0.2
    for s in sc.samples:
        for c in sc.chroms:
            if nested:
                reads += nested_reads(rng, sc, s, c)
                continue
            n = {"low": rng.randint(3, 10), "mid": rng.randint(10, 40), "high": rng.randint(40, 90)}[depth_mode]
            lr = rng.choice([(60, 150), (120, 350), (250, 700)])
            reads += synth.simulate_reads(rng, sc, s, c, n, len_range=lr, paired_fraction=rng.choice([0, 0, 0.4]),
                                          edge_fraction=rng.choice([0.0, 0.3, 0.7]),
                                          softclip_fraction=rng.choice([0.0, 0.0, 0.5]))
    opts = {"tag": rng.choice(["PS", "HP"]), "only_snvs": rng.random() < 0.2,
            "downsampling": rng.choice([2, 3, 4, 6, 15]),
            "samples": None, "nbam": rng.choice([1, 1, 2]), "rg_per_sample": rng.choice([1, 1, 2, 3]),
            "mapq0": rng.random() < 0.25, "ignore_rg": nsamples == 1 and rng.random() < 0.3, "nested": nested, "twin": twin}
    if opts["mapq0"]:
        # run with --mapping-quality 0 and give reads arbitrary mapping qualities incl. 0: every read must then be
        # used with its full base-quality weights
        by = {}
        for r in reads:
            by.setdefault(r["name"], rng.choice([0, 0, 3, 20, 60]))
            r["mapq"] = by[r["name"]]
    if opts["nbam"] == 2:
        # spread the templates over two BAM files and give them per-file names that collide across files
        # (same read name in both files, possibly on opposite haplotypes): whatshap keys reads by (file, name)
        by_name = {}
        for r in reads:
            by_name.setdefault(r["name"], []).append(r)
        counters = [0, 0]
        for name in sorted(by_name):
            f = rng.randint(0, 1)
            new = f"q{counters[f]}"
            counters[f] += 1
            for r in by_name[name]:
                r["name"] = new
                r["bam"] = f
    if nsamples > 1 and rng.random() < 0.4:
        opts["samples"] = sorted(rng.sample(sc.samples, rng.randint(1, nsamples - 1)))
    # read-group ids are numbers assigned per file: the id that belongs to one sample in the first file belongs to
    # another sample in the second one (ids only mean something inside their own file)
    opts["rg_clash"] = nsamples > 1 and rng.random() < (0.7 if opts["nbam"] == 2 else 0.3)
    # unphased heterozygous input calls written in descending allele order (1/0): legal VCF, pysam keeps the order
    opts["desc_gt"] = []
    if rng.random() < 0.4:
        for s_ in sc.samples:
            for c_ in sc.chroms:
                for i_ in range(len(sc.variants[c_])):
                    a_, b_ = sc.haps[s_][c_][i_]
                    if a_ != b_ and rng.random() < 0.4:
                        opts["desc_gt"].append([s_, c_, i_])
    return sc, reads, opts


def rg_id_map(sc, opts, f):
    if not opts.get("rg_clash"):
        return None
    n, k = len(sc.samples), max(1, opts.get("rg_per_sample", 1))
    m = {}
    for i, s in enumerate(sc.samples):
        for j in range(k):
            m[s if k <= 1 else f"{s}.{j}"] = str(((i + f) % n) * k + j + 1)
    return m


def run_case(ctx, sc, reads, opts, wd):
    synth.write_fasta(sc, os.path.join(wd, "ref.fa"))
    override = {}
    for s_, c_, i_ in opts.get("desc_gt") or []:
        hi, lo = sorted(sc.haps[s_][c_][i_], reverse=True)
        override[(s_, c_, i_)] = f"{hi}/{lo}"
    synth.write_vcf(sc, os.path.join(wd, "in.vcf"), gt_override=override or None)
    nbam = opts.get("nbam", 1)
    bams = []
    for f in range(nbam):
        sub = [r for r in reads if r.get("bam", 0) == f]
        if not sub and (f > 0 or nbam > 1):
            continue
        path = f"reads{f}.bam"
        synth.write_bam(sc, sub, os.path.join(wd, path), rg_per_sample=opts.get("rg_per_sample", 1), rg_ids=rg_id_map(sc, opts, f))
        bams.append(path)
    trace = os.path.join(wd, "trace.jsonl")
    if os.path.exists(trace):
        os.unlink(trace)
    args = ["phase", "-r", "ref.fa", "-o", "out.vcf", "--tag", opts["tag"],
            "--internal-downsampling", str(opts["downsampling"])]
    if opts["only_snvs"]:
        args.append("--only-snvs")
    if opts.get("mapq0"):
        args += ["--mapping-quality", "0"]
    if opts.get("ignore_rg"):
        args.append("--ignore-read-groups")
    for s in opts["samples"] or []:
        args += ["--sample", s]
    if not bams:
        synth.write_bam(sc, [], os.path.join(wd, "reads0.bam"), rg_per_sample=opts.get("rg_per_sample", 1), rg_ids=rg_id_map(sc, opts, 0))
        bams = ["reads0.bam"]
    args += ["in.vcf"] + bams
    rc, out, err = run_cli(ctx, args, cwd=wd, env_extra={"WHATSHAP_VERIF_TRACE": trace})
    traces = []
    if os.path.exists(trace):
        traces = [json.loads(l) for l in open(trace)]
    return rc, err, traces


def vcf_cases(sc, opts, path):
    """per target sample: list of (ps, written pair, true pair) over all chromosomes (ps made unique per chromosome)."""
    import pysam
    targets = opts["samples"] or sc.samples
    per = {s: [] for s in targets}
    problems = []
    chrom_id = {c: i for i, c in enumerate(sc.chroms)}
    with pysam.VariantFile(path) as vf:
        for rec in vf:
            truth = {s: synth.truth_alleles(sc, s, rec.chrom).get(rec.pos) for s in sc.samples}
            for s in sc.samples:
                d = decode_call(rec.samples[s])
                if d is None:
                    continue
                if s not in targets:
                    problems.append(f"non-target sample {s} phased at {rec.chrom}:{rec.pos}")
                    continue
                if d[0] == "bad-hp":
                    problems.append(f"undecodable HP {d[1]} at {rec.chrom}:{rec.pos} sample {s}")
                    continue
                ps, g = d
                per[s].append((chrom_id[rec.chrom] * 10 ** 7 + int(ps), g, truth[s]))
    return per, problems


def calls_term(calls):
    return term([Raw(f"({ps}%Z, {pair(g)}, {pair(t)})") for ps, g, t in calls])


def trace_term(sc, tr):
    """solver instance of one single-sample family -> Coq term (reads, origin, beta, h assoc, truth assoc, cols, cost)"""
    sample = tr["family"][0]
    chrom = tr["chromosome"]
    pos = tr["accessible_positions"]
    col = {p: i for i, p in enumerate(pos)}
    truth = {p1 - 1: v for p1, v in synth.truth_alleles(sc, sample, chrom).items()}   # trace positions are 0-based
    reads, origin = [], []
    for r in tr["reads"]:
        ents = [Raw(f"({col[p]}, {b(a == 1)}, {q})") for p, a, q in r["variants"] if p in col]
        reads.append(ents)
        # generator read names: <sample>_<chrom>_r<k>; haplotype looked up by the caller
        origin.append(r["_hap"])
    sr = tr["superreads"][0]
    h0 = {p: a for p, a, _ in sr[0]}
    h1 = {p: a for p, a, _ in sr[1]}
    hl, tl = [], []
    ok_alleles = True
    for p in pos:
        a0, a1 = h0.get(p), h1.get(p)
        if a0 not in (0, 1) or a1 not in (0, 1):
            ok_alleles = False
            a0, a1 = 0, 0
        hl.append(Raw(f"({col[p]}, {pair((a0, a1))})"))
        tl.append(Raw(f"({col[p]}, {pair(truth[p])})"))
    beta = [Raw("true" if x else "false") for x in tr["partitioning"]]
    t = "(" + ", ".join([term(reads), term([b(o) for o in origin]), term(beta), term(hl), term(tl),
                         term([Nat(i) if i < 4000 else Raw(str(i)) for i in range(len(pos))]),
                         f"{tr['cost']}"]) + ")"
    return t, ok_alleles


LINK_HEADER = """From Coq Require Import ZArith List Bool Arith.
From WH.Model Require Import UnionFind UFSpec Mec.
From WH.Model Require PedMEC.
From WH.Proofs Require PedMECtoMec.
Import ListNotations.
Fixpoint leqb {A : Type} (e : A -> A -> bool) (x y : list A) : bool :=
  match x, y with [], [] => true | a :: x', b :: y' => e a b && leqb e x' y' | _, _ => false end.
Definition ent_eqb (x y : nat * bool * nat) : bool :=
  match x, y with (c, a, w), (c', a', w') => Nat.eqb c c' && Bool.eqb a a' && Nat.eqb w w' end.
"""
# the traced instance, re-written densely, is an instance of theorem C02_solver_reproduces_truth: it is well-formed,
# its sparse view is exactly the read list the other checks use, and the haplotype pair the theorem speaks about
# (get_alleles at the implementation's own bipartition) is the pair carried by the implementation's super reads
LINK_FN = ("fun c => match c with (n, dense, sparse, beta, hl) => "
           "let I := PedMECtoMec.single n dense in "
           "PedMEC.wf I && leqb (leqb ent_eqb) (PedMECtoMec.mec_reads I) sparse && "
           "forallb (fun ch => pair_eqb (PedMECtoMec.witness_haps I beta (fst ch)) (snd ch)) hl end")


def link_term(sc, tr):
    """dense PedMEC form of a traced single-sample instance, or None if the trace has no column at all"""
    pos = tr["accessible_positions"]
    col = {p: i for i, p in enumerate(pos)}
    dense, sparse = [], []
    for r in tr["reads"]:
        ents = sorted((col[p], a, q) for p, a, q in r["variants"] if p in col)
        if not ents:
            return None
        first, last = ents[0][0], ents[-1][0]
        by = {c: (a, q) for c, a, q in ents}
        row = [Raw(f"Some ({b(by[c][0] == 1)}, {by[c][1]})") if c in by else Raw("None") for c in range(first, last + 1)]
        dense.append(Raw(f"PedMEC.MkRead 0 {first} {term(row)}"))
        sparse.append([Raw(f"({c}, {b(a == 1)}, {q})") for c, a, q in ents])
    sr = tr["superreads"][0]
    h0 = {p: a for p, a, _ in sr[0]}
    h1 = {p: a for p, a, _ in sr[1]}
    covered = set()
    for r in tr["reads"]:
        covered.update(col[p] for p, _, _ in r["variants"] if p in col)
    hl = [Raw(f"({col[p]}, {pair((h0[p], h1[p]))})") for p in pos
          if col[p] in covered and h0.get(p) in (0, 1) and h1.get(p) in (0, 1)]
    beta = [Raw("true" if x else "false") for x in tr["partitioning"]]
    return "(" + ", ".join([str(len(pos)), term(dense), term(sparse), term(beta), term(hl)]) + ")", len(hl)


TRACE_FN = ("fun c => match c with (reads, origin, beta, hl, tl, cols, cst) => "
            "forallb (fun r => forallb (fun e => match e with (_, _, w) => Nat.ltb 0 w end) r) reads && "
            "error_free (haps_of tl) origin reads && Nat.eqb (cost (haps_of hl) beta reads) 0 && Nat.eqb cst 0 "
            "&& truth_up_to_flip reads cols (haps_of hl) (haps_of tl) end")


def evaluate(ctx, batch):
    """batch: list of dict(sc, reads, opts, rc, err, traces, wd). Records outcomes."""
    l1_cases, l1_meta, l2_cases, l2_meta = [], [], [], []
    link_cases, link_meta = [], []
    for item in batch:
        sc, opts = item["sc"], item["opts"]
        key = json.dumps([sc.to_json(), opts, [(r.get("bam", 0), r["name"], r["start"], r["hap"]) for r in item["reads"]]], sort_keys=True)
        replay = {"scenario": sc.to_json(), "reads": item["reads"], "opts": opts}
        if item["rc"] != 0:
            ctx.count(key, nontrivial=False)
            ctx.violation("phase:crash", f"whatshap phase failed (exit {item['rc']}) on error-free synthetic input: {item['err'][-400:]}", replay)
            continue
        per, problems = vcf_cases(sc, opts, os.path.join(item["wd"], "out.vcf"))
        for p in problems:
            ctx.violation("phase:output-malformed", p, replay)
        for s, calls in per.items():
            sizes = {}
            for ps, _, _ in calls:
                sizes[ps] = sizes.get(ps, 0) + 1
            ctx.count((key, s), nontrivial=any(v >= 2 for v in sizes.values()))
            ctx.tally("phased_calls", len(calls))
            ctx.tally("phase_sets", len(sizes))
            l1_cases.append(calls_term(calls))
            l1_meta.append((replay, s, calls))
        hap_of = {(r.get("bam", 0), r["name"]): r["hap"] for r in item["reads"]}
        two_files = any(r.get("bam", 0) == 1 for r in item["reads"]) and any(r.get("bam", 0) == 0 for r in item["reads"])
        for tr in item["traces"]:
            if len(tr["family"]) != 1 or tr["algorithm"] != "whatshap":
                continue
            good = True
            for r in tr["reads"]:
                k = (r["source_id"] if two_files else (1 if (0, r["name"]) not in hap_of else 0), r["name"])
                if k not in hap_of:
                    good = False
                r["_hap"] = hap_of.get(k, 0)
            if not good:
                ctx.l2_disagreement("trace: read handed to the solver is not an input read", [tr["chromosome"]])
                continue
            t, ok = trace_term(sc, tr)
            ctx.count((key, "trace", tr["chromosome"], tr["family"][0]), nontrivial=len(tr["reads"]) >= 2)
            ctx.tally("traced_instances")
            ctx.tally("traced_reads", len(tr["reads"]))
            l2_cases.append(t)
            l2_meta.append((replay, tr["chromosome"], tr["family"][0], ok))
            lt = link_term(sc, tr)
            if lt is not None:
                lt, ncmp = lt
                ctx.tally("solver_theorem_columns_compared", ncmp)
                link_cases.append(lt)
                link_meta.append((replay, tr["chromosome"], tr["family"][0]))
                ctx.tally("instances_of_solver_theorem")
    if l1_cases:
        failing, errors = eval_checks("C02vcf", HEADER, {"L1": "sets_match_truth"}, l1_cases, shard=200)
        if errors:
            raise RuntimeError("coq evaluation failed: " + errors[0][1])
        for i in failing["L1"]:
            replay, s, calls = l1_meta[i]
            bad = [c for c in calls if c[1] != c[2] and c[1] != (c[2][1], c[2][0])]
            ctx.violation("phase:wrong-haplotype",
                          f"sample {s}: a phase set of the output does not carry the true haplotypes up to a swap "
                          f"(options {replay['opts']}); calls (ps, written, truth) = {calls[:12]}", replay)
    if l2_cases:
        failing, errors = eval_checks("C02trace", HEADER, {"L2": TRACE_FN}, l2_cases, shard=100)
        if errors:
            raise RuntimeError("coq evaluation failed: " + errors[0][1])
        if failing["L2"]:
            ctx.disagreements_checked += len(failing["L2"])
            ctx.l2_disagreement("traced solver instance: error-free reads / zero-cost witness / truth up to component flip",
                                [{"chromosome": l2_meta[i][1], "sample": l2_meta[i][2], "opts": l2_meta[i][0]["opts"]}
                                 for i in failing["L2"]])


    if link_cases:
        failing, errors = eval_checks("C02link", LINK_HEADER, {"LINK": LINK_FN}, link_cases, shard=100)
        if errors:
            raise RuntimeError("coq evaluation failed: " + errors[0][1])
        if failing["LINK"]:
            ctx.disagreements_checked += len(failing["LINK"])
            ctx.l2_disagreement("traced solver instance is not an instance of C02_solver_reproduces_truth (dense form not "
                                "well-formed, sparse view differs, or super reads differ from get_alleles at the returned bipartition)",
                                [{"chromosome": link_meta[i][1], "sample": link_meta[i][2], "opts": link_meta[i][0]["opts"]}
                                 for i in failing["LINK"]])


def do_runs(ctx, specs):
    wd_root = workdir(ctx)
    batch = []
    for k, (sc, reads, opts) in enumerate(specs):
        wd = os.path.join(wd_root, f"run{k}")
        os.makedirs(wd, exist_ok=True)
        rc, err, traces = run_case(ctx, sc, reads, opts, wd)
        batch.append(dict(sc=sc, reads=reads, opts=opts, rc=rc, err=err, traces=traces, wd=wd))
        ctx.tally("runs")
        ctx.tally("tag." + opts["tag"])
        ctx.tally("bam_files", opts.get("nbam", 1))
        if opts.get("rg_clash"):
            ctx.tally("runs_with_numeric_read_group_ids")
            if opts.get("nbam", 1) == 2:
                ctx.tally("runs_with_read_group_id_meaning_another_sample_in_the_other_file")
        ctx.tally("read_groups_per_sample", opts.get("rg_per_sample", 1))
        if opts.get("nested"):
            ctx.tally("runs_with_interleaved_components_(pairs_around_inner_reads)")
        if opts.get("twin"):
            ctx.tally("runs_with_twin_chromosomes_(same_sequence_and_coordinates,_REF/ALT_exchanged)")
        if opts.get("desc_gt"):
            ctx.tally("runs_with_descending_unphased_input_genotypes")
            ctx.tally("input_calls_written_1/0", len(opts["desc_gt"]))
            if opts["tag"] == "HP":
                ctx.tally("runs_with_descending_input_genotypes_and_tag_HP")
        ctx.tally("runs_with_mapq0_option", 1 if opts.get("mapq0") else 0)
        ctx.tally("runs_with_ignore_read_groups", 1 if opts.get("ignore_rg") else 0)
        ctx.tally("runs_with_only_snvs", 1 if opts["only_snvs"] else 0)
        ctx.tally("runs_with_sample_subset", 1 if opts["samples"] else 0)
        ctx.tally("reads_soft_clipped", sum(1 for r in reads if r["cigar"] and r["cigar"][0][0] == "S" or r["cigar"][-1][0] == "S"))
        ctx.tally("reads_total", len(reads))
        ctx.tally("downsampling." + str(opts["downsampling"]))
        ctx.tally("samples", len(sc.samples))
        if k < 2:
            ctx.sample({"opts": opts, "samples": sc.samples, "chroms": sc.chroms,
                        "variants": {c: [v.to_json() for v in vs] for c, vs in sc.variants.items()},
                        "n_reads": len(reads), "first_read": {k2: v for k2, v in reads[0].items()} if reads else None})
    evaluate(ctx, batch)


def run(ctx):
    n = ctx.n(60, 600)
    specs = [make_case(ctx, ctx.rng) for _ in range(n)]
    do_runs(ctx, specs)


def replay(ctx, data):
    sc = synth.Scenario.from_json(data["scenario"])
    reads = data["reads"]
    for r in reads:
        r["cigar"] = [tuple(x) for x in r["cigar"]]
    do_runs(ctx, [(sc, reads, data["opts"])])
