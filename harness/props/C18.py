"""C18 — priority queue and component finder match their abstract models on all histories."""
import itertools

from ..coqeval import term, Raw, Nat, eval_checks

RULE = ("priority queue: exhaustive valid histories (push absent / change queued / pop / get / len) over 3 items x "
        "scores from a 3-element domain up to a fixed length, plus seeded random histories (8 items, score ties, "
        "scalar and 2-/3-tuple scores, root/inner/leaf changes) incl. pop-on-empty and lookups of absent items; "
        "component finder: exhaustive merge sequences over 4 values + random merge/find histories over <= 10 values "
        "plus malformed ops (x==y, unknown value). A case is non-trivial if it contains at least one pop of a queue "
        "with >= 2 entries (heap) / at least one merge joining two multi-element or distinct classes (uf); "
        "distinct = distinct (ops) sequence.")
TRUSTED = [
    "modelled, not verified: C++ std::vector/unordered_map semantics behind priorityqueue.pyx (vector indexing, "
    "operator[] default 0), Cython int arithmetic ((i-1)//2 floor division), Python dict/object semantics behind graph.py",
    "score vectors are compared as unbounded integers in the model; the implementation uses C int (no overflow for the generated scores)",
]
ASSUMPTIONS = ["API preconditions of the queue: push only of an item not queued, change_score only of a queued item "
               "(readselect.pyx guards both); histories are checked up to the first precondition violation"]

HEADER = """From Coq Require Import ZArith List Bool Arith.
From WH.Model Require Import Heap HeapSpec UnionFind UFSpec.
Import ListNotations.
Open Scope Z_scope.
"""


# ------------------------------------------------------------------ priority queue
def sc(s):
    return list(s) if isinstance(s, (tuple, list)) else [s]


def run_pq_impl(ops):
    from whatshap.priorityqueue import PriorityQueue
    q = PriorityQueue()
    outs = []
    for o in ops:
        k = o[0]
        try:
            if k == "push":
                q.push(o[1] if len(o[1]) != 1 else o[1][0], o[2])
                outs.append(("unit",))
            elif k == "pop":
                try:
                    s, it = q.pop()
                    outs.append(("pop", sc(s), it))
                except IndexError:
                    outs.append(("pop", None))
            elif k == "change":
                q.change_score(o[1], tuple(o[2]) if len(o[2]) != 1 else o[2][0])
                outs.append(("unit",))
            elif k == "get":
                s = q.get_score_by_item(o[1])
                outs.append(("get", None if s is None else sc(s)))
            elif k == "len":
                n = len(q)
                outs.append(("len", n if q.is_empty() == (n == 0) else -1 - n))
        except Exception as e:      # any other exception is an observable (wrong) output
            outs.append(("exc", type(e).__name__))
    return outs


def pq_oracle(ops, outs):
    """python mirror of HeapSpec.check_trace (search only; confirmed in Coq before reporting)."""
    m = {}
    for o, r in zip(ops, outs):
        k = o[0]
        if k == "push":
            if o[2] in m:
                return True
            m[o[2]] = list(o[1])
        elif k == "change":
            if o[1] not in m:
                return True
            m[o[1]] = list(o[2])
        elif k == "pop":
            if r[1] is None:
                if m:
                    return False
            else:
                s, it = r[1], r[2]
                if m.get(it) != s:
                    return False
                if any(_lower(s, v) for v in m.values()):
                    return False
                del m[it]
        elif r[0] == "exc":
            return False
        elif k == "get":
            if r[1] != m.get(o[1]):
                return False
        elif k == "len":
            if r[1] != len(m):
                return False
    return True


def _lower(a, b):
    for x, y in zip(a, b):
        if x < y:
            return True
        if x > y:
            return False
    return len(a) < len(b)


def pq_op_term(o):
    k = o[0]
    if k == "push":
        return Raw(f"OPush {term(list(o[1]))} {term(o[2])}")
    if k == "pop":
        return Raw("OPop")
    if k == "change":
        return Raw(f"OChange {term(o[1])} {term(list(o[2]))}")
    if k == "get":
        return Raw(f"OGet {term(o[1])}")
    return Raw("OLen")


def pq_out_term(r):
    k = r[0]
    if k == "unit":
        return Raw("RUnit")
    if k == "pop":
        return Raw("RPop None") if r[1] is None else Raw(f"RPop (Some ({term(r[1])}, {term(r[2])}))")
    if k == "get":
        return Raw("RGet None") if r[1] is None else Raw(f"RGet (Some {term(r[1])})")
    if k == "exc" or r[1] < 0:
        return Raw("RLen 4999%nat")      # an exception / inconsistent is_empty: rendered as an impossible output
    return Raw(f"RLen {r[1]}%nat")


def pq_case_term(ops, outs):
    return "(" + term([pq_op_term(o) for o in ops]) + ", " + term([pq_out_term(r) for r in outs]) + ")"


def pq_nontrivial(ops):
    size = 0
    queued = set()
    for o in ops:
        if o[0] == "push":
            queued.add(o[2])
        elif o[0] == "pop":
            if len(queued) >= 2:
                return True
            queued.clear()  # conservative
    return False


def queued_after(ops, outs):
    m = set()
    for o, r in zip(ops, outs):
        if o[0] == "push":
            m.add(o[2])
        elif o[0] == "pop" and r[1] is not None:
            m.discard(r[2])
    return m


def gen_pq_exhaustive(maxlen, items=(1, 2, 3), scores=((0,), (1,), (1, 0))):
    """all valid histories up to maxlen (validity follows the implementation's own pops)."""
    def rec(prefix, depth):
        yield prefix
        if depth == maxlen:
            return
        queued = queued_after(prefix, run_pq_impl(prefix))
        for it in items:
            for s in scores:
                yield from rec(prefix + [("change", it, s) if it in queued else ("push", s, it)], depth + 1)
        yield from rec(prefix + [("pop",)], depth + 1)
        if depth + 1 == maxlen:      # lookups only as last operation (they do not change the state)
            for it in items:
                yield prefix + [("get", it)]
            yield prefix + [("len",)]
    return rec([], 0)


def gen_pq_random(rng, n, maxlen):
    from whatshap.priorityqueue import PriorityQueue
    for _ in range(n):
        nitems = rng.choice([1, 2, 3, 5, 8, 20])
        dim = rng.choice([1, 1, 2, 3, 0, 0])  # 0 = mixed lengths (incl. the empty score vector)
        hi = rng.choice([1, 2, 3, 50, 2 ** 31 - 2])
        # item ids are arbitrary C ints: use a random injective relabelling incl. negative and extreme ids
        relabel = rng.choice([None, None, "neg", "big"])
        L = rng.randint(1, maxlen)
        ops = []
        live = PriorityQueue()
        queued = set()

        def score():
            d = dim if dim else rng.choice([0, 1, 1, 2, 3])
            return tuple(rng.randint(-1 if hi < 100 else -hi, hi) for _ in range(d))

        def iid(i):
            if relabel == "neg":
                return -i
            if relabel == "big":
                return (2 ** 31 - 1) - 7 * i if i % 2 else -(2 ** 31) + 5 * i
            return i
        for _ in range(L):
            x = rng.random()
            absent = [i for i in range(nitems) if i not in queued]
            if x < 0.35 and absent:
                it = rng.choice(absent)
                s = score()
                ops.append(("push", s, iid(it)))
                live.push(s if len(s) != 1 else s[0], iid(it))
                queued.add(it)
            elif x < 0.6 and queued:
                it = rng.choice(sorted(queued))
                s = score()
                ops.append(("change", iid(it), s))
                live.change_score(iid(it), s if len(s) != 1 else s[0])
            elif x < 0.85:
                ops.append(("pop",))
                try:
                    popped = live.pop()[1]
                    queued -= {i for i in queued if iid(i) == popped}
                except IndexError:
                    pass
            elif x < 0.95:
                ops.append(("get", iid(rng.randrange(nitems + 1))))
            else:
                ops.append(("len",))
        yield ops


# ------------------------------------------------------------------ component finder
def run_uf_impl(values, ops):
    from whatshap.graph import ComponentFinder
    cf = ComponentFinder(values)
    outs = []
    for o in ops:
        try:
            if o[0] == "merge":
                cf.merge(o[1], o[2])
                outs.append(("ok",))
            else:
                outs.append(("val", cf.find(o[1])))
        except KeyError:
            outs.append(("err", "KeyError"))
        except AssertionError:
            outs.append(("err", "AssertionError"))
    return outs


def uf_oracle(values, ops, outs):
    adj = {v: {v} for v in values}
    cls = {v: frozenset([v]) for v in values}
    for o, r in zip(ops, outs):
        if o[0] == "merge":
            x, y = o[1], o[2]
            wf = x != y and x in cls and y in cls
            if not wf:
                if r[0] != "err":
                    return False
                continue
            if r != ("ok",):
                return False
            c = cls[x] | cls[y]
            for v in c:
                cls[v] = c
        else:
            if o[1] not in cls:
                if r[0] != "err":
                    return False
                continue
            if r != ("val", min(cls[o[1]])):
                return False
    return True


def uf_case_term(values, ops, outs):
    ot = [Raw(f"UMerge {o[1]} {o[2]}") if o[0] == "merge" else Raw(f"UFind {o[1]}") for o in ops]
    rt = []
    for r in outs:
        if r[0] == "ok":
            rt.append(Raw("UOk"))
        elif r[0] == "val":
            rt.append(Raw(f"UVal {r[1]}"))
        else:
            rt.append(Raw(f"UErr {r[1]}"))
    return "(" + term([Nat(v) for v in values]) + ", " + term(ot) + ", " + term(rt) + ")"


def gen_uf_exhaustive(maxmerges):
    values = [1, 2, 4, 7]
    pairs = [(a, b) for a in values for b in values if a != b]
    for k in range(maxmerges + 1):
        for seq in itertools.product(pairs, repeat=k):
            ops = [("merge", a, b) for a, b in seq] + [("find", v) for v in values]
            yield values, ops


def gen_uf_random(rng, n):
    for _ in range(n):
        nv = rng.randint(1, 14)
        values = rng.sample(range(0, 40), nv)
        if rng.random() < 0.5:
            values.sort()
        L = rng.randint(1, 45)
        ops = []
        for _ in range(L):
            x = rng.random()
            if x < 0.55 and nv >= 2:
                a, b = rng.sample(values, 2)
                ops.append(("merge", a, b))
            elif x < 0.9:
                ops.append(("find", rng.choice(values)))
            elif x < 0.95:
                v = rng.choice(values)
                ops.append(("merge", v, v))
            else:
                ops.append(rng.choice([("find", 41), ("merge", 41, values[0]), ("merge", values[0], 42)]))
        ops += [("find", v) for v in values]
        yield values, ops


def uf_nontrivial(ops):
    return sum(1 for o in ops if o[0] == "merge" and o[1] != o[2]) >= 2


# ------------------------------------------------------------------ driver
PQ_L1 = "fun c => check_trace [] (fst c) (snd c)"
PQ_L2 = "fun c => outs_eqb (run empty_pq (fst c)) (snd c)"
UF_L1 = "fun c => ucheck (fst (fst c)) [] (snd (fst c)) (snd c)"
UF_L2 = "fun c => uouts_eqb (urun (uf_init (fst (fst c))) (snd (fst c))) (snd c)"


def check_pq(ctx, histories, label):
    cases, raw = [], []
    for ops in histories:
        outs = run_pq_impl(ops)
        raw.append((ops, outs))
        cases.append(pq_case_term(ops, outs))
        ctx.count(("pq", tuple(ops)), nontrivial=pq_nontrivial(ops))
        ctx.tally(f"pq.{label}.histories")
        ctx.tally("pq.ops", len(ops))
        for o in ops:
            ctx.tally("pq.op." + o[0])
    failing, errors = eval_checks("C18pq", HEADER, {"L1": PQ_L1, "L2": PQ_L2}, cases, shard=400)
    if errors:
        raise RuntimeError("coq evaluation failed: " + errors[0][1])
    for i in failing["L1"]:
        ops, outs = raw[i]
        ctx.violation("pq:spec", f"priority queue output contradicts the abstract map on history {ops} -> {outs}",
                      {"kind": "pq", "ops": ops})
    l2 = [raw[i] for i in failing["L2"]]
    return raw, failing, l2


def check_uf(ctx, hists, label):
    cases, raw = [], []
    for values, ops in hists:
        outs = run_uf_impl(values, ops)
        raw.append((values, ops, outs))
        cases.append(uf_case_term(values, ops, outs))
        ctx.count(("uf", tuple(values), tuple(ops)), nontrivial=uf_nontrivial(ops))
        ctx.tally(f"uf.{label}.histories")
        ctx.tally("uf.ops", len(ops))
    failing, errors = eval_checks("C18uf", HEADER, {"L1": UF_L1, "L2": UF_L2}, cases, shard=400)
    if errors:
        raise RuntimeError("coq evaluation failed: " + errors[0][1])
    for i in failing["L1"]:
        values, ops, outs = raw[i]
        ctx.violation("uf:spec", f"component finder: representative is not the component minimum on values={values} ops={ops} -> {outs}",
                      {"kind": "uf", "values": values, "ops": ops})
    l2 = [raw[i] for i in failing["L2"]]
    return raw, failing, l2


def shrink(ops, bad):
    """greedy delta-debugging on an op list; bad(ops) -> True if still failing"""
    ops = list(ops)
    i = 0
    while i < len(ops):
        cand = ops[:i] + ops[i + 1:]
        if bad(cand):
            ops = cand
        else:
            i += 1
    return ops


def run(ctx):
    rng = ctx.rng
    # corpus first
    pq_h = [
        [("push", (3,), 1), ("push", (5,), 2), ("push", (5,), 3), ("push", (1, 2), 4), ("change", 2, (0,)),
         ("change", 4, (9, 9)), ("get", 2), ("len",), ("pop",), ("pop",), ("pop",), ("pop",), ("pop",)],
        [("pop",), ("get", 0), ("len",)],
    ]
    ex = list(gen_pq_exhaustive(ctx.n(4, 6)))
    rnd = list(gen_pq_random(rng, ctx.n(1500, 40000), ctx.n(60, 200)))
    raw, failing, l2 = check_pq(ctx, pq_h + ex + rnd, "all")
    ctx.extra["pq_exhaustive_histories"] = len(ex)
    for ops, outs in raw[:2] + raw[-2:]:
        ctx.sample({"pq_ops": ops, "impl_outs": outs})
    if l2:
        ctx.disagreements_checked += len(l2)
        ctx.l2_disagreement("Heap.run = PriorityQueue outputs (L2)", [{"ops": o, "impl": r} for o, r in l2])
        if not failing["L1"]:
            # wider search with the python oracle; candidates confirmed in Coq
            cand = []
            for ops in gen_pq_random(rng, 20000, 80):
                outs = run_pq_impl(ops)
                ctx.count(("pq", tuple(ops)), nontrivial=pq_nontrivial(ops))
                if not pq_oracle(ops, outs):
                    small = shrink(ops, lambda c: not pq_oracle(c, run_pq_impl(c)))
                    cand.append(small)
                    if len(cand) >= 3:
                        break
            if cand:
                check_pq(ctx, cand, "search")

    uf_corpus = [([1, 2, 3, 5, 7, 9], [("merge", 5, 3), ("merge", 9, 7), ("find", 9), ("merge", 3, 9), ("merge", 1, 2),
                                       ("find", 5), ("find", 7), ("find", 2)])]
    uex = list(gen_uf_exhaustive(ctx.n(3, 4)))
    urnd = list(gen_uf_random(rng, ctx.n(1500, 40000)))
    raw, failing, l2 = check_uf(ctx, uf_corpus + uex + urnd, "all")
    ctx.extra["uf_exhaustive_histories"] = len(uex)
    for v, o, r in raw[:1] + raw[-2:]:
        ctx.sample({"uf_values": v, "uf_ops": o, "impl_outs": r})
    if l2:
        ctx.disagreements_checked += len(l2)
        ctx.l2_disagreement("UnionFind.urun = ComponentFinder outputs (L2)",
                            [{"values": v, "ops": o, "impl": r} for v, o, r in l2])
        if not failing["L1"]:
            cand = []
            for values, ops in gen_uf_random(rng, 20000):
                outs = run_uf_impl(values, ops)
                if not uf_oracle(values, ops, outs):
                    small = shrink(ops, lambda c: not uf_oracle(values, c, run_uf_impl(values, c)))
                    cand.append((values, small))
                    if len(cand) >= 3:
                        break
            if cand:
                check_uf(ctx, cand, "search")


def replay(ctx, data):
    if data.get("kind") == "pq":
        ops = [tuple(tuple(x) if isinstance(x, list) else x for x in o) for o in data["ops"]]
        check_pq(ctx, [ops], "replay")
    elif data.get("kind") == "uf":
        ops = [tuple(o) for o in data["ops"]]
        check_uf(ctx, [(data["values"], ops)], "replay")
    else:
        run(ctx)
